"""C07 translator: signature-algorithm tables of the live key / Transport classes.

generate(repo) -> {"C07_gen.v": text}.  Fail-closed: a hash class, key class, attribute shape or
source literal the translator does not recognise raises (the check then reports a broken obligation).

Emitted (all names as UTF-8 byte lists):
  c07_cert_suffix          the literal "-cert-v01@openssh.com" (re-read from the anchored functions)
  c07_rsa_hashes           RSAKey.HASHES            name -> hash id (1 = SHA-1, 256, 512)
  c07_key_info             Transport._key_info      name -> key class id (0 RSAKey, 1 ECDSAKey, 2 Ed25519Key)
  c07_ecdsa_curves         ECDSAKey._ECDSA_CURVES   key_format_identifier -> hash id (256 / 384 / 512)
  c07_rsa_name, c07_ed_name   RSAKey.name / Ed25519Key.name (what _check_type_and_load_cert compares with)
  c07_pref_keys, c07_pref_pubkeys   Transport._preferred_keys / _preferred_pubkeys
"""
import importlib
import inspect
import sys

CERT = "-cert-v01@openssh.com"


def _lit(s):
    if not isinstance(s, str):
        raise TypeError("algorithm name is not a str: %r" % (s,))
    return "[" + ";".join("%d" % b for b in s.encode("utf-8")) + "]"


def _names(xs):
    return "[" + ";\n   ".join(_lit(x) for x in xs) + "]"


def _table(pairs):
    return "[" + ";\n   ".join("(%s, %d)" % (_lit(k), v) for k, v in pairs) + "]"


def _need(src, lit, where):
    if lit not in src:
        raise RuntimeError("literal %s no longer occurs in %s" % (lit, where))


def generate(repo):
    for p in (repo + "/tests", repo):
        if p in sys.path:
            sys.path.remove(p)
        sys.path.insert(0, p)
    transport = importlib.import_module("paramiko.transport")
    rsakey = importlib.import_module("paramiko.rsakey")
    ecdsakey = importlib.import_module("paramiko.ecdsakey")
    edkey = importlib.import_module("paramiko.ed25519key")
    auth = importlib.import_module("paramiko.auth_handler")
    from cryptography.hazmat.primitives import hashes

    T = transport.Transport
    R = rsakey.RSAKey
    E = ecdsakey.ECDSAKey
    D = edkey.Ed25519Key

    # ---- RSAKey.HASHES --------------------------------------------------
    hid = {hashes.SHA1: 1, hashes.SHA256: 256, hashes.SHA384: 384, hashes.SHA512: 512}
    if not isinstance(R.HASHES, dict):
        raise TypeError("RSAKey.HASHES is not a dict")
    rsa_hashes = []
    for k in sorted(R.HASHES):
        h = R.HASHES[k]
        if h not in hid:
            raise RuntimeError("RSAKey.HASHES[%r] is an unrecognised hash class %r" % (k, h))
        rsa_hashes.append((k, hid[h]))
    # verify_ssh_sig must take the hash from that table and nothing else
    vsrc = inspect.getsource(R.verify_ssh_sig)
    _need(vsrc, "if sig_algorithm not in self.HASHES:", "RSAKey.verify_ssh_sig")
    _need(vsrc, "self.HASHES[sig_algorithm]()", "RSAKey.verify_ssh_sig")
    if vsrc.count("HASHES") != 2 or ".get(" in vsrc:
        raise RuntimeError("RSAKey.verify_ssh_sig uses HASHES in a way the model does not describe")

    # ---- Transport._key_info --------------------------------------------
    cid = {R: 0, E: 1, D: 2}
    if not isinstance(T._key_info, dict):
        raise TypeError("Transport._key_info is not a dict")
    key_info = []
    for k in sorted(T._key_info):
        c = T._key_info[k]
        if c not in cid:
            raise RuntimeError("Transport._key_info[%r] is an unrecognised key class %r" % (k, c))
        key_info.append((k, cid[c]))

    # ---- ECDSA curves -----------------------------------------------------
    curves = []
    for c in E._ECDSA_CURVES.ecdsa_curves:
        h = c.hash_object
        if h not in hid:
            raise RuntimeError("ECDSA curve %r has an unrecognised hash %r" % (c.key_format_identifier, h))
        curves.append((c.key_format_identifier, hid[h]))
    if [k for k, _ in curves] != list(E._ECDSA_CURVES.get_key_format_identifier_list()):
        raise RuntimeError("ECDSA curve identifier list differs from the curve set")
    esrc = inspect.getsource(E.verify_ssh_sig)
    # either the direct comparison, or (after the C35 repair) the name read under try/except first
    if "if msg.get_text() != self.ecdsa_curve.key_format_identifier:" not in esrc:
        _need(esrc, "sig_algorithm = msg.get_text()", "ECDSAKey.verify_ssh_sig")
        _need(esrc, "if sig_algorithm != self.ecdsa_curve.key_format_identifier:", "ECDSAKey.verify_ssh_sig")
    _need(esrc, "ec.ECDSA(self.ecdsa_curve.hash_object())", "ECDSAKey.verify_ssh_sig")
    _need(inspect.getsource(E.__init__), 'suffix = "%s"' % CERT, "ECDSAKey.__init__")
    _need(inspect.getsource(E.__init__), '"{}%s".format(x) for x in key_types' % CERT, "ECDSAKey.__init__")

    # ---- key type names checked when a key blob is loaded -------------------
    _need(inspect.getsource(R.__init__), "key_type=self.name,", "RSAKey.__init__")
    _need(inspect.getsource(R.__init__), 'cert_type="%s%s",' % (R.name, CERT), "RSAKey.__init__")
    _need(inspect.getsource(D.__init__), "key_type=self.name,", "Ed25519Key.__init__")
    _need(inspect.getsource(D.__init__), 'cert_type="%s%s",' % (D.name, CERT), "Ed25519Key.__init__")
    dsrc = inspect.getsource(D.verify_ssh_sig)
    if "if msg.get_text() != self.name:" not in dsrc:
        _need(dsrc, "sig_algorithm = msg.get_text()", "Ed25519Key.verify_ssh_sig")
        _need(dsrc, "if sig_algorithm != self.name:", "Ed25519Key.verify_ssh_sig")

    # ---- the cert suffix literal in the anchored functions -------------------
    _need(inspect.getsource(T.preferred_keys.fget), '"{}%s".format(x) for x in filtered' % CERT,
          "Transport.preferred_keys")
    _need(inspect.getsource(auth.AuthHandler._generate_key_from_request),
          'algorithm.replace("%s", "") not in options' % CERT, "AuthHandler._generate_key_from_request")
    _need(inspect.getsource(R.sign_ssh_data), 'algorithm.replace("%s", "")' % CERT, "RSAKey.sign_ssh_data")

    # ---- Transport._verify_key: the algorithm comparison and the signature check are unconditional ----
    # (top-level statements of the function: not nested under an if / else / try, no early return)
    import ast
    import textwrap
    fn = ast.parse(textwrap.dedent(inspect.getsource(T._verify_key))).body[0]
    top = fn.body
    cmp_at = [i for i, st in enumerate(top) if isinstance(st, ast.If) and not st.orelse
              and "get_binary()" in ast.unparse(st.test) and "expected" in ast.unparse(st.test)
              and isinstance(st.body[-1], ast.Raise)]
    ver_at = [i for i, st in enumerate(top) if isinstance(st, ast.If) and not st.orelse
              and "verify_ssh_sig(self.H" in ast.unparse(st.test) and isinstance(st.body[-1], ast.Raise)]
    exp_at = [i for i, st in enumerate(top) if isinstance(st, ast.Assign)
              and ast.unparse(st) == "expected = self.host_key_type.replace('%s', '')" % CERT]
    if len(cmp_at) != 1 or len(ver_at) != 1 or len(exp_at) != 1 or not exp_at[0] < cmp_at[0] < ver_at[0]:
        raise RuntimeError("Transport._verify_key: the signature-algorithm comparison / verify_ssh_sig check is "
                           "not an unconditional top-level statement (the model applies both to every call)")
    for st in top[:ver_at[0]]:
        if any(isinstance(n, ast.Return) for n in ast.walk(st)):
            raise RuntimeError("Transport._verify_key returns before the signature checks")
    src_all = ast.unparse(fn)
    if src_all.count("verify_ssh_sig") != 1 or "self.host_key is not None" in src_all:
        raise RuntimeError("Transport._verify_key consults state the model does not describe")

    for attr in ("_preferred_keys", "_preferred_pubkeys"):
        if not isinstance(getattr(T, attr), tuple):
            raise TypeError("Transport.%s is not a tuple" % attr)

    out = ["(* GENERATED by gen/c07.py from the live paramiko classes - do not edit *)",
           "From Coq Require Import ZArith List.", "Import ListNotations.", "Open Scope Z_scope.", "",
           "Definition c07_cert_suffix : list Z := %s.\n" % _lit(CERT),
           "Definition c07_rsa_hashes : list (list Z * Z) :=\n  %s.\n" % _table(rsa_hashes),
           "Definition c07_key_info : list (list Z * Z) :=\n  %s.\n" % _table(key_info),
           "Definition c07_ecdsa_curves : list (list Z * Z) :=\n  %s.\n" % _table(curves),
           "Definition c07_rsa_name : list Z := %s.\n" % _lit(R.name),
           "Definition c07_ed_name : list Z := %s.\n" % _lit(D.name),
           "Definition c07_pref_keys : list (list Z) :=\n  %s.\n" % _names(T._preferred_keys),
           "Definition c07_pref_pubkeys : list (list Z) :=\n  %s.\n" % _names(T._preferred_pubkeys)]
    return {"C07_gen.v": "\n".join(out)}
