(* C30 - lemmas.  Statements of the property theorems are in Props/C30_props.v. *)
From Coq Require Import ZArith List Bool Lia ZifyBool.
From PV Require Import Bytes C30_gen C30.
Import ListNotations.
Open Scope Z_scope.

(* ====================================================================== *)
(* Part 1: server                                                         *)

Ltac brk :=
  match goal with
  | |- context [match ?x with _ => _ end] =>
      lazymatch x with
      | context [match _ with _ => _ end] => fail
      | _ => destruct x eqn:?
      end
  end.

Lemma kind_sound t :
  match kind_of t with
  | KUnnamed | KUnhandled => True
  | KOpen => t = g_CMD_OPEN | KClose => t = g_CMD_CLOSE | KRead => t = g_CMD_READ
  | KWrite => t = g_CMD_WRITE | KRemove => t = g_CMD_REMOVE | KRename => t = g_CMD_RENAME
  | KMkdir => t = g_CMD_MKDIR | KRmdir => t = g_CMD_RMDIR | KOpendir => t = g_CMD_OPENDIR
  | KReaddir => t = g_CMD_READDIR | KStat => t = g_CMD_STAT | KLstat => t = g_CMD_LSTAT
  | KFstat => t = g_CMD_FSTAT | KSetstat => t = g_CMD_SETSTAT | KFsetstat => t = g_CMD_FSETSTAT
  | KReadlink => t = g_CMD_READLINK | KSymlink => t = g_CMD_SYMLINK | KRealpath => t = g_CMD_REALPATH
  | KExtended => t = g_CMD_EXTENDED
  end.
Proof.
  unfold kind_of.
  repeat (match goal with
          | |- context [if ?b then _ else _] =>
              lazymatch b with
              | context [if _ then _ else _] => fail
              | _ => destruct b eqn:?
              end
          end; cbv beta iota);
    try exact I; apply Z.eqb_eq; assumption.
Qed.

Definition one_valid (q : req) (l : list resp) : Prop :=
  exists r, l = [r] /\ r_id r = q_id q /\ valid_for (q_t q) (r_type r) = true.

Ltac finish_one H :=
  cbn [snd fst]; eexists; split; [reflexivity | split; [reflexivity | ]];
  first [ reflexivity | rewrite H; reflexivity ].

(* every exit path of _check_file sends exactly one packet (STATUS or EXTENDED_REPLY, with the
   request id) and returns, or raises before sending anything *)
Definition one_or_raise (id : Z) (o : out) : Prop :=
  o = Exc [] \/ exists rt d, o = Done [(rt, id, d)] /\ (rt = g_CMD_STATUS \/ rt = g_CMD_EXTENDED_REPLY).

Lemma send_status_shape id k : one_or_raise id (send_status id k).
Proof.
  unfold send_status, one_or_raise, status. destruct ((0 <=? k) && (k <? 4294967296)); [right | left; reflexivity].
  exists g_CMD_STATUS, k. split; [reflexivity | left; reflexivity].
Qed.

Lemma cf_loop_shape id lim reads : forall offset, one_or_raise id (cf_loop id lim offset reads).
Proof.
  induction reads as [|r rest IH]; intros offset; cbn [cf_loop].
  - destruct (lim <=? offset); right; exists g_CMD_EXTENDED_REPLY, 0; split; auto.
  - destruct (lim <=? offset); [right; exists g_CMD_EXTENDED_REPLY, 0; split; auto|].
    destruct r as [n | n | k | |].
    + destruct (n <=? 0); [right; exists g_CMD_EXTENDED_REPLY, 0; split; auto | apply IH].
    + right. exists g_CMD_STATUS, n. split; [reflexivity | left; reflexivity].
    + apply send_status_shape.
    + left. reflexivity.
    + left. reflexivity.
Qed.

Lemma check_file_shape s id h a : one_or_raise id (check_file s id h a).
Proof.
  unfold check_file.
  destruct (negb (cf_list_ok a)); [left; reflexivity|].
  destruct (negb (memz h (s_files s))).
  { right. exists g_CMD_STATUS, g_SFTP_BAD_MESSAGE. split; [reflexivity | left; reflexivity]. }
  destruct (negb (cf_alg_ok a)); [apply send_status_shape|].
  assert (A : forall length,
             one_or_raise id
               (if (if cf_block a =? 0 then length else cf_block a) <? g_CF_MIN_BLOCK then send_status id g_SFTP_FAILURE
                else cf_loop id (cf_start a + length) (cf_start a) (cf_reads a))).
  { intros length. destruct ((if cf_block a =? 0 then length else cf_block a) <? g_CF_MIN_BLOCK);
      [apply send_status_shape | apply cf_loop_shape]. }
  destruct (cf_length a =? 0); [|apply A].
  destruct (cf_stat a) as [k | | | n | n | |]; unfold send_status_desc_cb; try (left; reflexivity).
  - apply send_status_shape.
  - apply A.
  - right. exists g_CMD_STATUS, n. split; [reflexivity | left; reflexivity].
Qed.

Lemma server_once s q : one_valid q (snd (serve s q)).
Proof.
  unfold one_valid, serve, process.
  pose proof (kind_sound (q_t q)) as H.
  destruct (kind_of (q_t q)) eqn:K; cbv beta iota in H.
  21: { unfold send_status; repeat brk; finish_one H. }
  20: { (* extended *)
    destruct (negb (q_text_ok q)) eqn:?; [finish_one H|].
    destruct (q_tag q =? 0) eqn:?.
    - destruct (check_file_shape s (q_id q) (q_h q) (q_cf q)) as [E | [rt [d [E [R | R]]]]];
        rewrite E; subst; finish_one H.
    - unfold send_status_cb, send_status; repeat brk; finish_one H. }
  all: unfold attrs_or_status, invalid_handle, send_status_cb, send_status; repeat brk; finish_one H.
Qed.

Lemma server_stream qs : forall s, Forall2 one_valid qs (serve_all s qs).
Proof.
  induction qs as [|q r IH]; intros s; cbn [serve_all]; [constructor|].
  pose proof (server_once s q) as H1.
  destruct (serve s q) as [s' l] eqn:E. cbn [snd] in H1.
  constructor; [assumption | apply IH].
Qed.

Lemma stream_ids_aux qs ls :
  Forall2 one_valid qs ls ->
  length ls = length qs /\ map (fun l => map r_id l) ls = map (fun q => [q_id q]) qs.
Proof.
  intros H. induction H as [|q l qs' ls' [r [E [I _]]] _ IH]; [split; reflexivity|].
  destruct IH as [L M]. subst l. cbn [length map]. rewrite I, L, M. split; reflexivity.
Qed.

Lemma server_stream_ids qs s :
  length (serve_all s qs) = length qs /\
  map (fun l => map r_id l) (serve_all s qs) = map (fun q => [q_id q]) qs.
Proof. apply stream_ids_aux, server_stream. Qed.

(* failures are STATUS packets with a non-zero code *)
Lemma invalid_handle_status s q :
  handle_kind (kind_of (q_t q)) = true ->
  memz (q_h q) (s_files s) = false -> lookup (q_h q) (s_folders s) = None ->
  serve s q = (s, [status (q_id q) g_SFTP_BAD_MESSAGE]).
Proof.
  intros HK HF HD. unfold serve, process.
  destruct (kind_of (q_t q)); try discriminate HK; rewrite ?HF, ?HD; reflexivity.
Qed.

Lemma unnamed_status s q :
  kind_of (q_t q) = KUnnamed -> serve s q = (s, [status (q_id q) g_SFTP_FAILURE]).
Proof. intros K. unfold serve, process. rewrite K. reflexivity. Qed.

Lemma unhandled_status s q :
  kind_of (q_t q) = KUnhandled -> serve s q = (s, [status (q_id q) g_SFTP_OP_UNSUPPORTED]).
Proof. intros K. unfold serve, process. rewrite K. reflexivity. Qed.

Lemma unknown_extended_status s q :
  kind_of (q_t q) = KExtended -> q_text_ok q = true -> q_tag q <> 0 -> q_tag q <> 1 ->
  serve s q = (s, [status (q_id q) g_SFTP_OP_UNSUPPORTED]).
Proof.
  intros K T H0 H1. unfold serve, process. rewrite K, T. cbn [negb].
  destruct (q_tag q =? 0) eqn:E0; [lia|]. destruct (q_tag q =? 1) eqn:E1; [lia|]. reflexivity.
Qed.

(* every packet type outside CMD_NAMES is KUnnamed; named but unhandled types are KUnhandled *)
Lemma kind_unnamed t : memz t g_cmd_names = false -> kind_of t = KUnnamed.
Proof. intros H. unfold kind_of. rewrite H. reflexivity. Qed.

(* a callback's error code is what the client is told *)
Lemma callback_code_forwarded s q k :
  In (kind_of (q_t q)) [KRemove; KRename; KMkdir; KRmdir; KSetstat; KSymlink; KStat; KLstat; KReadlink; KOpen; KOpendir] ->
  q_text_ok q = true -> q_cb q = CbCode k -> 0 <= k < 4294967296 ->
  serve s q = (s, [status (q_id q) k]).
Proof.
  intros HK T C R. unfold serve, process. rewrite T, C. cbn [negb].
  assert (E : ((0 <=? k) && (k <? 4294967296)) = true) by lia.
  cbn [In] in HK.
  destruct (kind_of (q_t q)); unfold attrs_or_status, send_status_cb, send_status; rewrite ?E;
    try reflexivity; exfalso; repeat (destruct HK as [HK | HK]; [discriminate HK|]); exact HK.
Qed.

(* ====================================================================== *)
(* Part 2: client                                                         *)

Lemma memz_In h l : memz h l = true <-> In h l.
Proof.
  unfold memz. rewrite existsb_exists. split.
  - intros [x [Hx E]]. apply Z.eqb_eq in E. subst. assumption.
  - intros H. exists h. split; [assumption | apply Z.eqb_refl].
Qed.

Lemma memz_nIn h l : memz h l = false <-> ~ In h l.
Proof. rewrite <- memz_In. destruct (memz h l); split; intros; congruence. Qed.

Lemma remove_z_In x h l : In x (remove_z h l) <-> In x l /\ x <> h.
Proof. unfold remove_z. rewrite filter_In, negb_true_iff, Z.eqb_neq. tauto. Qed.

(* _read_response keeps "every expected reply is still unread", and only shrinks both lists *)
Lemma rr_inv w inp : forall exp r i e,
  incl exp (map p_num inp) -> read_response w inp exp = (r, i, e) ->
  incl e (map p_num i) /\ incl e exp /\ incl (map p_num i) (map p_num inp).
Proof.
  induction inp as [|[[t num] code] rest IH]; intros exp r i e Hinc Heq; cbn [read_response] in Heq.
  - inversion Heq; subst. repeat split; auto using incl_refl.
  - cbn [map p_num fst snd] in *. fold p_num in *.
    destruct (memz num exp) eqn:M; cbn [negb] in Heq.
    + (* expected *)
      assert (Hinc' : incl (remove_z num exp) (map p_num rest)).
      { intros x Hx. apply remove_z_In in Hx as [Hx Hne]. apply Hinc in Hx. cbn in Hx.
        destruct Hx as [Hx | Hx]; [congruence | assumption]. }
      assert (Hsub : incl (remove_z num exp) exp).
      { intros x Hx. apply remove_z_In in Hx. tauto. }
      destruct w as [w|].
      * destruct (num =? w) eqn:Ew.
        -- assert (i = rest /\ e = remove_z num exp) as [-> ->].
           { destruct (t =? g_CMD_STATUS); [destruct (convert_status code)|]; inversion Heq; auto. }
           repeat split; auto. apply incl_tl, incl_refl.
        -- specialize (IH _ _ _ _ Hinc' Heq) as [A [B C]].
           repeat split; auto.
           ++ eapply incl_tran; eauto.
           ++ apply incl_tl. assumption.
      * inversion Heq; subst. repeat split; auto. apply incl_tl, incl_refl.
    + (* unexpected response *)
      assert (Hinc' : incl exp (map p_num rest)).
      { intros x Hx. pose proof (Hinc x Hx) as H. cbn in H. destruct H as [H | H]; [|assumption].
        subst. apply memz_nIn in M. contradiction. }
      destruct w as [w|].
      * specialize (IH _ _ _ _ Hinc' Heq) as [A [B C]]. repeat split; auto. apply incl_tl. assumption.
      * inversion Heq; subst. repeat split; auto using incl_refl. apply incl_tl, incl_refl.
Qed.

(* waiting for a request that is expected and whose reply is unread ends *)
Lemma rr_found w inp : forall exp r i e,
  In w exp -> In w (map p_num inp) -> read_response (Some w) inp exp = (r, i, e) -> r <> RBlocked.
Proof.
  induction inp as [|[[t num] code] rest IH]; intros exp r i e Hexp Hin Heq; cbn [read_response] in Heq.
  - destruct Hin.
  - cbn [map p_num fst snd] in Hin. fold p_num in Hin.
    destruct (memz num exp) eqn:M; cbn [negb] in Heq.
    + destruct (num =? w) eqn:Ew.
      * destruct (t =? g_CMD_STATUS); [destruct (convert_status code)|]; inversion Heq; discriminate.
      * apply Z.eqb_neq in Ew. eapply IH; [| |exact Heq].
        -- apply remove_z_In. split; [assumption | congruence].
        -- destruct Hin as [Hin | Hin]; [congruence | assumption].
    + apply memz_nIn in M. eapply IH; [exact Hexp | | exact Heq].
      destruct Hin as [Hin | Hin]; [subst; contradiction | assumption].
Qed.

(* a single check never waits when something is unread *)
Lemma rr_none_nonempty inp exp r i e :
  inp <> [] -> read_response None inp exp = (r, i, e) -> r = RNone.
Proof.
  destruct inp as [|[[t num] code] rest]; [congruence|]. intros _ Heq. cbn [read_response] in Heq.
  destruct (negb (memz num exp)); inversion Heq; reflexivity.
Qed.

Lemma async_inv c rp : inv c -> inv (fst (async_request c rp)).
Proof.
  unfold inv, async_request. cbn [fst c_exp c_in]. intros H x Hx.
  rewrite map_app. apply in_or_app. cbn in Hx. destruct Hx as [Hx | Hx].
  - right. cbn. left. exact Hx.
  - left. apply H. exact Hx.
Qed.

Lemma request_ok c rp r t code c' :
  inv c -> request c rp = (r, t, code, c') -> r <> OBlocked /\ inv c'.
Proof.
  intros Hinv Heq. unfold request in Heq.
  pose proof (async_inv c rp Hinv) as H1.
  destruct (async_request c rp) as [c1 n] eqn:Ea. cbn [fst] in H1.
  assert (Hn : In n (c_exp c1) /\ In n (map p_num (c_in c1))).
  { unfold async_request in Ea. inversion Ea; subst. cbn [c_exp c_in]. split; [left; reflexivity|].
    rewrite map_app. apply in_or_app. right. left. reflexivity. }
  destruct (read_response (Some n) (c_in c1) (c_exp c1)) as [[r0 i] e] eqn:Er.
  pose proof (rr_found _ _ _ _ _ _ (proj1 Hn) (proj2 Hn) Er) as Hnb.
  pose proof (rr_inv _ _ _ _ _ _ H1 Er) as [A _].
  destruct r0; inversion Heq; subst; split; try discriminate; try exact A. congruence.
Qed.

Lemma drain_ok reqs : forall c r reqs' c',
  inv c -> drain true reqs c = (r, reqs', c') -> r <> OBlocked /\ inv c'.
Proof.
  induction reqs as [|q rest IH]; intros c r reqs' c' Hinv Heq; cbn [drain] in Heq.
  - inversion Heq; subst. split; [discriminate | assumption].
  - cbn [andb] in Heq. destruct (negb (memz q (c_exp c))) eqn:M.
    + eapply IH; eauto.
    + apply negb_false_iff, memz_In in M.
      destruct (read_response (Some q) (c_in c) (c_exp c)) as [[r0 i] e] eqn:Er.
      pose proof (rr_found _ _ _ _ _ _ M (Hinv _ M) Er) as Hnb.
      pose proof (rr_inv _ _ _ _ _ _ Hinv Er) as [A _].
      destruct r0.
      * destruct (t =? g_CMD_STATUS).
        -- eapply IH; [|exact Heq]. exact A.
        -- inversion Heq; subst. split; [discriminate | exact A].
      * inversion Heq; subst. split; [discriminate | exact A].
      * inversion Heq; subst. split; [discriminate | exact A].
      * congruence.
Qed.

Lemma write_ok ready rp f c r f' c' :
  inv c -> write_op true ready rp f c = (r, f', c') -> r <> OBlocked /\ inv c'.
Proof.
  intros Hinv Heq. unfold write_op in Heq.
  pose proof (async_inv c rp Hinv) as H1.
  destruct (async_request c rp) as [c1 n]. cbn [fst] in H1.
  destruct (negb (f_pipe f) || ((g_DRAIN_THRESHOLD <? Z.of_nat (length (f_reqs f ++ [n]))) && ready)).
  - destruct (drain true (f_reqs f ++ [n]) c1) as [[r0 q0] c2] eqn:Ed.
    inversion Heq; subst. eapply drain_ok; eauto.
  - inversion Heq; subst. split; [discriminate | assumption].
Qed.

Lemma flush_ok pend : forall f c r f' c',
  inv c -> flush_ops true pend f c = (r, f', c') -> r <> OBlocked /\ inv c'.
Proof.
  induction pend as [|[ready rp] rest IH]; intros f c r f' c' Hinv Heq; cbn [flush_ops] in Heq.
  - inversion Heq; subst. split; [discriminate | assumption].
  - destruct (write_op true ready rp f c) as [[r0 f1] c1] eqn:Ew.
    pose proof (write_ok _ _ _ _ _ _ _ Hinv Ew) as [Hnb Hi].
    destruct r0.
    + eapply IH; eauto.
    + inversion Heq; subst. split; [discriminate | assumption].
    + congruence.
Qed.

Lemma close_ok pend rp f c r f' c' :
  inv c -> close_op true pend rp f c = (r, f', c') -> r <> OBlocked /\ inv c'.
Proof.
  intros Hinv Heq. unfold close_op in Heq.
  destruct (f_closed f).
  - inversion Heq; subst. split; [discriminate | assumption].
  - destruct (flush_ops true pend f c) as [[r0 f1] c1] eqn:Ef.
    pose proof (flush_ok _ _ _ _ _ _ Hinv Ef) as [Hnb Hi].
    destruct r0.
    + destruct (request c1 rp) as [[[r1 t1] k1] c2] eqn:Eq.
      pose proof (request_ok _ _ _ _ _ _ Hi Eq) as [Hnb2 Hi2].
      destruct r1 as [|x|]; [| destruct x |]; inversion Heq; subst; split; try discriminate; try assumption; try congruence.
    + inversion Heq; subst. split; [discriminate | assumption].
    + congruence.
Qed.

Lemma step_ok o f c r f' c' :
  inv c -> step true o f c = (r, f', c') -> r <> OBlocked /\ inv c'.
Proof.
  intros Hinv Heq. destruct o as [ready rp | rp | b | pend rp]; cbn [step] in Heq.
  - destruct (f_closed f).
    + inversion Heq; subst. split; [discriminate | assumption].
    + eapply write_ok; eauto.
  - destruct (request c rp) as [[[r1 t1] k1] c1] eqn:Eq.
    pose proof (request_ok _ _ _ _ _ _ Hinv Eq) as [A B]. inversion Heq; subst. split; assumption.
  - inversion Heq; subst. split; [discriminate | assumption].
  - eapply close_ok; eauto.
Qed.

Lemma run_never_blocks prog : forall f c, inv c -> ~ In OBlocked (run true prog f c).
Proof.
  induction prog as [|o rest IH]; intros f c Hinv; cbn [run]; [intros []|].
  destruct (step true o f c) as [[r f1] c1] eqn:Es.
  pose proof (step_ok _ _ _ _ _ _ Hinv Es) as [Hnb Hi].
  destruct r; try congruence; intros [H | H]; try discriminate H; eapply IH; eauto.
Qed.

Lemma inv_init : inv c_init.
Proof. unfold inv, c_init. cbn. apply incl_refl. Qed.

Lemma client_terminates prog : ~ In OBlocked (run true prog f_init c_init).
Proof. apply run_never_blocks, inv_init. Qed.

Lemma run_length prog : forall f c, ~ In OBlocked (run true prog f c) -> length (run true prog f c) = length prog.
Proof.
  induction prog as [|o rest IH]; intros f c H; cbn [run] in *; [reflexivity|].
  destruct (step true o f c) as [[r f1] c1].
  destruct r; cbn [length]; try (f_equal; apply IH; intros X; apply H; right; exact X).
  exfalso. apply H. left. reflexivity.
Qed.

(* the loop as it was (no skip): 60 pipelined writes, one synchronous request, 41 more writes with
   data ready to read: the drain waits for the reply to write 1, which the stat already consumed *)
Definition ok_status : reply := (g_CMD_STATUS, g_SFTP_OK).
Definition hang_prog : list op :=
  OSetPipe true :: repeat (OWrite false ok_status) 60 ++ OSync (g_CMD_ATTRS, 0) :: repeat (OWrite true ok_status) 41.

Lemma v0_blocks : In OBlocked (run false hang_prog f_init c_init).
Proof. vm_compute. repeat (first [left; reflexivity | right]). Qed.

Lemma v1_hang_prog_returns : run true hang_prog f_init c_init = repeat ORet 103.
Proof. vm_compute. reflexivity. Qed.

(* ---- C29 facts that live at this level ------------------------------------------------ *)

(* a pipelined write is rejected by the server; close() (and everything before it) returns normally *)
Definition rejected_prog (code : Z) : list op :=
  [OSetPipe true; OWrite false (g_CMD_STATUS, code); OClose [] ok_status].

Lemma rejected_pipelined_write_is_silent :
  forall code, run true (rejected_prog code) f_init c_init = [ORet; ORet; ORet].
Proof. intros code. reflexivity. Qed.

(* ... also when the rejected write is the buffered tail flushed by close() itself *)
Lemma rejected_flush_write_is_silent :
  forall code, run true [OSetPipe true; OClose [(false, (g_CMD_STATUS, code))] ok_status] f_init c_init = [ORet; ORet].
Proof. intros code. reflexivity. Qed.

(* non-pipelined files: every write is answered before _write returns *)
Definition nonpipe_state (f : fst_) (c : cst) : Prop :=
  f_pipe f = false /\ f_reqs f = [] /\ f_closed f = false /\ inv c /\
  (forall n, In n (map p_num (c_in c)) -> n < c_no c).

Lemma nonpipe_init : nonpipe_state f_init c_init.
Proof. unfold nonpipe_state, inv. cbn. repeat split; auto using incl_refl. intros n []. Qed.

Definition status_result (t code : Z) : rr :=
  if t =? g_CMD_STATUS then
    match convert_status code with Some e => RRaise e | None => RFound t code end
  else RFound t code.

Lemma rr_last n t code pre : forall exp,
  In n exp -> ~ In n (map p_num pre) ->
  exists e, read_response (Some n) (pre ++ [(t, n, code)]) exp = (status_result t code, [], e).
Proof.
  induction pre as [|[[t0 m] k] rest IH]; intros exp Hin Hnot.
  - cbn [app read_response]. apply memz_In in Hin. rewrite Hin. cbn [negb]. rewrite Z.eqb_refl.
    unfold status_result. destruct (t =? g_CMD_STATUS); [destruct (convert_status code)|]; eexists; reflexivity.
  - cbn [map p_num fst snd] in Hnot. fold p_num in Hnot.
    assert (Hm : m <> n) by (intros ->; apply Hnot; left; reflexivity).
    assert (Hr : ~ In n (map p_num rest)) by (intros X; apply Hnot; right; exact X).
    cbn [app read_response]. destruct (memz m exp) eqn:M; cbn [negb].
    + apply Z.eqb_neq in Hm. rewrite Hm. apply IH; [|exact Hr].
      apply remove_z_In. split; [assumption | apply Z.eqb_neq in Hm; congruence].
    + apply IH; assumption.
Qed.

Lemma nonpipe_write f c ready t code :
  nonpipe_state f c ->
  exists f' c',
    write_op true ready (t, code) f c =
      (match status_result t code with
       | RRaise e => ORaise e
       | RFound t' _ => if t' =? g_CMD_STATUS then ORet else ORaise SFTPErr
       | _ => ORaise SFTPErr
       end, f', c') /\
    f_pipe f' = false /\ f_reqs f' = [] /\ f_closed f' = false.
Proof.
  intros [Hp [Hr [Hc [Hinv Hfresh]]]]. unfold write_op, async_request. rewrite Hp, Hr.
  cbn [negb orb app fst snd c_no c_exp c_in drain andb].
  assert (M : memz (c_no c) (c_no c :: c_exp c) = true) by (apply memz_In; left; reflexivity).
  rewrite M. cbn [negb].
  destruct (rr_last (c_no c) t code (c_in c) (c_no c :: c_exp c)) as [e He].
  { left. reflexivity. }
  { intros X. apply Hfresh in X. lia. }
  rewrite He. unfold status_result.
  destruct (t =? g_CMD_STATUS) eqn:Et.
  - destruct (convert_status code).
    + do 2 eexists. split; [reflexivity|]. rewrite Hc. auto.
    + rewrite Et. cbn [drain]. do 2 eexists. split; [reflexivity|]. rewrite Hc. auto.
  - rewrite Et. do 2 eexists. split; [reflexivity|]. rewrite Hc. auto.
Qed.

(* the headline: a rejected non-pipelined write raises from that very write() call *)
Lemma nonpipe_rejected_write_raises f c ready code :
  nonpipe_state f c -> code <> g_SFTP_OK ->
  exists e f' c', write_op true ready (g_CMD_STATUS, code) f c = (ORaise e, f', c').
Proof.
  intros Hs Hcode. destruct (nonpipe_write f c ready g_CMD_STATUS code Hs) as [f' [c' [E _]]].
  unfold status_result in E. rewrite Z.eqb_refl in E. unfold convert_status in E.
  destruct (code =? g_SFTP_OK) eqn:E0; [apply Z.eqb_eq in E0; contradiction|].
  destruct (code =? g_SFTP_EOF); do 3 eexists; exact E.
Qed.

(* nonpipe_state is kept by writes and synchronous requests (so it holds whenever the application
   has not called set_pipelined(True)) *)
Lemma fresh_async c rp :
  (forall n, In n (map p_num (c_in c)) -> n < c_no c) ->
  forall n, In n (map p_num (c_in (fst (async_request c rp)))) -> n < c_no (fst (async_request c rp)).
Proof.
  intros H n. unfold async_request. cbn [fst c_in c_no]. rewrite map_app. intros X.
  apply in_app_or in X as [X | X]; [apply H in X; lia|]. cbn in X. destruct X as [X | []]. lia.
Qed.

Lemma nonpipe_step_write f c ready rp r f' c' :
  nonpipe_state f c -> write_op true ready rp f c = (r, f', c') -> nonpipe_state f' c'.
Proof.
  intros Hs Heq. destruct rp as [t code].
  destruct (nonpipe_write f c ready t code Hs) as [f1 [c1 [E [A [B C]]]]].
  rewrite E in Heq. inversion Heq; subst f1 c1. clear Heq.
  destruct Hs as [Hp [Hr [Hc [Hinv Hfresh]]]].
  pose proof (write_ok _ _ _ _ _ _ _ Hinv E) as [_ Hi].
  repeat split; auto.
  (* freshness: unread packets only shrink *)
  unfold write_op in E. pose proof (fresh_async c (t, code) Hfresh) as Hf1.
  destruct (async_request c (t, code)) as [c0 n] eqn:Ea. cbn [fst] in Hf1.
  rewrite Hp, Hr in E. cbn [negb orb app drain] in E.
  assert (M : memz n (c_exp c0) = true).
  { unfold async_request in Ea. inversion Ea; subst. apply memz_In. left. reflexivity. }
  rewrite M in E. cbn [negb andb] in E.
  destruct (read_response (Some n) (c_in c0) (c_exp c0)) as [[r0 i] e] eqn:Er.
  assert (Hi0 : inv c0).
  { pose proof (async_inv c (t, code) Hinv) as X. rewrite Ea in X. exact X. }
  pose proof (rr_inv _ _ _ _ _ _ Hi0 Er) as [_ [_ Hsub]].
  assert (Hres : c_in c' = i /\ c_no c' = c_no c0).
  { destruct r0; [destruct (t0 =? g_CMD_STATUS)|..]; cbn [drain] in E; inversion E; subst; cbn; auto. }
  destruct Hres as [-> ->]. intros m Hm. apply Hf1, Hsub, Hm.
Qed.

(* ---- request numbers are fresh: a reply is never confused with an older packet ------------- *)
Definition wf (c : cst) : Prop :=
  inv c /\ (forall n, In n (map p_num (c_in c)) -> n < c_no c).

Lemma wf_init : wf c_init.
Proof. split; [apply inv_init | intros n []]. Qed.

Lemma async_wf c rp : wf c -> wf (fst (async_request c rp)).
Proof. intros [A B]. split; [apply async_inv, A | apply fresh_async, B]. Qed.

Lemma rr_wf w no inp exp r i e :
  wf (mkC no exp inp) -> read_response w inp exp = (r, i, e) -> wf (mkC no e i).
Proof.
  intros [A B] H. unfold inv in A. cbn [c_exp c_in c_no] in *.
  pose proof (rr_inv _ _ _ _ _ _ A H) as [X [_ Z]].
  split; [exact X | intros n Hn; apply B, Z, Hn].
Qed.

Lemma request_wf c rp r t k c' : wf c -> request c rp = (r, t, k, c') -> wf c'.
Proof.
  intros Hw H. unfold request in H. pose proof (async_wf c rp Hw) as H1.
  destruct (async_request c rp) as [c1 n]. cbn [fst] in H1. destruct c1 as [no ex inp].
  cbn [c_in c_exp c_no] in H.
  destruct (read_response (Some n) inp ex) as [[r0 i] e] eqn:Er.
  pose proof (rr_wf _ _ _ _ _ _ _ H1 Er) as W.
  destruct r0; inversion H; subst; exact W.
Qed.

(* the reply a synchronous request returns is the server's reply to that very request *)
Lemma request_spec c t k :
  wf c ->
  exists c', request c (t, k) =
    (match status_result t k with RRaise x => ORaise x | _ => ORet end,
     match status_result t k with RFound a _ => a | _ => 0 end,
     match status_result t k with RFound _ b => b | _ => 0 end, c').
Proof.
  intros [_ B]. unfold request, async_request. cbn [fst snd c_in c_exp c_no].
  destruct (rr_last (c_no c) t k (c_in c) (c_no c :: c_exp c)) as [e He].
  { left. reflexivity. }
  { intros X. apply B in X. lia. }
  rewrite He. unfold status_result.
  destruct (t =? g_CMD_STATUS); [destruct (convert_status k)|]; eexists; reflexivity.
Qed.

Lemma drain_wf skip reqs : forall c r reqs' c', wf c -> drain skip reqs c = (r, reqs', c') -> wf c'.
Proof.
  induction reqs as [|q rest IH]; intros c r reqs' c' Hw H; cbn [drain] in H.
  - inversion H; subst. exact Hw.
  - destruct (skip && negb (memz q (c_exp c))).
    + eapply IH; eauto.
    + destruct c as [no ex inp]. cbn [c_in c_exp c_no] in H.
      destruct (read_response (Some q) inp ex) as [[r0 i] e] eqn:Er.
      pose proof (rr_wf _ _ _ _ _ _ _ Hw Er) as W.
      destruct r0; [destruct (t =? g_CMD_STATUS)|..]; try (inversion H; subst; exact W).
      eapply IH; eauto.
Qed.

Lemma write_op_wf skip ready rp f c r f' c' : wf c -> write_op skip ready rp f c = (r, f', c') -> wf c'.
Proof.
  intros Hw H. unfold write_op in H. pose proof (async_wf c rp Hw) as H1.
  destruct (async_request c rp) as [c1 n]. cbn [fst] in H1.
  match type of H with context [if ?b then _ else _] => destruct b end.
  - destruct (drain skip (f_reqs f ++ [n]) c1) as [[r0 q0] c2] eqn:Ed. inversion H; subst.
    eapply drain_wf; eauto.
  - inversion H; subst. exact H1.
Qed.
