(* C20 -- channel flow control never deadlocks while the receiver keeps reading; every byte the peer
   sends, including discarded extended data, is credited back.  Statements only; proofs in
   Proofs/C20_proofs.v over Model/C19.v + Model/C20.v.

   `init2 W P dmp c`: both ends run paramiko, W = the receiver's in_window_size (what it advertised and the
   sender stored as out_window_size), P = the max packet size the receiver advertised (any value; the
   sender sanitizes it to >= 4096).  Every transport-sanitized window satisfies 32768 <= W (C19_sanitize);
   the theorems need only 1 <= W.  `ops` = any interleaving of critical sections of any number of
   sending / receiving threads, extended-data type codes arbitrary (`OSend (Some code) n`). *)
From PV Require Import Bytes C19_gen C19 C19_proofs C20 C20_proofs.
Open Scope Z_scope.

(* conservation of credit: the sender's window plus everything outstanding (in a sender's hand, in
   flight, buffered unread, counted in in_window_sofar, adjusts in hand / in flight) is always exactly W;
   no discarded byte is lost to the accounting *)
Theorem C20_every_byte_credited :
  forall W P dmp c ops,
    0 <= W -> Forall op_wf ops ->
    let s := run (init2 W P dmp c) ops in
    ow s + outstanding s = W /\ g_lost s = 0.
Proof. exact conservation. Qed.
Print Assumptions C20_every_byte_credited.

(* no deadlock: when nothing is in flight toward the receiver and the application has read everything,
   the sender's window is open or an adjust is on its way -- in fact at least W - W/10 bytes of
   credit are with the sender or in flight to it *)
Theorem C20_progress :
  forall W P dmp c ops,
    1 <= W -> Forall op_wf ops ->
    let s := run (init2 W P dmp c) ops in
    quiescent s ->
    W - W / 10 <= ow s + sum (awire s) /\ (0 < ow s \/ awire s <> []).
Proof. exact progress. Qed.
Print Assumptions C20_progress.

(* a send call on an open window (by a sender that has not sent EOF) accepts min(n, window, max_packet - 64) >= 1 bytes: pending strictly
   decreases *)
Theorem C20_send_decreases :
  forall W0 s k n,
    Inv W0 s -> eof s = false -> 0 < ow s -> 0 < n ->
    let '(s', r) := step s (OSend k n) in
    r = Z.min n (Z.min (ow s) (omp s - 64)) /\ 0 < r <= n /\ ow s' = ow s - r /\
    obox s' = obox s ++ [mk_msg k r] /\ g_res s' = g_res s + r.
Proof. exact send_decreases. Qed.
Print Assumptions C20_send_decreases.

(* termination: from any reachable state, once the environment has settled (transport delivers, the
   application reads both streams, adjusts are delivered), sendall / sendall_stderr of n bytes
   finishes within n send calls when the environment settles between calls: nothing is left pending,
   exactly n more bytes were put on the wire and exactly n more were consumed (or discarded and credited).
   `eof s0 = false`: the SENDER itself has not called shutdown_write; the receiver may have half-closed its
   own sending direction at any point (that is an op of the opposite direction and touches nothing here;
   the history `ops` may also contain set_combine_stderr calls, OCombine) *)
Theorem C20_transfer_completes :
  forall W P dmp c ops k n,
    1 <= W -> Forall op_wf ops -> 0 <= n ->
    let s0 := settle (run (init2 W P dmp c) ops) in
    eof s0 = false ->
    let '(s', p) := transfer (Z.to_nat n) k n s0 in
    p = 0 /\ settled s' /\ emitted s' = emitted s0 + n /\ g_cons s' + g_disc s' = g_cons s0 + g_disc s0 + n.
Proof. exact transfer_completes. Qed.
Print Assumptions C20_transfer_completes.

(* the repair is what the theorems above rest on: the source's discard branch credits the bytes *)
Theorem C20_discard_branch_credits : ext_discard_credits = true.
Proof. exact discard_credits. Qed.
Print Assumptions C20_discard_branch_credits.

(* non-vacuity: 9 discarded messages of type 3 (36000 bytes > the 32768 window); every byte comes back *)
Example C20_example :
  let ops := concat (repeat [OSend (Some 3) 4000; OEmit 0; ODeliver; OEmitAdj 0; ODeliverAdj] 9) in
  Forall op_wf ops /\
  let s := run (init2 32768 32768 32768 false) ops in
  quiescent s /\ (emitted s, g_disc s, g_grant s, ow s, sofar s) = (36000, 36000, 36000, 32768, 0).
Proof.
  split; [cbv [concat repeat app]; repeat (apply Forall_cons; [cbn; lia|]); apply Forall_nil|].
  vm_compute. repeat split; reflexivity.
Qed.
