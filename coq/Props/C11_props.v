(* C11 - key re-exchange is transparent to whatever traffic is in flight.
   Property statements only; every proof is `exact <lemma from Proofs/C11_proofs.v>`.
   The LTS is Model/C11.v; the reply discipline of every handler (disc_of, reply_types, keepalive_disc)
   and the shape facts come from Gen/C11_gen.v, regenerated from the source on every run.

   DESIRED (DESIGN.md section 7) and what the code as written gives:
     C11_only_kex_between   : forall keep evs, offenders false (out (run (init_st keep) evs)) = []
                              FALSE -> C11_only_kex_between_refuted (+ the two handlers, by name);
                              what does hold: C11_offenders_are_ungated_replies, C11_user_sends_gated.
     C11_no_self_deadlock   : forall keep evs, ttw (run (init_st keep) evs) = None
                              FALSE -> C11_no_self_deadlock_refuted (+ the four handlers and the keepalive tick);
                              what does hold: C11_tt_blocks_only_gated, C11_blocked_transport_never_released.
     C11_queued_delivered   : holds for every reachable state whose transport thread is not blocked. *)
From Coq Require Import ZArith List Bool.
From PV Require Import Bytes C11_gen C11 C11_proofs.
Import ListNotations.
Open Scope Z_scope.

(* every message >= 50 emitted between own KEXINIT and own NEWKEYS, under every interleaving of user
   threads, peer messages, thresholds, keepalive ticks and timeouts, is a reply built by a handler that
   the generated table marks Ungated *)
Theorem C11_offenders_are_ungated_replies :
  forall keep evs it, In it (offenders false (out (run (init_st keep) evs))) ->
    exists p, snd it = OReply p /\ disc_of p = Ungated /\ In (fst it) (reply_types p).
Proof. exact offenders_are_ungated_replies. Qed.
Print Assumptions C11_offenders_are_ungated_replies.

(* in particular user-thread sends (and keepalives, and kex messages) never are: the gate holds them *)
Theorem C11_user_sends_gated :
  forall keep evs it, In it (offenders false (out (run (init_st keep) evs))) ->
    snd it <> OUser /\ snd it <> OKeepalive /\ snd it <> OKex.
Proof. exact user_sends_gated. Qed.
Print Assumptions C11_user_sends_gated.

(* known finding 1: the desired theorem is false for the code as written *)
Theorem C11_only_kex_between_refuted :
  ~ (forall keep evs, offenders false (out (run (init_st keep) evs)) = []).
Proof. exact only_kex_between_refuted. Qed.
Print Assumptions C11_only_kex_between_refuted.

Theorem C11_global_request_reply_ungated :
  exists evs it, In it (offenders false (out (run (init_st false) evs))) /\
                 snd it = OReply MSG_GLOBAL_REQUEST /\ disc_of MSG_GLOBAL_REQUEST = Ungated.
Proof. exact only_kex_between_witness_global. Qed.
Print Assumptions C11_global_request_reply_ungated.

Theorem C11_channel_open_reply_ungated :
  exists evs it, In it (offenders false (out (run (init_st false) evs))) /\
                 snd it = OReply MSG_CHANNEL_OPEN /\ disc_of MSG_CHANNEL_OPEN = Ungated.
Proof. exact only_kex_between_witness_open. Qed.
Print Assumptions C11_channel_open_reply_ungated.

(* the transport thread waits on clear_to_send only inside a handler the table marks Gated (or in the
   keepalive tick), and only while the flag is clear *)
Theorem C11_tt_blocks_only_gated :
  forall keep evs its, ttw (run (init_st keep) evs) = Some its ->
    cts (run (init_st keep) evs) = false /\
    ((exists p, disc_of p = Gated /\ its = replies p) \/ (keepalive_disc = Gated /\ its = keepalive_msg)).
Proof. exact tt_blocks_only_gated. Qed.
Print Assumptions C11_tt_blocks_only_gated.

(* and then it is a self-deadlock: whatever happens next, nothing is emitted, the flag stays clear and the
   thread stays blocked (only the transport thread could set the flag); only the timeout ends it *)
Theorem C11_blocked_transport_never_released :
  forall keep evs0 its evs, let s := run (init_st keep) evs0 in
    ttw s = Some its ->
    out (run s evs) = out s /\ cts (run s evs) = false /\ ttw (run s evs) = Some its.
Proof. exact blocked_transport_never_released. Qed.
Print Assumptions C11_blocked_transport_never_released.

(* known finding 2: the desired theorem is false for the code as written *)
Theorem C11_no_self_deadlock_refuted :
  ~ (forall keep evs, ttw (run (init_st keep) evs) = None).
Proof. exact no_self_deadlock_refuted. Qed.
Print Assumptions C11_no_self_deadlock_refuted.

(* Channel._feed_extended (95), _handle_close (97), _handle_request (98), _request_failed (100) *)
Theorem C11_gated_handlers_block_transport_thread :
  forall p, In p gated_witnesses ->
    disc_of p = Gated /\ ttw (run (init_st false) [UserRekey; Recv p true]) = Some (replies p).
Proof. exact no_self_deadlock_witnesses. Qed.
Print Assumptions C11_gated_handlers_block_transport_thread.

Theorem C11_keepalive_blocks_transport_thread :
  keepalive_disc = Gated /\ ttw (run (init_st true) [UserRekey; KeepTick]) = Some keepalive_msg.
Proof. exact no_self_deadlock_witness_keepalive. Qed.
Print Assumptions C11_keepalive_blocks_transport_thread.

(* peer traffic whose handler does not reply (or does not take its reply path) is transparent: nothing
   illegal is emitted, the transport thread never waits, the session stays up - for every interleaving *)
Theorem C11_quiet_transparent :
  forall keep evs, forallb quiet evs = true ->
    let s := run (init_st keep) evs in
    offenders false (out s) = [] /\ ttw s = None /\ dead s = false.
Proof. exact quiet_transparent. Qed.
Print Assumptions C11_quiet_transparent.

(* which handlers those are in the working tree (finite sweep over the generated table) *)
Theorem C11_quiet_handlers : forall p, In p quiet_types -> disc_of p = NoReply.
Proof. exact quiet_handlers. Qed.
Print Assumptions C11_quiet_handlers.

(* ... and the recorded findings cover every handler that replies *)
Theorem C11_replying_handlers :
  forall p d l, In (p, (d, l)) handler_table -> d <> NoReply ->
    (d = Ungated /\ In p [80; 90]) \/ (d = Gated /\ In p gated_witnesses).
Proof. exact replying_handlers. Qed.
Print Assumptions C11_replying_handlers.

(* from every reachable state whose transport thread is not blocked: once the peer's half of the exchange
   arrives the flag is set again, every user send that was held at the gate is emitted, in order, after own
   NEWKEYS, none is lost, and no new offender appears *)
Theorem C11_queued_delivered :
  forall keep evs, let s := run (init_st keep) evs in
    dead s = false -> ttw s = None ->
    let s' := run s (complete (ph s) ++ repeat UserWake (length (uq s))) in
    ph s' = Idle /\ cts s' = true /\ uq s' = [] /\
    out s' = out s ++ kexpart (ph s) ++ map (fun t => (t, OUser)) (uq s) /\
    offenders false (out s') = offenders false (out s).
Proof. exact queued_delivered. Qed.
Print Assumptions C11_queued_delivered.

(* locks.  No public or internal Channel / Transport function reaches a send primitive while it holds
   self.lock (every critical section of both classes, from the AST) ... *)
Theorem C11_no_send_under_lock : locked_send_count = 0.
Proof. exact no_send_under_lock. Qed.
Print Assumptions C11_no_send_under_lock.

(* ... so, for every interleaving, no user thread parks at the gate with the lock and the transport thread
   never waits on a lock inside a handler *)
Theorem C11_tt_never_waits_on_lock :
  forall keep evs, ttl (run (init_st keep) evs) = false /\ lk (run (init_st keep) evs) = false.
Proof. exact tt_never_waits_on_lock. Qed.
Print Assumptions C11_tt_never_waits_on_lock.

(* what that fact protects against (the LTS with a locked gated send, step_gen true): a user thread does
   shutdown / close / send under the lock during own re-key, a crossing WINDOW_ADJUST (handler needs the lock,
   from the generated table) blocks the transport thread behind it, and from then on nothing is ever emitted
   and the flag is never set: the exchange stalls with only the KEXINIT sent *)
Theorem C11_locked_send_would_deadlock :
  let s := run_gen true true (init_st false) [UserRekey; UserSendLocked 96; Recv 93 false] in
  needs_lock 93 = true /\ ttl s = true /\ map fst (out s) = [20] /\
  forall evs, out (run_gen true true s evs) = out s /\ cts (run_gen true true s evs) = false.
Proof. exact locked_send_would_deadlock. Qed.
Print Assumptions C11_locked_send_would_deadlock.

(* the keepalive guard (Packetizer._check_keepalive, shape pinned by gen/c11.py): while need_rekey is set the
   tick does nothing, whatever the state - this is what keeps C11_keepalive_blocks_transport_thread from applying
   to exchanges started by the thresholds *)
Theorem C11_keepalive_guarded_while_need_rekey :
  keepalive_need_guard = true /\ forall s, need s = true -> step s KeepTick = s.
Proof. exact keepalive_guarded_while_need_rekey. Qed.
Print Assumptions C11_keepalive_guarded_while_need_rekey.

Theorem C11_threshold_rekey_ignores_keepalive :
  let with_ticks := [Threshold; TtIter; KeepTick; UserSend 94; KeepTick; Recv 20 false; KeepTick;
                     Recv 31 false; KeepTick; Recv 21 false; UserWake] in
  let without := [Threshold; TtIter; UserSend 94; Recv 20 false; Recv 31 false; Recv 21 false; UserWake] in
  run (init_st true) with_ticks = run (init_st true) without /\
  map fst (out (run (init_st true) with_ticks)) = [20; 30; 21; 94].
Proof. exact threshold_rekey_ignores_keepalive. Qed.
Print Assumptions C11_threshold_rekey_ignores_keepalive.

(* the NEWKEYS window.  `run` above is the LTS in which _parse_newkeys writes in_kex and sets clear_to_send in
   ONE clear_to_send_lock section and signals completion_event only afterwards (v1).  The working tree is that
   LTS exactly when the translator finds that shape (nk_atomic, generated): *)
Theorem C11_tree_is_v1 : nk_atomic = true -> forall s e, step_tree s e = step s e.
Proof. exact tree_is_v1. Qed.
Print Assumptions C11_tree_is_v1.

(* v0 (completion_event signalled first): a renegotiate_keys issued as soon as the previous call returned has
   its clear() undone by the transport thread's late clear_to_send.set(); a USER message follows the new
   KEXINIT.  C11_user_sends_gated is false for v0. *)
Theorem C11_newkeys_window_v0_refuted :
  let evs := [UserRekey; Recv 20 false; Recv 31 false; Recv 21 false; UserRekey; TtLate; UserSend 94] in
  In (94, OUser) (offenders false (out (run_gen false false (init_st false) evs))) /\
  map fst (out (run_gen false false (init_st false) evs)) = [20; 30; 21; 20; 94].
Proof. exact v0_user_send_after_kexinit. Qed.
Print Assumptions C11_newkeys_window_v0_refuted.

(* the same schedule in v1 (covered in general by C11_user_sends_gated / C11_queued_delivered) *)
Theorem C11_newkeys_window_v1_gated :
  let evs := [UserRekey; Recv 20 false; Recv 31 false; Recv 21 false; UserRekey; TtLate; UserSend 94;
              Recv 20 false; Recv 31 false; Recv 21 false; UserWake] in
  map fst (out (run (init_st false) evs)) = [20; 30; 21; 20; 30; 21; 94].
Proof. exact v1_same_schedule_gated. Qed.
Print Assumptions C11_newkeys_window_v1_gated.

(* the shape of the gate, of the flag's writers and of the callers of the ungated primitive, as found in
   the source by gen/c11.py (these justify the step function of the model) *)
Theorem C11_shape_facts :
  gate_waits = true /\ gate_releases_on_every_exit = true /\ kexinit_saved_before_send = true /\ kexinit_clears_first = true /\ negotiate_clears_first = true /\
  newkeys_sets = true /\ flag_set_only_in_newkeys = true /\ send_message_is_packetizer = true /\
  public_ungated_count = 0 /\ kex_gate_uses = 0 /\ MSG_KEXINIT = 20 /\ MSG_NEWKEYS = 21 /\
  HIGHEST_USERAUTH_MESSAGE_ID < 80 /\ MSG_GLOBAL_REQUEST = 80 /\ MSG_CHANNEL_OPEN = 90 /\
  MSG_CHANNEL_DATA = 94 /\ MSG_CHANNEL_CLOSE = 97 /\ MSG_CHANNEL_REQUEST = 98.
Proof. exact shape_facts. Qed.
Print Assumptions C11_shape_facts.

(* ---- non-vacuity ------------------------------------------------------------------------------ *)
(* a quiet history with real content: data in flight across an explicit re-key, a user send held and
   delivered *)
Example quiet_history_nontrivial :
  let evs := [UserRekey; UserSend 94; Recv 94 true; Recv 96 true; Recv 98 false; Recv 20 false;
              Recv 31 false; Recv 21 false; UserWake] in
  forallb quiet evs = true /\
  map fst (out (run (init_st true) evs)) = [20; 30; 21; 94].
Proof. vm_compute. split; reflexivity. Qed.

(* the hypotheses of C11_queued_delivered are met by a mid-exchange state with two held user sends *)
Example queued_state_nontrivial :
  let s := run (init_st false) [Threshold; TtIter; UserSend 94; Recv 93 true; UserSend 98] in
  dead s = false /\ ttw s = None /\ ph s = SentKexinit /\ uq s = [94; 98] /\ cts s = false.
Proof. vm_compute. repeat split; reflexivity. Qed.

(* a blocked state exists (hypothesis of C11_blocked_transport_never_released) *)
Example blocked_state_nontrivial :
  ttw (run (init_st false) [UserRekey; Recv 97 true]) = Some [(96, OReply 97); (97, OReply 97)].
Proof. vm_compute. reflexivity. Qed.
