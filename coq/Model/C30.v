(* C30 - every SFTP request completes with exactly one well-formed response; a client whose
   server answers every request never blocks forever.  Definitions only (proofs: Proofs/C30_proofs.v).

   Part 1 mirrors paramiko/sftp_server.py: SFTPServer._process (every CMD_ branch), _send_status,
   _response, _send_handle_response, _open_folder, _read_folder and the exception fall-back in
   start_subsystem, as a function from a request to the LIST of response packets it sends.
   Part 2 mirrors the client bookkeeping: SFTPClient._async_request / _request / _read_response /
   _finish_responses (sftp_client.py) and SFTPFile._write / _close / set_pipelined (sftp_file.py).

   Numbers (packet types, status codes, CMD_NAMES keys, the drain threshold) come from
   Gen/C30_gen.v, regenerated from the working tree on every run. *)
From PV Require Import Bytes C30_gen.
Open Scope Z_scope.

(* ====================================================================== *)
(* Part 1: the server                                                     *)

(* a response packet: (packet type, request id, detail); detail = status code for STATUS, handle
   number n of "hx<n>" for HANDLE, byte count for DATA, entry count for NAME, 0 otherwise *)
Definition resp := (Z * Z * Z)%type.
Definition r_type (r : resp) : Z := fst (fst r).
Definition r_id (r : resp) : Z := snd (fst r).
Definition r_det (r : resp) : Z := snd r.

(* what a piece of server code did: the packets it sent, and whether it then returned or raised *)
Inductive out := Done (l : list resp) | Exc (l : list resp).

(* result of the one SFTPServerInterface / SFTPHandle callback a request triggers (an oracle input) *)
Inductive cb :=
  | CbCode (c : Z)     (* an int (status code) *)
  | CbAttr             (* an SFTPAttributes *)
  | CbHandle           (* an SFTPHandle *)
  | CbBytes (n : Z)    (* bytes / str of length n *)
  | CbList (n : Z)     (* a list of n SFTPAttributes (list_folder) *)
  | CbRaise            (* the callback raised *)
  | CbOther.           (* any other object (None, ...) *)

(* result of one SFTPHandle.read call made by _check_file (an oracle input) *)
Inductive rd :=
  | RdBytes (n : Z)     (* bytes of length n (0 = end of file; may be short) *)
  | RdStr (n : Z)       (* a str of length n (not bytes) *)
  | RdCode (k : Z)      (* an int error code *)
  | RdOther             (* any other object *)
  | RdRaise.            (* read raised *)

(* the check-file arguments: does the algorithm list decode (else UnicodeDecodeError in get_list),
   does it name md5 or sha1, start, length, block size, what handle.stat() returns (CbAttr carries
   st_size = cf_size), and the results of the successive handle.read calls *)
Record cfargs := mkCf { cf_list_ok : bool; cf_alg_ok : bool; cf_start : Z; cf_length : Z; cf_block : Z;
                        cf_stat : cb; cf_size : Z; cf_reads : list rd }.
Definition cf_none : cfargs := mkCf true true 0 0 0 CbOther 0 [].

(* a request: packet type, request id, whether every get_text() of its parse decodes (else
   UnicodeDecodeError), the handle it names (n for b"hx<n>", -1 for any other string), the extended
   request name (0 = check-file, 1 = posix-rename@openssh.com, 2 = anything else), the callback
   result, and - for check-file only - its arguments *)
Record req := mkReq { q_t : Z; q_id : Z; q_text_ok : bool; q_h : Z; q_tag : Z; q_cb : cb; q_cf : cfargs }.

(* server state: next_handle, keys of file_table, folder_table with the number of unread entries *)
Record sst := mkS { s_next : Z; s_files : list Z; s_folders : list (Z * Z) }.
Definition s_init : sst := mkS 1 [] [].

Definition memz (h : Z) (l : list Z) : bool := existsb (Z.eqb h) l.
Fixpoint lookup (h : Z) (l : list (Z * Z)) : option Z :=
  match l with
  | [] => None
  | (k, v) :: r => if k =? h then Some v else lookup h r
  end.
Definition remove_z (h : Z) (l : list Z) : list Z := filter (fun x => negb (x =? h)) l.
Definition remove_k (h : Z) (l : list (Z * Z)) : list (Z * Z) := filter (fun p => negb (fst p =? h)) l.

Definition status (id code : Z) : resp := (g_CMD_STATUS, id, code).

(* _send_status(id, code): SFTP_DESC[code] (IndexError is caught; a negative or out-of-range code
   then fails in Message.add_int with struct.error; a non-int code raises TypeError) *)
Definition send_status (id code : Z) : out :=
  if (0 <=? code) && (code <? 4294967296) then Done [status id code] else Exc [].
Definition send_status_cb (id : Z) (c : cb) : out :=
  match c with CbCode k => send_status id k | _ => Exc [] end.

(* the command a packet type selects in _process; KUnnamed = CMD_NAMES[t] raises KeyError in the
   log line at the top, KUnhandled = the final else branch *)
Inductive kind :=
  | KUnnamed | KOpen | KClose | KRead | KWrite | KRemove | KRename | KMkdir | KRmdir | KOpendir
  | KReaddir | KStat | KLstat | KFstat | KSetstat | KFsetstat | KReadlink | KSymlink | KRealpath
  | KExtended | KUnhandled.

Definition kind_of (t : Z) : kind :=
  if negb (memz t g_cmd_names) then KUnnamed
  else if t =? g_CMD_OPEN then KOpen
  else if t =? g_CMD_CLOSE then KClose
  else if t =? g_CMD_READ then KRead
  else if t =? g_CMD_WRITE then KWrite
  else if t =? g_CMD_REMOVE then KRemove
  else if t =? g_CMD_RENAME then KRename
  else if t =? g_CMD_MKDIR then KMkdir
  else if t =? g_CMD_RMDIR then KRmdir
  else if t =? g_CMD_OPENDIR then KOpendir
  else if t =? g_CMD_READDIR then KReaddir
  else if t =? g_CMD_STAT then KStat
  else if t =? g_CMD_LSTAT then KLstat
  else if t =? g_CMD_FSTAT then KFstat
  else if t =? g_CMD_SETSTAT then KSetstat
  else if t =? g_CMD_FSETSTAT then KFsetstat
  else if t =? g_CMD_READLINK then KReadlink
  else if t =? g_CMD_SYMLINK then KSymlink
  else if t =? g_CMD_REALPATH then KRealpath
  else if t =? g_CMD_EXTENDED then KExtended
  else KUnhandled.

Definition invalid_handle (id : Z) : out := Done [status id g_SFTP_BAD_MESSAGE].

(* ATTRS-or-status: stat / lstat / fstat *)
Definition attrs_or_status (id : Z) (c : cb) : out :=
  match c with
  | CbAttr => Done [(g_CMD_ATTRS, id, 0)]
  | c => send_status_cb id c
  end.

(* _send_status(id, x, desc) with an explicit description (no SFTP_DESC lookup): _response packs an int
   with add_int (struct.error outside u32), a str / bytes with add_string (a malformed STATUS packet is
   still ONE STATUS packet; detail = the length prefix), and raises for anything else *)
Definition send_status_desc_cb (id : Z) (c : cb) : out :=
  match c with
  | CbCode k => send_status id k
  | CbBytes n => Done [status id n]
  | _ => Exc []
  end.

(* the hashing loops of _check_file, one step per handle.read call: while offset < start + length and
   not eof; a read that is not bytes ends the request with a STATUS (and return); b"" ends the range;
   data advances offset.  (Block boundaries only decide how many bytes each read asks for; which digests
   come out is C32's.)  A script that runs out stands for end of file. *)
Fixpoint cf_loop (id lim offset : Z) (reads : list rd) : out :=
  if lim <=? offset then Done [(g_CMD_EXTENDED_REPLY, id, 0)] else
  match reads with
  | [] => Done [(g_CMD_EXTENDED_REPLY, id, 0)]
  | r :: rest =>
      match r with
      | RdBytes n => if n <=? 0 then Done [(g_CMD_EXTENDED_REPLY, id, 0)] else cf_loop id lim (offset + n) rest
      | RdStr n => Done [status id n]
      | RdCode k => send_status id k
      | RdOther | RdRaise => Exc []
      end
  end.

(* SFTPServer._check_file after its parse of the handle string *)
Definition check_file (s : sst) (id h : Z) (a : cfargs) : out :=
  if negb (cf_list_ok a) then Exc [] else
  if negb (memz h (s_files s)) then invalid_handle id else
  if negb (cf_alg_ok a) then send_status id g_SFTP_FAILURE else
  let after_len (length : Z) : out :=
    let bs := if cf_block a =? 0 then length else cf_block a in
    if bs <? g_CF_MIN_BLOCK then send_status id g_SFTP_FAILURE
    else cf_loop id (cf_start a + length) (cf_start a) (cf_reads a) in
  if cf_length a =? 0 then
    match cf_stat a with
    | CbAttr => after_len (cf_size a - cf_start a)
    | CbRaise => Exc []
    | c => send_status_desc_cb id c
    end
  else after_len (cf_length a).

Definition process (s : sst) (q : req) : sst * out :=
  let id := q_id q in
  let h := q_h q in
  let c := q_cb q in
  match kind_of (q_t q) with
  | KUnnamed => (s, Exc [])
  | KOpen =>
      if negb (q_text_ok q) then (s, Exc []) else
      match c with
      | CbHandle => (mkS (s_next s + 1) (s_next s :: s_files s) (s_folders s),
                     Done [(g_CMD_HANDLE, id, s_next s)])
      | c => (s, send_status_cb id c)
      end
  | KClose =>
      match lookup h (s_folders s) with
      | Some _ => (mkS (s_next s) (s_files s) (remove_k h (s_folders s)), send_status id g_SFTP_OK)
      | None =>
          if memz h (s_files s) then
            match c with
            | CbRaise => (s, Exc [])
            | _ => (mkS (s_next s) (remove_z h (s_files s)) (s_folders s), send_status id g_SFTP_OK)
            end
          else (s, invalid_handle id)
      end
  | KRead =>
      if negb (memz h (s_files s)) then (s, invalid_handle id) else
      match c with
      | CbBytes n => (s, if n =? 0 then send_status id g_SFTP_EOF else Done [(g_CMD_DATA, id, n)])
      | c => (s, send_status_cb id c)
      end
  | KWrite =>
      if negb (memz h (s_files s)) then (s, invalid_handle id) else (s, send_status_cb id c)
  | KRemove | KRename | KMkdir | KRmdir | KSetstat | KSymlink =>
      if negb (q_text_ok q) then (s, Exc []) else (s, send_status_cb id c)
  | KOpendir =>
      if negb (q_text_ok q) then (s, Exc []) else
      match c with
      | CbList n => (mkS (s_next s + 1) (s_files s) ((s_next s, n) :: s_folders s),
                     Done [(g_CMD_HANDLE, id, s_next s)])
      | c => (s, send_status_cb id c)
      end
  | KReaddir =>
      match lookup h (s_folders s) with
      | None => (s, invalid_handle id)
      | Some n =>
          let k := Z.min n g_READDIR_BATCH in
          if k <=? 0 then (s, send_status id g_SFTP_EOF)
          else (mkS (s_next s) (s_files s) ((h, n - k) :: remove_k h (s_folders s)),
                Done [(g_CMD_NAME, id, k)])
      end
  | KStat | KLstat =>
      if negb (q_text_ok q) then (s, Exc []) else (s, attrs_or_status id c)
  | KFstat =>
      if negb (memz h (s_files s)) then (s, invalid_handle id) else (s, attrs_or_status id c)
  | KFsetstat =>
      (* repaired: _send_status (was _response(request_number, SFTP_BAD_MESSAGE, ...): packet TYPE 5) *)
      if negb (memz h (s_files s)) then (s, invalid_handle id) else (s, send_status_cb id c)
  | KReadlink =>
      if negb (q_text_ok q) then (s, Exc []) else
      match c with
      | CbBytes _ => (s, Done [(g_CMD_NAME, id, 1)])
      | c => (s, send_status_cb id c)
      end
  | KRealpath =>
      if negb (q_text_ok q) then (s, Exc []) else
      match c with
      | CbBytes _ | CbAttr => (s, Done [(g_CMD_NAME, id, 1)])
      | CbCode k => (s, if (0 <=? k) && (k <? 4294967296) then Done [(g_CMD_NAME, id, 1)] else Exc [])
      | _ => (s, Exc [])
      end
  | KExtended =>
      if negb (q_text_ok q) then (s, Exc []) else
      if q_tag q =? 0 then (s, check_file s id h (q_cf q))
      else if q_tag q =? 1 then (s, send_status_cb id c)
      else (s, send_status id g_SFTP_OP_UNSUPPORTED)
  | KUnhandled => (s, send_status id g_SFTP_OP_UNSUPPORTED)
  end.

(* one iteration of the start_subsystem loop: _process, and on any exception
   `_send_status(request_number, SFTP_FAILURE)` *)
Definition serve (s : sst) (q : req) : sst * list resp :=
  let '(s', o) := process s q in
  (s', match o with
       | Done l => l
       | Exc l => l ++ [status (q_id q) g_SFTP_FAILURE]
       end).

Fixpoint serve_all (s : sst) (qs : list req) : list (list resp) :=
  match qs with
  | [] => []
  | q :: r => let '(s', l) := serve s q in l :: serve_all s' r
  end.

(* which response packet types are valid for a request type (STATUS is always allowed: failures) *)
Definition valid_for (t rt : Z) : bool :=
  (rt =? g_CMD_STATUS)
  || (((t =? g_CMD_OPEN) || (t =? g_CMD_OPENDIR)) && (rt =? g_CMD_HANDLE))
  || ((t =? g_CMD_READ) && (rt =? g_CMD_DATA))
  || (((t =? g_CMD_READDIR) || (t =? g_CMD_READLINK) || (t =? g_CMD_REALPATH)) && (rt =? g_CMD_NAME))
  || (((t =? g_CMD_STAT) || (t =? g_CMD_LSTAT) || (t =? g_CMD_FSTAT)) && (rt =? g_CMD_ATTRS))
  || ((t =? g_CMD_EXTENDED) && (rt =? g_CMD_EXTENDED_REPLY)).

(* requests that name a handle *)
Definition handle_kind (k : kind) : bool :=
  match k with KClose | KRead | KWrite | KReaddir | KFstat | KFsetstat => true | _ => false end.

(* ---- correspondence entry point ---- *)
Fixpoint flat_resps (l : list resp) : list Z :=
  match l with
  | [] => []
  | (t, i, d) :: r => t :: i :: d :: flat_resps r
  end.
Fixpoint flat_all (ls : list (list resp)) : list Z :=
  match ls with
  | [] => []
  | l :: r => Z.of_nat (length l) :: flat_resps l ++ flat_all r
  end.
Definition run_server (qs : list req) : list Z := flat_all (serve_all s_init qs).

(* ====================================================================== *)
(* Part 2: the client                                                     *)

(* a packet waiting to be read: (type, request number, status code) *)
Definition pkt := (Z * Z * Z)%type.
Definition p_num (p : pkt) : Z := snd (fst p).

(* result of _read_response: a (t, msg) pair for the awaited request; an exception from
   _convert_status; (None, None) after a single check; or: the call waits for a packet although the
   server has already sent the reply to every request made so far (it blocks forever) *)
Inductive rr := RFound (t code : Z) | RRaise (e : exn) | RNone | RBlocked.

Definition convert_status (code : Z) : option exn :=
  if code =? g_SFTP_OK then None
  else if code =? g_SFTP_EOF then Some EOFErr
  else Some IOErr.

(* _read_response(waitfor) over the unread packets `inp` and the key set `exp` of _expecting.
   Every request in this model is registered with fileobj = type(None) (that is what _request and
   SFTPFile._write pass), so the `fileobj._async_response` dispatch is never taken. *)
Fixpoint read_response (waitfor : option Z) (inp : list pkt) (exp : list Z) : rr * list pkt * list Z :=
  match inp with
  | [] => (RBlocked, [], exp)
  | (t, num, code) :: rest =>
      if negb (memz num exp) then
        match waitfor with
        | None => (RNone, rest, exp)
        | Some _ => read_response waitfor rest exp
        end
      else
        let exp' := remove_z num exp in
        match waitfor with
        | Some w =>
            if num =? w then
              if t =? g_CMD_STATUS then
                match convert_status code with
                | Some e => (RRaise e, rest, exp')
                | None => (RFound t code, rest, exp')
                end
              else (RFound t code, rest, exp')
            else read_response waitfor rest exp'
        | None => (RNone, rest, exp')
        end
  end.

(* client: request_number, keys of _expecting, unread packets.  "The server answers every request"
   (exactly once and in order - Part 1) is built in: sending a request appends its reply to c_in. *)
Record cst := mkC { c_no : Z; c_exp : list Z; c_in : list pkt }.
Definition c_init : cst := mkC 1 [] [].

(* the open SFTPFile: pipelined, _reqs, _closed *)
Record fst_ := mkF { f_pipe : bool; f_reqs : list Z; f_closed : bool }.
Definition f_init : fst_ := mkF false [] false.

(* a reply the server will give: (packet type, status code) *)
Definition reply := (Z * Z)%type.

Definition async_request (c : cst) (rp : reply) : cst * Z :=
  (mkC (c_no c + 1) (c_no c :: c_exp c) (c_in c ++ [(fst rp, c_no c, snd rp)]), c_no c).

Inductive ores := ORet | ORaise (e : exn) | OBlocked.

(* SFTPError (a plain Exception subclass) *)
Definition SFTPErr : exn := LibExc 1.

(* _request: _async_request then _read_response(num) *)
Definition request (c : cst) (rp : reply) : ores * Z * Z * cst :=
  let '(c1, n) := async_request c rp in
  match read_response (Some n) (c_in c1) (c_exp c1) with
  | (RFound t code, i, e) => (ORet, t, code, mkC (c_no c1) e i)
  | (RRaise x, i, e) => (ORaise x, 0, 0, mkC (c_no c1) e i)
  | (RNone, i, e) => (ORet, 0, 0, mkC (c_no c1) e i)
  | (RBlocked, i, e) => (OBlocked, 0, 0, mkC (c_no c1) e i)
  end.

(* the drain loop of SFTPFile._write.  skip = true is the code as repaired (a request whose reply
   was already consumed by another wait is skipped); skip = false is the loop as it was. *)
Fixpoint drain (skip : bool) (reqs : list Z) (c : cst) : ores * list Z * cst :=
  match reqs with
  | [] => (ORet, [], c)
  | r :: rest =>
      if skip && negb (memz r (c_exp c)) then drain skip rest c
      else
        match read_response (Some r) (c_in c) (c_exp c) with
        | (RFound t code, i, e) =>
            if t =? g_CMD_STATUS then drain skip rest (mkC (c_no c) e i)
            else (ORaise SFTPErr, rest, mkC (c_no c) e i)
        | (RRaise x, i, e) => (ORaise x, rest, mkC (c_no c) e i)
        | (RNone, i, e) => (ORaise SFTPErr, rest, mkC (c_no c) e i)
        | (RBlocked, i, e) => (OBlocked, rest, mkC (c_no c) e i)
        end
  end.

(* one SFTPFile._write call (ready = what sock.recv_ready() returns) *)
Definition write_op (skip ready : bool) (rp : reply) (f : fst_) (c : cst) : ores * fst_ * cst :=
  let '(c1, n) := async_request c rp in
  let reqs := f_reqs f ++ [n] in
  if negb (f_pipe f) || ((g_DRAIN_THRESHOLD <? Z.of_nat (length reqs)) && ready) then
    let '(r, reqs', c2) := drain skip reqs c1 in (r, mkF (f_pipe f) reqs' (f_closed f), c2)
  else (ORet, mkF (f_pipe f) reqs (f_closed f), c1).

(* BufferedFile._write_all of the buffered bytes: one _write per chunk; stops at the first raise *)
Fixpoint flush_ops (skip : bool) (pend : list (bool * reply)) (f : fst_) (c : cst) : ores * fst_ * cst :=
  match pend with
  | [] => (ORet, f, c)
  | (ready, rp) :: rest =>
      match write_op skip ready rp f c with
      | (ORet, f1, c1) => flush_ops skip rest f1 c1
      | other => other
      end
  end.

(* SFTPFile._close(async_=False): _finish_responses(self) is a no-op because no request is
   registered with the file object; BufferedFile.close = flush then _closed = True; then
   _request(CMD_CLOSE) with EOFError / IOError swallowed *)
Definition close_op (skip : bool) (pend : list (bool * reply)) (rp : reply) (f : fst_) (c : cst)
  : ores * fst_ * cst :=
  if f_closed f then (ORet, f, c) else
  match flush_ops skip pend f c with
  | (ORet, f1, c1) =>
      let f2 := mkF (f_pipe f1) (f_reqs f1) true in
      match request c1 rp with
      | (ORaise EOFErr, _, _, c2) | (ORaise IOErr, _, _, c2) => (ORet, f2, c2)
      | (r, _, _, c2) => (r, f2, c2)
      end
  | other => other
  end.

(* what the application does on one session with one open file *)
Inductive op :=
  | OWrite (ready : bool) (rp : reply)                 (* one _write (file open for writing) *)
  | OSync (rp : reply)                                 (* any synchronous request: stat, listdir step, read ... *)
  | OSetPipe (b : bool)                                (* set_pipelined(b) *)
  | OClose (pend : list (bool * reply)) (rp : reply).  (* close(), flushing the buffered chunks first *)

Definition step (skip : bool) (o : op) (f : fst_) (c : cst) : ores * fst_ * cst :=
  match o with
  | OWrite ready rp => if f_closed f then (ORaise IOErr, f, c) else write_op skip ready rp f c
  | OSync rp => let '(r, _, _, c1) := request c rp in (r, f, c1)
  | OSetPipe b => (ORet, mkF b (f_reqs f) (f_closed f), c)
  | OClose pend rp => close_op skip pend rp f c
  end.

(* a program runs on after an exception (the application may catch it); a blocked call never returns *)
Fixpoint run (skip : bool) (prog : list op) (f : fst_) (c : cst) : list ores :=
  match prog with
  | [] => []
  | o :: rest =>
      match step skip o f c with
      | (OBlocked, _, _) => [OBlocked]
      | (r, f1, c1) => r :: run skip rest f1 c1
      end
  end.

(* every expected reply is still among the unread packets *)
Definition inv (c : cst) : Prop := incl (c_exp c) (map p_num (c_in c)).
(* request numbers are fresh *)
Definition fresh (c : cst) : Prop :=
  (forall n, In n (c_exp c) -> n < c_no c) /\ (forall n, In n (map p_num (c_in c)) -> n < c_no c).

(* ---- correspondence entry point ---- *)
Definition ores_code (r : ores) : Z :=
  match r with ORet => 0 | ORaise e => exn_code e | OBlocked => 98 end.
Definition run_client (prog : list op) : list Z := map ores_code (run true prog f_init c_init).
Definition run_client_v0 (prog : list op) : list Z := map ores_code (run false prog f_init c_init).
