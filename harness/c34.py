"""C34 — default SFTP path canonicalisation stays inside the served root.

Proof: coq/Props/C34_props.v over coq/Model/C34.v (canonicalize + a Gallina model of posixpath.normpath).
Tie: differential run of the model's canonicalize / normpath (vm_compute inside Coq) against the real
SFTPServerInterface.canonicalize / posixpath.normpath: every string over {'/', '.', 'a', 'b'} up to a
length bound (enumerated inside Coq, results compared as packed numbers) plus random long paths.
Search oracle: the property stated directly on the real function's output (absolute, no '.'/'..'
component, ROOT + result resolves below ROOT) on the same exhaustive space and the random paths.
"""
import itertools

from common import coq

PID = "C34"
LEVEL_TEXT = ("Machine-checked proof (Coq, closed under the global context), for every path string of any length over "
              "any characters, that canonicalize returns an absolute path whose '/'-separated components contain "
              "no '.' and no '..' (all non-empty components are ordinary names), and that for every root string the "
              "components of root + canonicalize(p) are the root's components followed by those names, so resolving "
              "it ('.' stay, '..' up, name down) ends below the directory root resolves to — including results that "
              "keep the POSIX double leading slash; the normpath model and canonicalize are tied to the real "
              "functions by an exhaustive + random differential run of the model's own definitions every run.")
LEVEL_NOTE = ("Trusted: Coq kernel + vm_compute; os.path.normpath (posixpath) is a library primitive modelled by a "
              "hand-written Gallina re-implementation of its documented algorithm, validated only by the "
              "correspondence run; the shape of canonicalize (isabs test, normpath on both branches, win32-only "
              "backslash replacement) and its separator literal are pinned / regenerated from sftp_si.py by gen/c34.py "
              "(fail-closed); win32 branch unmodelled; symbolic links "
              "are outside the property; strings with NUL are not generated.")
TECHNIQUE = "Coq proof (loop invariant over normpath's component stack, split/join lemmas) + exhaustive vm_compute correspondence"

ALPHA = "/.ab"
CODE = {"/": 1, ".": 2, "a": 3, "b": 4}
ROOTS = ["/srv/root", "/", "", "/r/../x/.", "rel/dir", "/srv/root/", "//r"]
CHUNK = 256


def canon(path):
    from paramiko.sftp_si import SFTPServerInterface
    return SFTPServerInterface.canonicalize(_SI, path)


_SI = None


def comps(s):
    return [c for c in s.split("/") if c != ""]


def resolve(s):
    """Where the operating system ends up walking the string (symbolic links aside)."""
    stk = []
    for c in comps(s):
        if c == ".":
            continue
        if c == "..":
            if stk:
                stk.pop()
            continue
        stk.append(c)
    return stk


def check_one(ctx, path):
    """The property on the real function for one path.  Returns the output (or None)."""
    try:
        out = canon(path)
    except Exception as e:  # noqa
        ctx.fail("canonicalize-raises", "canonicalize raises on a path string", case={"path": path},
                 expected="a canonical absolute path", observed=repr(e))
        return None
    check_out(ctx, {"path": path}, out, "", "canonicalize returns")
    return out


def check_out(ctx, case, out, suffix, who):
    """absolute, no '.' / '..' component, one or two slashes + names, ROOT + out inside ROOT."""
    if not isinstance(out, str) or not out.startswith("/"):
        ctx.fail("not-absolute" + suffix, who + " a path that is not absolute", case=case,
                 expected="a path starting with '/'", observed=out)
        return False
    parts = out.split("/")
    if "." in parts or ".." in parts:
        ctx.fail("dot-component" + suffix, who + " a path with a '.' or '..' component",
                 case=case, expected="no '.' / '..' component", observed=out)
        return False
    names = comps(out)
    k = len(out) - len(out.lstrip("/"))
    ok = True
    if out != "/" * k + "/".join(names) or k not in (1, 2):
        ctx.fail("shape" + suffix, who + " something that is not one or two slashes followed by names joined by "
                 "single slashes", case=case, expected="/" + "/".join(names), observed=out)
        ok = False
    for root in ROOTS:
        full = root + out
        if comps(full) != comps(root) + names or resolve(full)[:len(resolve(root))] != resolve(root) \
                or len(resolve(full)) != len(resolve(root)) + len(names):
            ctx.fail("escapes-root" + suffix, "ROOT + the canonical path does not stay inside ROOT",
                     case=dict(case, root=root), expected=resolve(root) + names, observed=resolve(full))
            return False
    return ok


# --------------------------------------------------------------------------- the REALPATH request path
# The real SFTPServer is driven directly: an instance per session (constructed the way Transport does for a
# subsystem request, on a stub channel), CMD_REALPATH packets handed to _process, the CMD_NAME reply captured
# at _send_packet.  Several sessions live in one process; some are served by an overriding SFTPServerInterface,
# the others by the default one, and they are asked about the same path strings.

INTERFACES = ["default", "gateway", "home", "default-subclass"]


def make_session(kind):
    from paramiko.sftp_server import SFTPServer
    from paramiko.sftp_si import SFTPServerInterface
    from paramiko.server import ServerInterface

    class Gateway(SFTPServerInterface):          # forwards paths unresolved to a backend
        def canonicalize(self, path):
            return path

    class Home(SFTPServerInterface):             # home-relative, keeps what the client typed
        def canonicalize(self, path):
            return "/home/u/" + path

    class Plain(SFTPServerInterface):            # a subclass that keeps the default canonicalisation
        pass

    cls = {"default": SFTPServerInterface, "gateway": Gateway, "home": Home, "default-subclass": Plain}[kind]

    class StubTransport:
        def get_log_channel(self):
            return "paramiko.verif.c34"

        def get_hexdump(self):
            return False

    class StubChannel:
        def get_transport(self):
            return StubTransport()

        def get_name(self):
            return "0"

    srv = SFTPServer(StubChannel(), "sftp", ServerInterface(), cls)
    srv.sock = StubChannel()
    srv._replies = []
    srv._send_packet = lambda t, packet: srv._replies.append((t, bytes(packet.asbytes() if hasattr(packet, "asbytes")
                                                                          else packet)))
    return srv


def realpath(srv, reqno, path, trailer=b""):
    """Send one REALPATH request through SFTPServer._process; returns ('name', filename) | ('other', type, bytes).
    `trailer` = bytes after the path string (later SFTP drafts append a control byte and compose-path strings;
    a v3 server has no use for them, and whatever it does with them the answer must stay canonical)."""
    from paramiko.message import Message
    from paramiko.sftp import CMD_REALPATH, CMD_NAME
    m = Message()
    m.add_string(path)
    m.add_bytes(trailer)
    m.rewind()
    del srv._replies[:]
    srv._process(CMD_REALPATH, reqno, m)
    if len(srv._replies) != 1:
        return ("other", None, repr(srv._replies)[:200])
    t, data = srv._replies[0]
    r = Message(data)
    if t != CMD_NAME or r.get_int() != reqno or r.get_int() != 1:
        return ("other", t, data)
    return ("name", r.get_text())


def wire_sessions(ctx, rng):
    """Two live SFTP sessions in this process over real Transports (in-memory sockets): the first served by an
    overriding interface, the second by the default one; SFTPClient.normalize (REALPATH over the wire) on the same
    path strings, the first session used again after the second.  Infrastructure trouble is a note, not a verdict."""
    import os
    import threading
    from common import with_watchdog

    def work():
        import logging
        import paramiko
        from paramiko import (AUTH_SUCCESSFUL, OPEN_SUCCEEDED, RSAKey, ServerInterface, SFTPClient, SFTPServer,
                              SFTPServerInterface, Transport)
        from _loop import LoopSocket
        logging.getLogger("paramiko").setLevel(logging.CRITICAL)

        class Server(ServerInterface):
            def check_auth_password(self, username, password):
                return AUTH_SUCCESSFUL

            def check_channel_request(self, kind, chanid):
                return OPEN_SUCCEEDED

        class Gateway(SFTPServerInterface):
            def canonicalize(self, path):
                return path

        key = RSAKey.from_private_key_file(os.path.join(ctx.repo, "tests", "_support", "rsa.key"))
        opened = []

        def session(si):
            socks, sockc = LoopSocket(), LoopSocket()
            sockc.link(socks)
            tc, ts = Transport(sockc), Transport(socks)
            opened.extend([tc, ts])
            ts.add_server_key(key)
            ts.set_subsystem_handler("sftp", SFTPServer, si)
            ts.start_server(threading.Event(), Server())
            tc.connect(username="u", password="p")
            return SFTPClient.from_transport(tc)

        paths = ["/pub/../..", "../../etc/passwd", "a/./b/../../..", "//..", "/pub/.. ", ".. ", "a/b/../../..\t",
                 " ..", "/pub/..\n", ". ", "/a//b/./..", "", ".", "//x", "/\u2025/\u2025/etc", "/pub/\uff0e\uff0e"]
        paths += [gen_long(rng) for _ in range(12)] + [gen_unicode(rng) for _ in range(8)]
        paths = [p for p in paths if "\x00" not in p]
        results = []
        try:
            a = session(Gateway)
            b = session(SFTPServerInterface)
            for who, cl in (("gateway", a), ("default", b), ("gateway", a), ("default", b)):
                for pth in paths:
                    try:
                        ans = cl.normalize(pth)
                    except IOError as e:
                        ans = e
                    results.append((who, pth, ans))
        finally:
            for t in opened:
                try:
                    t.close()
                except Exception:  # noqa
                    pass
        return results

    st, res = with_watchdog(work, 40.0)
    if st != "ok":
        ctx.notes.append("end-to-end REALPATH sessions not completed (%s: %r); direct-drive results stand" % (st, res))
        return
    from paramiko.sftp_si import SFTPServerInterface
    from paramiko.server import ServerInterface
    ref = SFTPServerInterface(ServerInterface())
    for who, pth, ans in res:
        ctx.count(("wire", who, pth), kind="realpath-over-the-wire")
        if who != "default":
            continue
        case = {"path": pth, "via": "wire"}
        if not isinstance(ans, str):
            ctx.fail("realpath-refused-over-the-wire", "SFTPClient.normalize on a default-canonicalisation session "
                     "fails", case=case, expected="a canonical path", observed=repr(ans))
            return
        if not check_out(ctx, case, ans, "-over-the-wire",
                         "REALPATH over a real SFTP session served with the default canonicalisation answers"):
            return
        if ans != ref.canonicalize(pth):
            ctx.fail("realpath-differs-from-canonicalize-over-the-wire", "the REALPATH answer received by the client "
                     "differs from canonicalize(path)", case=case, expected=ref.canonicalize(pth), observed=ans)
            return


def gen_trailer(rng):
    """hex of the bytes after the path string of a REALPATH request"""
    import struct
    mode = rng.randrange(4)
    if mode == 3:
        return bytes(rng.randrange(256) for _ in range(rng.randrange(1, 12))).hex()
    out = bytes([rng.choice([0, 1, 2, 3, 0xFF])])
    for _ in range(rng.randrange(0 if mode == 2 else 1, 5)):
        comp = rng.choice(["..", "..", ".", "etc", "../..", "/abs", "", "a/../..", "\u2025", "x", "//"]).encode("utf-8")
        out += struct.pack(">I", len(comp)) + comp
    return out.hex()


class _Quiet:
    """Stands in for ctx while a scenario is only probed (nothing is reported)."""

    def __init__(self):
        self.fails = []

    def fail(self, key, what, **kw):
        self.fails.append(key)


def realpath_scenario(ctx, case):
    """case = {"via": "realpath", "sessions": [kinds], "steps": [[session index, path], ...]}.
    Every answer of a session served with the default canonicalisation must be canonical (absolute, dot-free,
    inside ROOT) and equal to what its own interface's canonicalize returns for that path, whatever any session
    in the process was asked before."""
    from paramiko.sftp_si import SFTPServerInterface
    sessions = [make_session(k) for k in case["sessions"]]
    answers = []
    ok = True
    for n, step in enumerate(case["steps"]):
        i, path = step[0], step[1]
        trailer = bytes.fromhex(step[2]) if len(step) > 2 and step[2] else b""
        kind = case["sessions"][i]
        try:
            r = realpath(sessions[i], 100 + n, path, trailer)
        except Exception as e:  # noqa
            r = ("other", None, repr(e))
        answers.append(r[1] if r[0] == "name" else repr(r))
        if not kind.startswith("default"):
            continue
        where = dict(case, step=n)
        if r[0] != "name":
            ctx.fail("realpath-no-name-reply", "REALPATH on a default-canonicalisation session is not answered with "
                     "one CMD_NAME entry", case=where, expected="CMD_NAME, 1 entry", observed=repr(r)[:200])
            ok = False
            break
        if not check_out(ctx, where, r[1], "-via-realpath",
                         "REALPATH on a session served with the default canonicalisation answers"):
            ok = False
            break
        want = SFTPServerInterface.canonicalize(sessions[i].server, path)
        if r[1] != want:
            ctx.fail("realpath-differs-from-canonicalize", "REALPATH answer differs from what the session's own "
                     "interface canonicalises", case=where, expected=want, observed=r[1])
            ok = False
            break
    return ok, answers


def nth_string(length, idx):
    out = []
    for _ in range(length):
        out.append(ALPHA[idx % 4])
        idx //= 4
    return "".join(reversed(out))


def pack_range(length, start, count, outs):
    acc = 1
    for o in outs:
        acc *= 5
        for ch in o:
            acc = acc * 5 + CODE.get(ch, 0)
    return acc


TOKENS = ["/", "/", "//", "///", "////", ".", "..", "...", "a", "b", "etc", "passwd", "..a", "a..", ".b", " ",
          "é", "\\", "~", "-", "a b", "✓", "..", "../..", "/../", "/./", "./", "../"]

# characters that Unicode compatibility / canonical normalisation (NFKC, NFKD, NFC, NFD) or case folding turn into
# '.', '..', '/' or that decompose / compose: they are ordinary name characters for canonicalize
LOOKALIKES = ["\u2024", "\u2025", "\u2026", "\uff0e", "\ufe52", "\uff0f", "\u2215", "\u2044", "\uff0e\uff0e",
              "\u2024\u2024", "\u2025", "e\u0301", "\u00e9", "\uff41", "\u212b", "\u00a0", "\u3002", "\uff61",
              "\ufe30", "\u0338", "\u200b", "\ufeff", "\ud7a3", "\U0001f600", "\u0130", "\u00df"]
UALPHA = ["/", "\u2025", "\u2024", "\uff0e", "a"]


LIMITS = [255, 256, 1024, 4096, 8192, 65536]
DOTTED = ["..data", ".cache", "...", "..a", ".b", ".. ", "..\u2025"]


def filler(n):
    """n characters of ordinary name components (at most 9 long) separated by single slashes, no slash at the ends"""
    if n <= 0:
        return ""
    t = ("aaaaaaaaa/" * (n // 10 + 1))[:n]
    return t[:-1] + "b" if t.endswith("/") else t


def long_paths(rng, thorough):
    """Canonical-looking paths whose lengths straddle the limits a helper might treat specially, built so that
    for every prefix length in a window around each limit the prefix ends right after the leading dots of a legal
    name (`..data`, `.cache`, ...): any truncation / chunking at that length would leave a bare '.' or '..'."""
    out = []
    for L in LIMITS:
        window = range(-6, 7) if thorough or L in (4096, 256) else (-1, 0, 1, rng.randrange(-6, 7))
        for d in window:
            for name in (DOTTED if thorough else rng.sample(DOTTED, 3)):
                ndots = len(name) - len(name.lstrip("."))
                k = L + d - 2 - ndots          # '/' + filler(k) + '/' + dots  has length L + d
                if k < 1:
                    continue
                lead = rng.choice(["/", "", "//", "/./", "/x/../"])
                body = filler(k) + "/" + name + rng.choice(["", "/tail", "/" + filler(rng.randrange(1, 40)), "/.."])
                out.append(lead + body)
                # the same with the dotted name repeated, so that several consecutive cut points hit dots
                out.append("/" + filler(max(1, k - 40)) + ("/" + name) * 12)
    return out


def gen_unicode(rng):
    mode = rng.randrange(3)
    if mode == 0:      # look-alike components against a few names, as a traversal attempt would be written
        n = rng.randrange(1, 9)
        return rng.choice(["", "/", "//", "/pub/"]) + rng.choice(["/", "//", "\uff0f"]).join(
            rng.choice(LOOKALIKES + ["a", "etc", "..", "."]) for _ in range(n))
    if mode == 1:
        return "".join(rng.choice(LOOKALIKES + TOKENS) for _ in range(rng.randrange(1, 14)))
    return "".join(rng.choice(LOOKALIKES + ["/", "/", ".", "a"]) for _ in range(rng.randrange(1, 20)))


def gen_long(rng):
    mode = rng.randrange(4)
    if mode == 0:      # '..' runs against a few names
        n = rng.randrange(1, 12)
        return rng.choice(["", "/", "//", "///"]) + "/".join(rng.choice(["..", "..", "a", ".", "", "x"]) for _ in range(n))
    if mode == 1:
        return "".join(rng.choice(TOKENS) for _ in range(rng.randrange(0, 16)))
    if mode == 2:
        return "".join(rng.choice(ALPHA) for _ in range(rng.randrange(9, 40)))
    return rng.choice(["", "/", "//", "///"]) + rng.choice(["/", "//"]).join(
        rng.choice(TOKENS) for _ in range(rng.randrange(1, 10)))


def mm(ctx, run_fn, case_type, cases, **kw):
    """Model comparison that never stops the implementation-level oracle."""
    try:
        return ctx.model_mismatches(run_fn, case_type, cases, **kw)
    except Exception as e:  # noqa
        ctx.disagree("model evaluation failed for %s: %s" % (run_fn, str(e)[-400:]))
        return []


def cps(s):
    return [ord(c) for c in s]


def run(ctx):
    global _SI
    import posixpath
    from paramiko.sftp_si import SFTPServerInterface
    from paramiko.server import ServerInterface
    _SI = SFTPServerInterface(ServerInterface())
    rng = ctx.rng
    oracle_len = 10 if ctx.thorough else 8
    model_len = 8 if ctx.thorough else 6
    ctx.rule = ("every string over {'/', '.', 'a', 'b'} up to length %d through the implementation-level oracle and "
                "up to length %d through the model (thorough: 10 / 8), a seeded sample of the longer ones through the "
                "model, seeded random long paths ('..' runs, repeated separators, dotted names, non-ASCII), every string up "
                "to length 5 (thorough 6) over {'/', U+2025, U+2024, U+FF0E, 'a'} and seeded paths built from Unicode "
                "look-alikes of '.', '..', '/' and composed / decomposed names; long paths whose lengths straddle 255 / 256 / "
                "1024 / 4096 / 8192 / 65536 with dotted names (..data, .cache, ...) placed so that every prefix length in a "
                "window around the limit ends right after the dots (oracle on all, model up to 1100 characters); the same paths as REALPATH requests through "
                "the real SFTPServer._process, several sessions per process (overriding and default interfaces, "
                "same strings, same session asked twice, different orders, with and without trailing fields after the "
                "path), and over two real Transport + SFTPServer + SFTPClient.normalize sessions; "
                "non-trivial = distinct non-empty path" % (oracle_len, model_len))
    ctx.trusted += ["model coq/Model/C34.v is hand-written; canonicalize is tied to paramiko/sftp_si.py and the "
                    "normpath model to the running interpreter's posixpath.normpath by this differential run "
                    "(vm_compute of the model's own definitions, no extraction)"]
    ctx.assumptions += ["POSIX platform (sys.platform != 'win32'); symbolic links below ROOT are not considered"]
    ctx.exhaustive = True
    ctx.prove()

    # ---- 1. the property itself on the real function: exhaustive short strings -------------------------
    outs = {}
    for n in range(0, oracle_len + 1):
        kind = "exhaustive-len%d" % n
        for t in itertools.product(ALPHA, repeat=n):
            s = "".join(t)
            o = check_one(ctx, s)
            if n <= 8:
                outs[s] = o
        ctx.evaluations += 4 ** n
        ctx.dist[kind] = 4 ** n
    # distinctness: the enumeration is duplicate-free by construction
    for i in range(min(200000, sum(4 ** n for n in range(1, oracle_len + 1)))):
        ctx.nontrivial.add(("enum", i))
    ctx.sample({"canonicalize": {"path": "//../a/./b", "impl": canon("//../a/./b")}})
    ctx.sample({"canonicalize": {"path": "//x", "impl": canon("//x"),
                                 "note": "POSIX double leading slash is kept; ROOT + '//x' still names ROOT/x"}})

    # ---- 2. model vs implementation: enumerated inside Coq --------------------------------------------
    ranges = []
    for n in range(0, 9):
        total = 4 ** n
        starts = list(range(0, total, CHUNK))
        if n > model_len:
            starts = rng.sample(starts, 6)
        for st in starts:
            cnt = min(CHUNK, total - st)
            strs = [nth_string(n, i) for i in range(st, st + cnt)]
            o = [outs[s] for s in strs]
            if any(x is None or any(ch not in CODE for ch in x) for x in o):
                ctx.disagree("canonicalize output leaves the input alphabet", case={"len": n, "start": st})
                continue
            ranges.append(((n, st, cnt), [pack_range(n, st, cnt, o)], strs, o))
            ctx.count(("range", n, st), kind="model-range")
    bad = mm(ctx, "run_canon_range", "(Z * Z * Z)", [(coq(c), e) for c, e, _, _ in ranges], shard=40)
    for i in bad[:2]:
        (n, st, cnt), _, strs, o = ranges[i]
        # pinpoint the string inside the chunk
        sub = mm(ctx, "run_canon", "(list Z)", [(coq(cps(s)), cps(x)) for s, x in zip(strs, o)])
        for j in sub[:2]:
            ctx.disagree("canonicalize differs from model", case={"path": strs[j]}, impl=o[j])
        if not sub:
            ctx.disagree("canonicalize differs from model in chunk", case={"len": n, "start": st, "count": cnt})

    # ---- 3. random long paths: oracle + model ---------------------------------------------------------
    cases = []
    for _ in range(2500 if ctx.thorough else 300):
        s = gen_long(rng)
        o = check_one(ctx, s)
        ctx.count(("long", s), nontrivial=len(s) > 0, kind="random-long")
        if o is not None:
            cases.append((s, o))
    bad = mm(ctx, "run_canon", "(list Z)", [(coq(cps(s)), cps(o)) for s, o in cases])
    for i in bad[:3]:
        ctx.disagree("canonicalize differs from model", case={"path": cases[i][0]}, impl=cases[i][1])
    ctx.sample({"canonicalize": {"path": cases[0][0], "impl": cases[0][1]}})

    # ---- 3b. non-ASCII paths: dot / slash look-alikes, composed / decomposed names are ordinary characters ----
    cases = []
    ulen = 6 if ctx.thorough else 5
    for n in range(1, ulen + 1):
        for t in itertools.product(UALPHA, repeat=n):
            su = "".join(t)
            o = check_one(ctx, su)
            if o is not None and (n <= 2 or rng.random() < 0.02):
                cases.append((su, o))
        ctx.evaluations += 5 ** n
        ctx.dist["exhaustive-unicode-len%d" % n] = 5 ** n
    for _ in range(2000 if ctx.thorough else 400):
        su = gen_unicode(rng)
        o = check_one(ctx, su)
        ctx.count(("unicode", su), nontrivial=len(su) > 0, kind="random-unicode")
        if o is not None and rng.random() < 0.3:
            cases.append((su, o))
    bad = mm(ctx, "run_canon", "(list Z)", [(coq(cps(su)), cps(o)) for su, o in cases])
    for i in bad[:3]:
        ctx.disagree("canonicalize differs from model on a non-ASCII path", case={"path": cases[i][0]},
                     impl=cases[i][1])
    ctx.sample({"canonicalize": {"path": "/pub/\u2025/\u2025/etc", "impl": canon("/pub/\u2025/\u2025/etc")}})

    # ---- 3b'. long paths around 255 / 256 / 1024 / 4096 / 8192 / 65536 characters, dotted names at the cut points ----
    lp = long_paths(rng, ctx.thorough)
    cases = []
    for su in lp:
        o = check_one(ctx, su)
        ctx.count(("longpath", len(su), hash(su)), kind="long-path-%d" % min(LIMITS, key=lambda L: abs(L - len(su))))
        if o is not None and len(su) <= 1100 and len(cases) < (60 if ctx.thorough else 16):
            cases.append((su, o))
    bad = mm(ctx, "run_canon", "(list Z)", [(coq(cps(su)), cps(o)) for su, o in cases], shard=8)
    for i in bad[:3]:
        ctx.disagree("canonicalize differs from model on a long path", case={"path": cases[i][0]}, impl=cases[i][1])

    # ---- 3c. the REALPATH request path of the real SFTPServer: several sessions in one process ------------
    short = ["".join(t) for n in range(0, 5) for t in itertools.product(ALPHA, repeat=n)]
    pools = [short,
             [gen_long(rng) for _ in range(400 if ctx.thorough else 80)],
             [gen_unicode(rng) for _ in range(400 if ctx.thorough else 80)],
             ["/pub/../..", "../../etc/passwd", "a/./b/../../..", "//..", "//../x", "..", ".", "", "/"],
             rng.sample(lp, min(len(lp), 64 if ctx.thorough else 16)),
             # requests with trailing fields after the path (control byte + compose-path strings, or junk)
             [(rng.choice(["/pub", "/", "", "a/b", "/pub/", "//x", "..", gen_long(rng)]), gen_trailer(rng))
              for _ in range(200 if ctx.thorough else 48)]]
    nscen = 0
    for pool in pools:
        for k in range(0, len(pool), 16):
            paths = pool[k:k + 16]
            # an overriding session is asked first, then default sessions (same strings); the same session twice;
            # and default first / override / default again
            kinds = [rng.choice(["gateway", "home"]), "default", rng.choice(["default-subclass", "default"]),
                     rng.choice(["gateway", "home"])]
            order = rng.choice([[0, 1, 1, 2, 3, 1], [1, 0, 1, 2], [3, 0, 2, 1, 1], [0, 3, 2, 2, 1]])
            paths = [pt if isinstance(pt, tuple) else
                     ((pt, gen_trailer(rng)) if rng.random() < 0.25 else (pt,)) for pt in paths]
            steps = [[i] + list(pt) for i in order for pt in paths]
            case = {"via": "realpath", "sessions": kinds, "steps": steps}
            quiet = _Quiet()
            good, _ = realpath_scenario(quiet, case)
            nscen += 1
            ctx.evaluations += len(steps)
            ctx.dist["realpath-requests"] = ctx.dist.get("realpath-requests", 0) + len(steps)
            ctx.count(("realpath", nscen, repr(paths)), kind="realpath-scenario")
            if not good:
                # minimise before reporting: one path, the shortest prefix of the session order that still fails
                best = case
                for pth in paths:
                    for cut in range(1, len(order) + 1):
                        mini = {"via": "realpath", "sessions": kinds,
                                "steps": [[i] + list(pth) for i in order[:cut]]}
                        if not realpath_scenario(_Quiet(), mini)[0]:
                            if len(mini["steps"]) < len(best["steps"]):
                                best = mini
                            break
                    if len(best["steps"]) <= 2:
                        break
                _, ans = realpath_scenario(ctx, best)
                ctx.sample({"realpath": {"case": best, "answers": ans}})
                break

    # ---- 3d. end to end: real Transport pair, real SFTPServer subsystem, SFTPClient.normalize ------------------
    wire_sessions(ctx, rng)

    # ---- 4. the library model itself: posixpath.normpath incl. relative paths ----------------------------
    cases = []
    for _ in range(1500 if ctx.thorough else 200):
        s = gen_long(rng) if rng.random() < 0.6 else "".join(rng.choice(ALPHA) for _ in range(rng.randrange(0, 9)))
        cases.append((s, posixpath.normpath(s)))
        ctx.count(("normpath", s), nontrivial=len(s) > 0, kind="normpath")
    bad = mm(ctx, "run_normpath", "(list Z)", [(coq(cps(s)), cps(o)) for s, o in cases])
    for i in bad[:3]:
        ctx.disagree("posixpath.normpath differs from the Gallina model", case={"path": cases[i][0]}, impl=cases[i][1])


def replay(ctx, rep):
    global _SI
    from paramiko.sftp_si import SFTPServerInterface
    from paramiko.server import ServerInterface
    _SI = SFTPServerInterface(ServerInterface())
    case = rep.get("case")
    if isinstance(case, dict) and case.get("via") == "wire":
        wire_sessions(ctx, ctx.rng)
        ctx.count(("replay", repr(case)))
    elif isinstance(case, dict) and case.get("via") == "realpath":
        ctx.count(("replay", repr(case)))
        ctx.count(("replay2", repr(case)))
        realpath_scenario(ctx, {k: case[k] for k in ("via", "sessions", "steps")})
    elif isinstance(case, dict) and "path" in case:
        ctx.count(("replay", case["path"]))
        ctx.count(("replay2", case["path"]))
        check_one(ctx, case["path"])
    else:
        run(ctx)
