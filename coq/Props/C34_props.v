(* C34 — the default SFTP path canonicalisation stays inside the served root.
   Property statements only; every proof is `exact <lemma from Proofs/C34_proofs.v>`.
   Paths are lists of code points; the theorems hold for every list (any characters, any
   length), over the model of posixpath.normpath in Model/C34.v. *)
From PV Require Import Bytes C34 C34_proofs.
Open Scope Z_scope.

(* the result is absolute *)
Theorem C34_absolute : forall p : list Z, exists t, canonicalize p = SLASH :: t.
Proof. exact absolute. Qed.
Print Assumptions C34_absolute.

(* splitting the result on '/' never yields a '.' or '..' component *)
Theorem C34_no_dot_components :
  forall (p : list Z) (c : comp),
    In c (split_slash (canonicalize p)) -> c <> [DOT] /\ c <> [DOT; DOT].
Proof. exact no_dot_components. Qed.
Print Assumptions C34_no_dot_components.

(* stronger: the non-empty components are ordinary names (not '.', not '..', no separator) *)
Theorem C34_components_clean :
  forall p : list Z, forallb clean (comps (canonicalize p)) = true.
Proof. exact components_clean. Qed.
Print Assumptions C34_components_clean.

(* ROOT + canonicalize(path), for every root string and every client path:
   - component-wise, the root's components are a prefix and what follows are exactly the
     components of the canonical path, all ordinary names (no '..' after the root);
   - resolving the concatenation the way the operating system walks a path ('.' stays,
     '..' goes up, names go down; symbolic links aside) ends below the directory the root
     resolves to.
   This also covers results that keep the POSIX double leading slash ("//x"): the extra
   separator adds an empty component, which names nothing. *)
Theorem C34_inside_root :
  forall root p : list Z,
    comps (root ++ canonicalize p) = comps root ++ comps (canonicalize p) /\
    forallb clean (comps (canonicalize p)) = true /\
    resolve (root ++ canonicalize p) = resolve root ++ comps (canonicalize p).
Proof. exact inside_root. Qed.
Print Assumptions C34_inside_root.

(* SLASH is the separator literal read from the source of canonicalize on every run *)
Theorem C34_separator : SLASH = 47 /\ DOT = 46.
Proof. split; reflexivity. Qed.
Print Assumptions C34_separator.

(* the REALPATH request path: a session served with the default canonicalisation answers with the canonical
   path -- absolute, ordinary names only, inside the root -- whatever any session handled before *)
Theorem C34_realpath_default :
  forall (history : list (list Z * list Z)) (root p : list Z),
  let r := realpath_reply canonicalize history p in
  r = canonicalize p /\
  (exists t, r = SLASH :: t) /\
  forallb clean (comps r) = true /\
  resolve (root ++ r) = resolve root ++ comps r.
Proof. exact realpath_default. Qed.
Print Assumptions C34_realpath_default.

(* exactly two leading slashes are kept by normpath, three or more collapse to one *)
Theorem C34_double_slash_kept :
  canonicalize [SLASH; SLASH; 120] = [SLASH; SLASH; 120] /\
  canonicalize [SLASH; SLASH; SLASH; 120] = [SLASH; 120] /\
  canonicalize [SLASH; SLASH; DOT; DOT; SLASH; 120] = [SLASH; SLASH; 120].
Proof. exact double_slash_kept. Qed.
Print Assumptions C34_double_slash_kept.

(* non-vacuity / illustration: a traversal attempt against root "/srv" *)
Example C34_example :
  (* canonicalize "a/../../../etc/./passwd" = "/etc/passwd" *)
  canonicalize [97; 47; 46; 46; 47; 46; 46; 47; 46; 46; 47; 101; 116; 99; 47; 46; 47; 112]
  = [47; 101; 116; 99; 47; 112] /\
  resolve ([47; 115; 114; 118] ++
           canonicalize [97; 47; 46; 46; 47; 46; 46; 47; 46; 46; 47; 101; 116; 99; 47; 46; 47; 112])
  = [[115; 114; 118]; [101; 116; 99]; [112]].
Proof. split; reflexivity. Qed.
