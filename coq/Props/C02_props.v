(* C02 — tampered encrypted traffic is never accepted as different data.
   Statements only; proofs are `exact <lemma>` from Proofs/C01_proofs.v / Proofs/C02_proofs.v.
   The model (Model/C01.v) is shared with C01; read_message reports, with every delivered
   message, the authenticated event `authev` (MAC input and tag, or AEAD iv/aad/ciphertext). *)
From PV Require Import Bytes C01 C01_proofs C02 C02_gen C02_proofs.
Open Scope Z_scope.

(* util.constant_time_bytes_eq, modelled literally (length test, OR of XORs), is equality *)
Theorem C02_cteq : forall a b : list Z, constant_time_bytes_eq a b = true <-> a = b.
Proof. exact cteq_iff. Qed.
Print Assumptions C02_cteq.

(* in every protected path a payload is produced (by `finish`) only after the tag comparison
   returned true / AEAD decryption succeeded, on bytes that contain the receiver's current
   sequence number (MAC modes) or are bound to its current IV (AEAD); truncated MACs are the
   tag (`mac_tag` = digest[:mac_size]); the classic path needs mac_size > 0 *)
Theorem C02_no_deliver_before_check :
  forall P r buf p ev r' rest,
    read_message P (list Z) ftake r buf = Done (p, ev, r') rest ->
    match p_mode r with
    | Plain => True
    | Classic c k =>
        0 < p_msz r ->
        exists size packet tag m',
          ev = EvMac (mac_input (p_seq r) size packet) tag /\
          constant_time_bytes_eq (mac_tag P k (p_msz r) (mac_input (p_seq r) size packet)) tag = true /\
          finish P r m' size packet ev = Ok (p, ev, r')
    | Etm c k =>
        exists size packet tag,
          ev = EvMac (mac_input (p_seq r) size packet) tag /\
          constant_time_bytes_eq (mac_tag P k (p_msz r) (mac_input (p_seq r) size packet)) tag = true /\
          finish P r (Etm (snd (c_dec P c packet)) k) size (fst (c_dec P c packet)) ev = Ok (p, ev, r')
    | Aead k iv =>
        exists aad ct pt iv',
          ev = EvAead iv aad ct /\ a_dec P k iv ct aad = Some pt /\ inc_iv iv = Ok iv' /\
          finish P r (Aead k iv') (be_decode aad) pt ev = Ok (p, ev, r')
    end.
Proof. exact deliver_inv. Qed.
Print Assumptions C02_no_deliver_before_check.

(* the honest stream is accepted: every message of a session is delivered with a non-trivial
   authenticated event (C01_roundtrip_message gives ev <> EvNone in protected modes) *)

(* the sender's MAC input is seq || the whole packet (classic: the complete plaintext packet;
   encrypt-then-MAC: every wire byte before the tag); with C02_no_deliver_before_check (the receiver
   recomputes the tag over seq || size || exactly the bytes `finish` consumes) no packet byte is
   outside the MAC *)
Theorem C02_mac_covers_packet :
  forall P s packet out m',
    encrypt_packet P s packet = Ok (out, m') ->
    match p_mode s with
    | Classic c k =>
        out = fst (c_enc P c packet) ++ mac_tag P k (p_msz s) (be_encode 4 (p_seq s) ++ packet)
    | Etm c k =>
        out = (firstn 4 packet ++ fst (c_enc P c (skipn 4 packet))) ++
              mac_tag P k (p_msz s) (be_encode 4 (p_seq s) ++ (firstn 4 packet ++ fst (c_enc P c (skipn 4 packet))))
    | _ => True
    end.
Proof. exact mac_covers_packet. Qed.
Print Assumptions C02_mac_covers_packet.

(* C02_prefix (encrypt-then-MAC and AEAD, one key epoch): for EVERY byte string T presented to a
   receiver keyed like the sender, under the symbolic premise that every tag / AEAD ciphertext it
   accepted is in the sender's log ("verifies only if the key owner produced it for exactly these
   bytes"), and the stated protocol bound that the nonces (packed seqno / IV) of the receiver states
   of the honest run are pairwise distinct (fewer than 2^32 packets per key epoch, IV counter below
   2^64: RFC 4344 requires re-keying before the wrap; C01_iv proves the IV part), the delivered
   messages are a prefix of the sent messages, after which the result is an error or NeedMore
   (FFuel only if the caller's fuel ran out).  Flips, deletions, insertions, reordering and replay
   are all instances of T. *)
Theorem C02_prefix :
  forall P cinv zinv, prims_ok P cinv zinv ->
  forall ops s r ws s',
    sync cinv zinv s r -> ops_ok cinv zinv ops -> all_msgs P ops -> send_ops P s ops = Ok (ws, s') ->
    protected r -> bytes_ok (concat ws) = true ->
    forall fuelh, (length ops < fuelh)%nat ->
    NoDup (honest_nonces P fuelh r (concat ws)) ->
    forall fuel T ps acc fi rf sf, bytes_ok T = true ->
      read_many P (list Z) ftake fuel r T = (ps, acc, fi, rf, sf) ->
      authentic (sender_log P fuelh r (concat ws)) acc ->
      is_prefix ps (payloads P ops) /\ (fi = FNeed \/ fi = FFuel \/ exists e, fi = FErr e).
Proof. exact prefix_thm. Qed.
Print Assumptions C02_prefix.

(* every delivered message's authenticated event carries the receiver's current nonce *)
Theorem C02_nonce_bound :
  forall P (r : pstate P) T p ev r' rest,
    protected r -> read_message P (list Z) ftake r T = Done (p, ev, r') rest ->
    ev_nonce ev = state_nonce r /\ protected r'.
Proof. exact nonce_delivered. Qed.
Print Assumptions C02_nonce_bound.

(* non-vacuity of the distinctness hypothesis (toy primitives, three messages, four states) *)
Example C02_nodup_example :
  NoDup (honest_nonces toyP 4 (cfg_apply (init_state 0 true) ex_cfg) ex_wire) /\
  length (honest_nonces toyP 4 (cfg_apply (init_state 0 true) ex_cfg) ex_wire) = 4%nat.
Proof. exact ex_nodup. Qed.

(* The single-step lemmas used by C02_prefix (complete statements): in a given receiver state the
   authenticated event determines the delivered payload and the next receiver state. *)
Theorem C02_aead_step :
  forall P r k iv T W p ev r' rest ph evh rh resth,
    p_mode r = Aead k iv ->
    read_message P (list Z) ftake r T = Done (p, ev, r') rest ->
    read_message P (list Z) ftake r W = Done (ph, evh, rh) resth ->
    ev = evh -> p = ph /\ r' = rh.
Proof. exact aead_step. Qed.
Print Assumptions C02_aead_step.

Theorem C02_etm_step :
  forall P r c k T W p ev r' rest ph evh rh resth,
    p_mode r = Etm c k -> bytes_ok T = true -> bytes_ok W = true ->
    read_message P (list Z) ftake r T = Done (p, ev, r') rest ->
    read_message P (list Z) ftake r W = Done (ph, evh, rh) resth ->
    ev = evh -> p = ph /\ r' = rh.
Proof. exact etm_step. Qed.
Print Assumptions C02_etm_step.

(* NOT proved: the classic (MAC-then-encrypt) instance of the multi-packet theorem C02_prefix.  Proved for that
   path: C02_no_deliver_before_check, C02_mac_covers_packet and the single-step fragment below: two deliveries
   from the same receiver state with the same authenticated event are `finish` applied to the SAME plaintext
   packet and tag.  Missing for the whole stream: (1) a byte-range law for decryption output (the length field is
   read from decrypted bytes, so size is known only modulo 2^32), (2) the induction with receiver states equal
   up to the cipher-context state (the adversary's ciphertext need not be the sender's). *)
Theorem C02_classic_step_packet_partial :
  forall P r c k T W p ev r' rest ph evh rh resth,
    p_mode r = Classic c k -> 0 < p_msz r ->
    read_message P (list Z) ftake r T = Done (p, ev, r') rest ->
    read_message P (list Z) ftake r W = Done (ph, evh, rh) resth ->
    ev = evh ->
    exists size sizeh packet tag m1 m2,
      ev = EvMac (mac_input (p_seq r) size packet) tag /\ size mod 2 ^ 32 = sizeh mod 2 ^ 32 /\
      constant_time_bytes_eq (mac_tag P k (p_msz r) (mac_input (p_seq r) size packet)) tag = true /\
      finish P r m1 size packet ev = Ok (p, ev, r') /\ finish P r m2 sizeh packet ev = Ok (ph, ev, rh).
Proof. exact classic_step_packet. Qed.
Print Assumptions C02_classic_step_packet_partial.

(* ---- source facts: coq/Gen/C02_gen.v is regenerated from paramiko/util.py and packet.py on every run by
   gen/c02.py (fail closed: it also checks that compute_hmac is one HMAC over the whole message, that both
   receiver MAC paths build pack(">II", seqno, size) + packet, truncate to mac_size, compare with
   util.constant_time_bytes_eq and raise SSHException, and the sender's MAC input) --------------------------- *)

(* the comparison function as written in util.py IS the model's constant_time_bytes_eq (hence equality, C02_cteq) *)
Theorem C02_source_cteq : forall a b, g2_cteq a b = constant_time_bytes_eq a b.
Proof. exact source2_cteq. Qed.
Print Assumptions C02_source_cteq.

Theorem C02_source_mac_layout :
  forall seq size packet,
    mac_input seq size packet =
    be_encode (Z.to_nat (nth 0 g2_mac_recv_fields 0)) seq ++ be_encode (Z.to_nat (nth 1 g2_mac_recv_fields 0)) size ++ packet
    /\ length g2_mac_recv_fields = 2%nat /\ g2_mac_send_fields = [4].
Proof. exact source2_mac_layout. Qed.
Print Assumptions C02_source_mac_layout.

(* statement order of read_message: every tag check precedes every use of the packet contents (payload slice,
   decompression, Message construction, seqno store, return); the ETM check precedes decryption *)
Theorem C02_source_order : read_order_ok g2_read_order = true.
Proof. exact source2_order. Qed.
Print Assumptions C02_source_order.

(* a tampered stream is read with the same result however it is fragmented (shared with C01) *)
Theorem C02_fragmentation :
  forall P fuel (r : pstate P) (s : list (list Z)), ne s ->
    let '(ps, evs, fi, rf, sf) := read_many P (list (list Z)) stake fuel r s in
    read_many P (list Z) ftake fuel r (concat s) = (ps, evs, fi, rf, concat sf).
Proof. exact chunked_equals_flat. Qed.
Print Assumptions C02_fragmentation.

(* non-vacuity: with the toy primitives a flipped ciphertext byte is rejected (Mismatched MAC),
   the untouched stream is delivered *)
Example C02_toy_tamper :
  let cfg := Cfg 2 8 8 5 [1;2;3;4;5;6;7;8] [9;9] 0 [] false None in
  let w := concat (fst (fst (send_many (cfg_apply (init_state 0 true) cfg) [([7;1;2], [])]))) in
  run_recv (0, true, cfg, [w]) = [3; 7; 1; 2; -1] /\
  run_recv (0, true, cfg, [firstn 6 w ++ [Z.lxor (nth 6 w 0) 1] ++ skipn 7 w]) = [-2; 1].
Proof. vm_compute. split; reflexivity. Qed.
