(* C28 — prefetched and vectored SFTP reads return exactly the file's bytes.
   Property statements only; every proof is `exact <lemma from Proofs/C28_proofs.v>`.
   The model (Model/C28.v) mirrors sftp_file.py as repaired by
   fixes/C28-prefetch-status-extent-and-empty-start.diff.  Environment = prefetch threads + wire +
   server, as labelled steps (send / register extent / deliver with a short-read choice) taken in
   any order the schedule oracles say. *)
From PV Require Import Bytes C28 C28_gen C28_proofs.
Open Scope Z_scope.

(* every buffered entry (o |-> d) equals the file's bytes at o, after any sequence of reader
   operations (read / seek / prefetch / readv) and environment steps, for every response arrival
   order and every short-read behaviour (k >= 1 per response) *)
Theorem C28_buffer_inv :
  forall (file : list Z) (acts : list action) (s s' : state),
    good file s -> Forall action_ok acts -> do_actions file s acts = Some s' ->
    good file s' /\ forall o d, In (o, d) (data s') -> d = slice file o (zlen d).
Proof. exact buffer_inv. Qed.
Print Assumptions C28_buffer_inv.

(* SFTPFile._read at realpos: a non-empty prefix of file[realpos, ...) of at most `size` bytes, or EOF
   only at or past the end of the file; never an exception, never "no data" *)
Theorem C28_read_raw :
  forall file maxreq o s size s1 r,
    good file s -> orc_ok o -> 1 <= size -> 1 <= maxreq ->
    sread file maxreq o s size = (s1, r) ->
    match r with
    | RdData d => d <> [] /\ zlen d <= size /\ d = slice file (realpos s) (zlen d)
    | RdEof => zlen file <= realpos s
    | RdBlocked => True
    | RdNone | RdRaise => False
    end.
Proof. exact read_raw. Qed.
Print Assumptions C28_read_raw.

(* BufferedFile.read(size) over it: exactly file[pos, pos+size) truncated at EOF, and the position
   advances by what was returned (OBlocked = the schedule oracle ran out while still waiting) *)
Theorem C28_read :
  forall file maxreq bufsize orcs s size s1 out,
    good file s -> Forall orc_ok orcs -> 1 <= maxreq -> 0 <= size ->
    bf_read file maxreq bufsize orcs s size = (s1, out) ->
    good file s1 /\
    (out = OBlocked \/
     (out = OData (slice file (pos s) size) /\ pos s1 = pos s + zlen (slice file (pos s) size))).
Proof. exact read_buffered. Qed.
Print Assumptions C28_read.

(* readv: for each requested (offset, length) exactly file[offset, offset+length) truncated at EOF,
   for overlapping / unordered / beyond-EOF chunk lists, whatever is already buffered or requested *)
Theorem C28_readv :
  forall file maxreq bufsize orcss s chunks cap s1 outs,
    good file s -> Forall (Forall orc_ok) orcss -> 1 <= maxreq ->
    Forall (fun c => 0 <= fst c /\ 0 <= snd c) chunks ->
    readv file maxreq bufsize orcss s chunks cap = Some (s1, outs) ->
    good file s1 /\
    Forall2 (fun c out => out = OData (slice file (fst c) (snd c)) \/ out = OBlocked) chunks outs.
Proof. exact readv_exact. Qed.
Print Assumptions C28_readv.

(* readv never asks for more than MAX_REQUEST_SIZE bytes or for an empty range *)
Theorem C28_readv_requests_bounded :
  forall maxreq d e cs rc,
    1 <= maxreq -> Forall (fun c => 0 <= fst c) cs -> readv_plan maxreq d e cs = Some rc ->
    Forall (fun c => 0 <= fst c /\ 1 <= snd c <= maxreq) rc.
Proof. exact readv_plan_bounded. Qed.
Print Assumptions C28_readv_requests_bounded.

(* C28_terminates: deadlock freedom of the reader / prefetch threads / wire interleaving.
   For every state reachable from a freshly opened file by any reader operations (read / seek /
   prefetch / readv with cap = None (0) or >= 1) and any environment steps:
   (a) while anything is outstanding (a chunk not yet requested, a request not yet registered, a reply
       not yet consumed) some environment step is enabled: the oldest reply can be dispatched (its
       extent is registered), or the registration that _async_response spins on can happen, or a
       send is enabled (a capped prefetch thread is not starved); the step leads to a reachable state
       again and consumes the measure;
   (b) every environment step, in whatever order, consumes the measure: at most `measure s` happen;
   (c) with nothing outstanding the _read_prefetch wait loop does not wait.
   Hence every maximal run of the environment is finite and ends where the reader proceeds.
   (That the real threads and the real wire take only such steps -- in particular that a reply is not
   consumed before its extent is registered, which the code ensures by spinning -- is tied by the
   direct drive and the delayed-registration runs of the harness, and by C28_source_shape.) *)
Theorem C28_terminates :
  forall file acts n s,
    Forall action_ok acts -> Forall action_caps_ok acts ->
    do_actions file (init_state n) acts = Some s ->
    (work s -> forall k, 1 <= k ->
       exists l s', env_step file s l = Some s' /\ lab_ok l /\ (measure s' < measure s)%nat /\
                    good file s' /\ live_ok s') /\
    (forall l s', env_step file s l = Some s' -> (measure s' < measure s)%nat) /\
    (prefetching s = true -> ~ work s -> forall sched, snd (wait_loop file sched s) <> WBlocked).
Proof. exact terminates. Qed.
Print Assumptions C28_terminates.

(* every answered request -- data or status -- releases its extent and sets _prefetch_done when it was
   the last one; once _prefetch_done is set the loop never blocks; _start_prefetch clears
   _prefetch_done only together with new work *)
Theorem C28_extent_release :
  (forall d e dn sv num r d' e' dn' sv',
      async_response d e dn sv num r = Some (d', e', dn', sv') ->
      dget e' num = None /\ (e' = [] -> dn' = true) /\ (length e' <= length e)%nat) /\
  (forall file sched s, pdone s = true -> snd (wait_loop file sched s) <> WBlocked) /\
  (forall s cs cap, pdone (start_prefetch s cs cap) = false ->
                    pdone s = false \/ unsent (start_prefetch s cs cap) <> []).
Proof.
  exact (conj async_releases (conj wait_done_never_blocks start_prefetch_work)).
Qed.
Print Assumptions C28_extent_release.

(* the shapes and the constant the model takes from sftp_file.py, as found in the source by gen/c28.py
   on this run (Gen/C28_gen.v): _async_response spins until the extent is registered, releases the
   extent of every answered request, stores data at the extent's offset, sets _prefetch_done when no
   extent is left, does not save an EOF status; _start_prefetch ignores an empty list and sets both
   flags; _prefetch_thread records (offset, length) under the request's number and stores nothing else;
   _prefetch_done / _prefetching are written only by __init__, _read_prefetch, _start_prefetch and (under
   _prefetch_lock) _async_response; _read_prefetch returns None whenever the position is not buffered;
   prefetch() keeps no state of its own;
   MAX_REQUEST_SIZE >= 1, and readv at the real constant *)
Theorem C28_source_shape :
  src_async_spins_until_registered = true /\ src_async_releases_extent = true /\
  src_async_stores_at_extent_offset = true /\ src_async_done_when_no_extent_left = true /\
  src_async_eof_status_not_saved = true /\ src_start_prefetch_ignores_empty = true /\
  src_start_prefetch_sets_flags = true /\ src_thread_registers_request_extent = true /\
  src_prefetch_flag_writers_pinned = true /\ src_thread_only_records_extents_under_lock = true /\
  src_read_prefetch_none_when_unbuffered = true /\ src_prefetch_keeps_no_state = true.
Proof. exact src_shape. Qed.
Print Assumptions C28_source_shape.

Theorem C28_readv_at_source_constant :
  forall file bufsize orcss s chunks cap s1 outs,
    good file s -> Forall (Forall orc_ok) orcss ->
    Forall (fun c => 0 <= fst c /\ 0 <= snd c) chunks ->
    readv file src_max_request_size bufsize orcss s chunks cap = Some (s1, outs) ->
    good file s1 /\
    Forall2 (fun c out => out = OData (slice file (fst c) (snd c)) \/ out = OBlocked) chunks outs.
Proof. exact readv_exact_src. Qed.
Print Assumptions C28_readv_at_source_constant.

(* the code before the repair (async_response_v0: a STATUS response keeps its extent): an EOF status
   leaves _prefetch_done false with nothing outstanding, and the reader then waits forever under
   every schedule; the repaired _async_response sets _prefetch_done in the same situation *)
Theorem C28_unrepaired_waits_forever_refuted :
  async_response_v0 [] [(1, (600, 10))] false false 1 REof = Some ([], [(1, (600, 10))], false, true) /\
  async_response [] [(1, (600, 10))] false false 1 REof = Some ([], [], true, false) /\
  exists s, forall file sched, snd (wait_loop file sched s) = WBlocked.
Proof.
  exact (conj (proj1 v0_reaches_stuck) (conj (proj2 v0_reaches_stuck) (ex_intro _ stuck_v0 v0_wait_forever))).
Qed.
Print Assumptions C28_unrepaired_waits_forever_refuted.

(* non-vacuity: the initial state of a freshly opened file is good; a concrete healthy oracle; and a
   concrete run (40-byte file, MAX 16: readv of overlapping / beyond-EOF chunks with short reads
   delivered out of order) *)
Example C28_example_init : forall file n, good file (init_state n).
Proof. intros. apply good_init. Qed.

Example C28_example_oracle :
  orc_ok (mkOracle [LSend 0; LReg 0; LDeliver 0 3 false] [LDeliver 1 1 false] 2 false).
Proof. repeat constructor; cbn; lia. Qed.

Example C28_example_run :
  let file := [1;2;3;4;5;6;7;8;9;10;11;12;13;14;15;16;17;18;19;20;21;22;23;24;25;26;27;28;29;30;31;32;33;34;35;36;37;38;39;40] in
  let w := [LSend 0; LReg 0; LSend 0; LReg 0; LSend 0; LReg 0; LDeliver 1 5 false; LDeliver 0 3 false; LDeliver 0 9 false] in
  let o := mkOracle w [] 4 false in
  option_map snd (readv file 16 0 [[o; o; o; o; o; o; o; o; o; o; o; o]; [o; o; o; o; o; o; o; o; o; o; o; o]; [o]] (init_state 1) [(10, 25); (30, 20); (45, 5)] 0)
  = Some [OData (slice file 10 25); OData (slice file 30 20); OData []].
Proof. vm_compute. reflexivity. Qed.

(* a reachable state with work outstanding (prefetch of a 40-byte file, MAX 16, cap 1) *)
Example C28_example_work :
  exists s, do_actions [] (init_state 1) [APrefetch 16 40 1] = Some s /\ work s /\ prefetching s = true.
Proof. eexists. split; [reflexivity|]. split; [left; discriminate|reflexivity]. Qed.
