(* C44 -- model of paramiko/auth_strategy.py AuthStrategy.authenticate.  Definitions only.

   A source is identified by an integer; what its authenticate(transport) does is an oracle
   paired with it:
     Returns v  -- returns normally with value number v (whatever the value is, even an empty
                   or falsy one: the loop sets succeeded = True)
     Raises e   -- raises exception number e, an instance of Exception (caught by the loop)
     Escapes e  -- raises a BaseException that is not an Exception (KeyboardInterrupt,
                   SystemExit...): not caught, propagates out of authenticate *)
From PV Require Import Bytes AuthShape C44_gen.
Open Scope Z_scope.

Inductive outcome := Returns (v : Z) | Raises (e : Z) | Escapes (e : Z).

Definition source := (Z * outcome)%type.

(* SourceResult(source, result): the source and the value returned / exception caught *)
Definition source_result := (Z * outcome)%type.

Inductive final :=
  | Success (overall : list source_result)          (* return overall_result *)
  | AuthFailure (overall : list source_result)      (* raise AuthFailure(result=overall_result) *)
  | Propagated (e : Z) (overall : list source_result) (tried : Z).
                                                    (* exception e left authenticate while trying `tried` *)

(* the for loop; `overall` is overall_result so far.  The generator is advanced only when the
   loop asks for the next source, so the sources after a break are never produced. *)
Fixpoint auth_loop (srcs : list source) (overall : list source_result) : final :=
  match srcs with
  | [] => AuthFailure overall                        (* loop ended with succeeded = False *)
  | (s, o) :: rest =>
      match o with
      | Returns v => Success (overall ++ [(s, o)])   (* append, then break *)
      | Raises e => auth_loop rest (overall ++ [(s, o)])
      | Escapes e => Propagated e overall s
      end
  end.

Definition authenticate (srcs : list source) : final := auth_loop srcs [].

(* the sources whose authenticate() was called, in call order *)
Definition called (f : final) : list Z :=
  match f with
  | Success ov | AuthFailure ov => map fst ov
  | Propagated _ ov s => map fst ov ++ [s]
  end.

Definition is_raise (x : source) : bool := match snd x with Raises _ => true | _ => false end.
Definition is_return (x : source) : bool := match snd x with Returns _ => true | _ => false end.

(* every source of the list raised an exception the loop catches *)
Definition all_raise (l : list source) : Prop := forallb is_raise l = true.

(* ---- the shape of the source (Gen/C44_gen.v, read off the AST by gen/c44.py) -------------- *)
(* what the hand-written loop above assumes about AuthStrategy.authenticate *)
Definition expected_loop_shape : loop_shape :=
  {| ls_single_loop := true; ls_calls_in_try := 1; ls_calls_elsewhere := 0;
     ls_catch := CatchException; ls_success_sets_flag := true; ls_handler_records_exc := true;
     ls_append_on_success := true; ls_append_on_failure := true; ls_append_is_source_result := true;
     ls_append_before_break := true; ls_break_on_success := true; ls_raise_when_none := true;
     ls_failure_carries_overall := true; ls_returns_overall := true;
     ls_overall_is_authresult_of_self := true |}.

(* "NoneAuth" -> auth_none, "Password" -> auth_password, the private key sources -> auth_publickey;
   one transport call each, its value returned, first argument self.username *)
Definition s_NoneAuth : list Z := [78;111;110;101;65;117;116;104].
Definition s_Password : list Z := [80;97;115;115;119;111;114;100].
Definition s_PrivateKey : list Z := [80;114;105;118;97;116;101;75;101;121].
Definition s_InMemoryPrivateKey : list Z := [73;110;77;101;109;111;114;121] ++ s_PrivateKey.
Definition s_OnDiskPrivateKey : list Z := [79;110;68;105;115;107] ++ s_PrivateKey.
Definition s_auth_none : list Z := [97;117;116;104;95;110;111;110;101].
Definition s_auth_password : list Z := [97;117;116;104;95;112;97;115;115;119;111;114;100].
Definition s_auth_publickey : list Z := [97;117;116;104;95;112;117;98;108;105;99;107;101;121].
Definition expected_source_facts : list source_fact :=
  [(s_NoneAuth, s_auth_none, 1, true, true); (s_Password, s_auth_password, 1, true, true);
   (s_PrivateKey, s_auth_publickey, 1, true, true); (s_InMemoryPrivateKey, s_auth_publickey, 1, true, true);
   (s_OnDiskPrivateKey, s_auth_publickey, 1, true, true)].

(* SourceResult = namedtuple("SourceResult", ["source", "result"]); AuthResult(list) keeps .strategy;
   AuthFailure(AuthenticationException) keeps .result *)
Definition expected_source_result_fields : list (list Z) :=
  [[115;111;117;114;99;101]; [114;101;115;117;108;116]].
Definition expected_auth_result_bases : list (list Z) := [[108;105;115;116]].
Definition expected_auth_failure_bases : list (list Z) :=
  [[65;117;116;104;101;110;116;105;99;97;116;105;111;110;69;120;99;101;112;116;105;111;110]].

(* SSHClient.connect: `if auth_strategy is not None: return auth_strategy.authenticate(transport=t)`,
   once, after t.start_client and before the old self._auth flow *)
Definition expected_client_glue : client_glue :=
  {| cg_calls := 1; cg_guard_is_not_none := true; cg_returns_result := true; cg_passes_transport := true;
     cg_after_start_client := true; cg_before_old_flow := true |}.

(* the loop again, but driven by a shape: which exceptions the handler catches, whether an entry
   is appended for a success / for a caught failure, whether the loop breaks on success, whether
   AuthFailure is raised when nothing succeeded.  With expected_loop_shape this is auth_loop
   (lemma auth_loop_g_expected); the correspondence run evaluates it at src_loop_shape. *)
Definition catches_exception (c : catch_kind) : bool :=
  match c with CatchException | CatchBaseException => true | _ => false end.
Definition catches_base (c : catch_kind) : bool :=
  match c with CatchBaseException => true | _ => false end.

Fixpoint auth_loop_g (sh : loop_shape) (srcs : list source) (overall : list source_result)
         (succeeded : bool) : final :=
  match srcs with
  | [] => if succeeded || negb (ls_raise_when_none sh) then Success overall else AuthFailure overall
  | (s, o) :: rest =>
      match o with
      | Returns v =>
          let ov := if ls_append_on_success sh then overall ++ [(s, o)] else overall in
          if ls_break_on_success sh then Success ov else auth_loop_g sh rest ov true
      | Raises e =>
          if catches_exception (ls_catch sh) then
            auth_loop_g sh rest (if ls_append_on_failure sh then overall ++ [(s, o)] else overall) succeeded
          else Propagated (1000 + e) overall s
      | Escapes e =>
          if catches_base (ls_catch sh) then
            auth_loop_g sh rest (if ls_append_on_failure sh then overall ++ [(s, o)] else overall) succeeded
          else Propagated e overall s
      end
  end.

(* authenticate with the shape the source has now *)
Definition authenticate_src (srcs : list source) : final := auth_loop_g src_loop_shape srcs [] false.

(* ---- canonical output for the correspondence run -------------------------- *)
Definition canon_outcome (o : outcome) : list Z :=
  match o with Returns v => [0; v] | Raises e => [1; e] | Escapes e => [2; e] end.

Definition canon_results (ov : list source_result) : list Z :=
  flat_map (fun x => fst x :: canon_outcome (snd x)) ov.

(* events: 1 s = the generator produced source s, 2 s = s.authenticate was called *)
Definition events (f : final) : list Z := flat_map (fun s => [1; s; 2; s]) (called f).

Definition run_auth (srcs : list source) : list Z :=
  let f := authenticate_src srcs in
  match f with
  | Success ov => 0 :: canon_results ov
  | AuthFailure ov => 1 :: canon_results ov
  | Propagated e ov s => [2; e]
  end ++ [-1] ++ events f.
