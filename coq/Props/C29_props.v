(* C29 - SFTP bulk transfers are exact or fail loudly.  Property statements only.
   putfo = Model/C29.v (upload path over the C30 request / reply bookkeeping). *)
From PV Require Import Bytes C30_gen C30 C30_proofs C29 C29_proofs.
Open Scope Z_scope.

(* DESIRED: putfo returns normally only if the remote file equals the source bytes.
   REFUTED on the code as it is (known finding pipelined-write-status-discarded): SFTPFile._write
   registers pipelined CMD_WRITE requests with fileobj = type(None); _finish_responses in _close is a
   no-op for them and the error STATUS is read and dropped by the next wait (CMD_CLOSE at the latest).
   With the library's own MAX_REQUEST_SIZE: one byte, its write is rejected, confirm=False. *)
Theorem C29_exact_or_raise_refuted :
  exists chunks env dest,
    putfo g_MAX_REQUEST_SIZE chunks false env handle_rp ok_rp None = (ORet, dest) /\
    dest <> concat chunks.
Proof. exact exact_or_raise_refuted_noconfirm. Qed.
Print Assumptions C29_exact_or_raise_refuted.

(* ... and confirm=True does not help when a later accepted write restores the size *)
Theorem C29_exact_or_raise_confirm_refuted :
  exists chunks env dest,
    putfo g_MAX_REQUEST_SIZE chunks true env handle_rp ok_rp None = (ORet, dest) /\
    dest <> concat chunks /\ zlen dest = zlen (concat chunks).
Proof. exact exact_or_raise_refuted_confirm. Qed.
Print Assumptions C29_exact_or_raise_confirm_refuted.

(* DESIRED: an error STATUS for a pipelined write raises no later than close().  REFUTED (same finding):
   for every status code, write() and close() both return normally - also when the rejected write is
   the buffered tail that close() itself flushes. *)
Theorem C29_rejected_write_surfaces_refuted :
  forall code,
    run true [OSetPipe true; OWrite false (g_CMD_STATUS, code); OClose [] ok_status] f_init c_init = [ORet; ORet; ORet] /\
    run true [OSetPipe true; OClose [(false, (g_CMD_STATUS, code))] ok_status] f_init c_init = [ORet; ORet].
Proof. intros code. split; [apply rejected_pipelined_write_is_silent | apply rejected_flush_write_is_silent]. Qed.
Print Assumptions C29_rejected_write_surfaces_refuted.

(* POSITIVE.  Exact or raise whenever the server accepted every write it was sent: for all chunkings of
   the source, request sizes, recv_ready() answers, and open / close / stat replies. *)
Theorem C29_exact_or_raise_accepting_server :
  forall mrs chunks confirm env open_rp close_rp stat_rp dest,
    accepted env ->
    putfo mrs chunks confirm env open_rp close_rp stat_rp = (ORet, dest) ->
    dest = concat chunks.
Proof. exact putfo_exact_if_accepted. Qed.
Print Assumptions C29_exact_or_raise_accepting_server.

(* With confirm=True (honest stat) a normal return means the remote size equals the bytes sent,
   whatever the server did to individual writes: a rejection that leaves the file short raises. *)
Theorem C29_confirm_checks_size :
  forall mrs chunks env open_rp close_rp r dest,
    putfo mrs chunks true env open_rp close_rp None = (r, dest) ->
    zlen dest <> zlen (concat chunks) -> r <> ORet.
Proof. exact putfo_confirm_short_raises. Qed.
Print Assumptions C29_confirm_checks_size.

(* Non-pipelined files (the default): in every state reachable without set_pipelined(True), a write
   the server answers with an error status raises from that very write() call. *)
Theorem C29_nonpipelined_write_surfaces :
  nonpipe_state f_init c_init /\
  (forall f c ready rp r f' c', nonpipe_state f c -> write_op true ready rp f c = (r, f', c') -> nonpipe_state f' c') /\
  (forall f c ready code, nonpipe_state f c -> code <> g_SFTP_OK ->
     exists e f' c', write_op true ready (g_CMD_STATUS, code) f c = (ORaise e, f', c')).
Proof.
  split; [exact nonpipe_init|]. split; [exact nonpipe_step_write | exact nonpipe_rejected_write_raises].
Qed.
Print Assumptions C29_nonpipelined_write_surfaces.

(* non-vacuity: an accepting server, four write requests (4 + 4 + 1 bytes, then 1 byte), confirm=True: returns with the exact bytes *)
Example C29_example :
  accepted [] /\
  putfo 4 [[1; 2; 3; 4; 5; 6; 7; 8; 9]; [10]] true [] handle_rp ok_rp None = (ORet, [1; 2; 3; 4; 5; 6; 7; 8; 9; 10]).
Proof. split; [constructor | exact putfo_example]. Qed.
