"""C36 — keys survive serialisation; new key files are private to the owner; equality/hash depend only on
public material.

Proof: coq/Props/C36_props.v over coq/Model/C36.v (public blob encoders / decoders over the C39 codec, _fields /
__eq__ / __hash__, os.open(O_CREAT|O_TRUNC, 0o600) over a permission table).
Tie: run_asbytes / run_from_blob / run_write (vm_compute) against asbytes(), the data= constructors and
write_private_key_file under varying umask / pre-existing targets.
Oracle: on real keys - public round trip (==, hash, fingerprints), private round trip with passphrases (same /
none / wrong), equality across private / public / certificate-bearing objects, file mode bits.
"""
import io
import os
import shutil
import stat
import tempfile

from common import coq

PID = "C36"
LEVEL_TEXT = ("Machine-checked proof (Coq, closed under the global context) that asbytes() decoded by the same class's "
              "constructor returns exactly the public material for every library-accepted RSA / ECDSA (incl. the "
              "deflate_long + zero-padding point encoding) / Ed25519 key, that __eq__ holds iff the public material is equal "
              "and __hash__ / __eq__ ignore the private half, certificate and comment, that a key file that did not exist "
              "gets mode 0600 & ~umask (no group/other bit for every umask), and that a pre-existing target keeps its "
              "mode; tied to the real classes by a vm_compute differential run and an oracle over real keys, "
              "passphrases, certificates, umasks and pre-existing targets.")
LEVEL_NOTE = ("PARTIAL by nature: the private-key file round trip (PEM serialisation, passphrase encryption / rejection) is "
              "the cryptography library's and is tested on real keys, not proved; library validations (RSA numbers, curve "
              "points, 32-byte Ed25519 keys) and UTF-8 decoding are oracles; compressed EC points are outside the decoder "
              "model.  A pre-existing target keeps its permissions (0644 stays 0644 and then holds the key): proved and "
              "observed; not a violation of the property's wording (not newly created).  write_private_key_file(password='' or b'') "
              "raises ValueError after creating / truncating the target (an empty 0600 file is left; the oracle only demands that nothing loadable without a passphrase is written); a missing parent directory is refused with FileNotFoundError.  Ed25519Key cannot write private keys.  "
              "The key names, RSAKey.HASHES, curve names / field sizes (gen/c35.py) and the os.open mode (gen/c36.py, which also pins by AST "
              "that every class's write_private_key_file is one call of PKey._write_private_key_file, whose only os.open has flags "
              "O_WRONLY|O_TRUNC|O_CREAT, and that the four key modules contain no other file-creating call) are regenerated from "
              "the source every run, fail-closed.  Trusted: Coq kernel + vm_compute, the hand-written model, the translators, this harness.")
TECHNIQUE = "Coq proof over C39 codec + permission-table model with AST-translated constants (gen/c35.py, gen/c36.py) + vm_compute differential correspondence + real-key oracle"


ODD_PASSPHRASES = ["cafe\u0301", "Mu\u0308nchen", "\u212bngstro\u0308m", "\ufb01sh \u2460", "a\u0308\u0323\u0301", "\u1e9b\u0323",
                   "\u00c5\u2126\ufeff", "I\u0307stanbul \u00df", b"\xff\xfe not utf-8 \x80", b"caf\xc3\xa9", b"cafe\xcc\x81"]


def synth_cert(k, nonce, tail):
    """A certificate-shaped blob for this key (type-cert, nonce, the key's own public fields, arbitrary rest): paramiko
    does not validate certificates, it only stores them (public_blob) and skips the nonce to reach the key material."""
    from paramiko.message import Message
    m = Message(k.asbytes())
    name = m.get_string()
    rest = m.get_remainder()
    return sstr(name + b"-cert-v01@openssh.com") + sstr(nonce) + rest + sstr(tail)


def equality_grid(ctx, label, k, cls, real_cert, reload_fn, others):
    """All objects standing for ONE key - private, public-only, with certificate A, with certificate B, built from the
    certificate blobs, reloaded, with a comment - must be pairwise ==, never !=, hash-equal, interchangeable in sets /
    dicts / lists; none equals an object of a DIFFERENT key, whatever certificates either side carries."""
    from paramiko.message import Message
    blob = k.asbytes()
    certA = synth_cert(k, b"nonce-A" * 4, b"principal-A")
    certB = synth_cert(k, b"nonce-B" * 4, b"principal-B, re-issued")
    objs = [("private", k), ("public-only", cls(data=blob))]
    for nm, cb in (("cert-A", certA), ("cert-B", certB)):
        o = cls(data=blob)
        o.load_certificate(Message(cb))
        objs.append((nm + "-loaded", o))
        objs.append((nm + "-built", cls(data=cb)))
    if real_cert:
        o = cls(data=blob)
        o.load_certificate(real_cert)
        objs.append(("bundled-cert", o))
    if reload_fn is not None:
        o = reload_fn()
        o.load_certificate(Message(certB))
        o.comment = "a comment"
        objs.append(("reloaded-private+cert-B", o))
    for i, (na, a) in enumerate(objs):
        for nb, b in objs[i:]:
            ctx.count(("eqgrid", label, na, nb), kind="eq-grid")
            ok = (a == b) and (b == a) and not (a != b) and hash(a) == hash(b) and (a in [b]) and (b in {a}) and ({a: 1}.get(b) == 1)
            if not ok:
                ctx.fail("eq-not-public-material:%s" % cls.__name__,
                         "two objects for the SAME key (%s vs %s) are not equal / hash-equal / interchangeable in containers: "
                         "==:%s reversed:%s hash-equal:%s" % (na, nb, a == b, b == a, hash(a) == hash(b)),
                         case={"key": label, "a": na, "b": nb, "blob": blob, "cert_a": certA, "cert_b": certB},
                         expected="equal", observed="differs")
                return
    for ol, ok_ in others:
        if ok_.asbytes() == blob:
            continue
        oc = type(ok_)(data=ok_.asbytes())
        if type(ok_) is cls:
            try:
                oc.load_certificate(Message(synth_cert(ok_, b"nonce-A" * 4, b"principal-A")))
            except Exception:   # noqa
                pass
        for na, a in objs:
            ctx.count(("neqgrid", label, ol, na), nontrivial=False, kind="eq-grid")
            if a == oc or oc == a or a == ok_ or (oc in [a]):
                ctx.fail("eq-different-keys:%s" % cls.__name__, "objects of DIFFERENT keys compare equal (%s vs %s)" % (na, ol),
                         case={"key": label, "other": ol}, expected=False, observed=True)
                return


def mm(ctx, *a, **k):
    """model evaluation guarded: a model / translator failure is reported, it never hides the oracle's findings"""
    try:
        return ctx.model_mismatches(*a, **k)
    except Exception as e:   # noqa
        ctx.disagree("model evaluation of %s failed: %s" % (a[0], str(e)[-400:]))
        return []

BUNDLED = [
    ("tests/_support/rsa.key", "RSAKey", None, "tests/_support/rsa.key-cert.pub"),
    ("tests/_support/rsa-lonely.key", "RSAKey", None, None),
    ("tests/test_rsa_password.key", "RSAKey", "television", None),
    ("tests/test_rsa_openssh.key", "RSAKey", "television", None),
    ("tests/_support/ecdsa-256.key", "ECDSAKey", None, "tests/_support/ecdsa-256.key-cert.pub"),
    ("tests/test_ecdsa_384.key", "ECDSAKey", None, None),
    ("tests/test_ecdsa_521.key", "ECDSAKey", None, None),
    ("tests/test_ecdsa_password_256.key", "ECDSAKey", "television", None),
    ("tests/_support/ed25519.key", "Ed25519Key", None, "tests/_support/ed25519.key-cert.pub"),
    ("tests/test_ed25519_password.key", "Ed25519Key", "abc123", None),
]
CURVES = {"ecdsa-sha2-nistp256": 0, "ecdsa-sha2-nistp384": 1, "ecdsa-sha2-nistp521": 2}


def enc_z(n):
    m = abs(n)
    k = (m.bit_length() - 1) // 8 + 1 if m > 0 else 1
    return [1 if n < 0 else 0, k] + list(m.to_bytes(k, "big"))


def exc_code(e):
    from paramiko.ssh_exception import SSHException
    if isinstance(e, SSHException):
        return 1
    for name, c in (("UnicodeDecodeError", 11), ("ValueError", 9), ("OverflowError", 9), ("AttributeError", 15), ("TypeError", 10),
                    ("IndexError", 8), ("KeyError", 7)):
        if any(c_.__name__ == name for c_ in type(e).__mro__):
            return c
    return 98


def pub_case(k):
    """(class, curve, a, b, pk) of a key object + canonical public material."""
    import paramiko
    if isinstance(k, paramiko.RSAKey):
        pn = k.public_numbers
        return (0, 0, pn.e, pn.n, b""), [0] + enc_z(pn.e) + enc_z(pn.n)
    if isinstance(k, paramiko.ECDSAKey):
        pn = k.verifying_key.public_numbers()
        c = CURVES[k.get_name()]
        return (1, c, pn.x, pn.y, b""), [1, c] + enc_z(pn.x) + enc_z(pn.y)
    v = k._signing_key.verify_key if k.can_sign() else k._verifying_key
    return (2, 0, 0, 0, v.encode()), [2] + list(v.encode())


def derived_ecdsa_keys(ctx):
    """ECDSA keys derived from seeded private scalars, chosen so that the x and / or y coordinate of the public
    point has leading zero byte(s): the coordinate is then shorter than the field and asbytes() must left-pad it
    (about 1 in 256 keys on P-256/384, 1 in 2 on P-521; none of the bundled keys)."""
    import paramiko
    from cryptography.hazmat.primitives.asymmetric import ec
    out = []
    for bits, curve, klen in ((256, ec.SECP256R1(), 32), (384, ec.SECP384R1(), 48), (521, ec.SECP521R1(), 66)):
        start = ctx.rng.getrandbits(bits - 16) | 1
        want = {"x-short": None, "y-short": None, "y-very-short": None, "both-short": None}
        lim1 = 1 << (8 * (klen - 1))
        lim2 = 1 << (8 * (klen - 2))
        for i in range(6000 if ctx.thorough else 2500):
            sc = start + i
            priv = ec.derive_private_key(sc, curve)
            pn = priv.public_key().public_numbers()
            tags = []
            if pn.x < lim1:
                tags.append("x-short")
            if pn.y < lim1:
                tags.append("y-short")
            if pn.y < lim2:
                tags.append("y-very-short")
            if pn.x < lim1 and pn.y < lim1:
                tags.append("both-short")
            for t in tags:
                if want[t] is None:
                    want[t] = (sc, priv)
            if want["x-short"] and want["y-short"] and (i > 1200 or (want["y-very-short"] and want["both-short"])):
                break
        seen = set()
        for t, v in sorted(want.items()):
            if v is None or v[0] in seen:
                continue
            seen.add(v[0])
            out.append(("derived-ecdsa-%d-%s-scalar-0x%x" % (bits, t, v[0]),
                        paramiko.ECDSAKey(vals=(v[1], v[1].public_key())), None))
    return out


def block_boundary_rsa_keys(ctx):
    """Generated RSA-1024 keys chosen by the length of their DER (TraditionalOpenSSL) encoding modulo the PEM cipher
    block size 16: one whose length is a multiple of 16 (the encrypted PEM then ends in a FULL block of PKCS#7
    padding) and one for each other residue met on the way (the DER length varies 606..610 with the leading bits)."""
    import paramiko
    from cryptography.hazmat.primitives import serialization as S
    out, seen = [], set()
    need = 3 if ctx.thorough else 2
    for _ in range(80):
        k = paramiko.RSAKey.generate(1024)
        n = len(k.key.private_bytes(S.Encoding.DER, S.PrivateFormat.TraditionalOpenSSL, S.NoEncryption()))
        r = n % 16
        if r not in seen and (r == 0 or len(seen - {0}) < need - 1):
            seen.add(r)
            out.append(("generated-rsa-1024-der%d-mod16-%d" % (n, r), k, None))
        if 0 in seen and len(seen) >= need:
            break
    return out


def passphrase_sequences(ctx, cls, label, text, right, expect_key, tmp):
    """A protected key file is loaded several times in ONE process with right / wrong / no passphrase, in the given
    order: every attempt must behave as if it were the only one (no state may leak between attempts)."""
    from paramiko.ssh_exception import SSHException, PasswordRequiredException
    path = os.path.join(tmp, "seq")
    open(path, "w").write(text)
    seq = ctx.rng.choice([["wrong", "right", "wrong2", None, "right", ""], ["wrong", None, "right", "wrong", "right"]]) \
        if label.endswith("wrong-first") else ["right", "wrong", "right", None, "wrong2", "right"]
    hist = []
    for step in seq:
        pw = right if step == "right" else step if step is None else (step + "-" + label[:3]) if step else ""
        try:
            k = cls.from_private_key_file(path, pw)
            got = "loaded" if expect_key is None or k == expect_key else "loaded-other-key"
        except PasswordRequiredException:
            got = "PasswordRequiredException"
        except SSHException:
            got = "SSHException"
        except Exception as e:   # noqa
            got = type(e).__name__
        want = ["loaded"] if step == "right" else ["PasswordRequiredException"] if step is None else \
            ["SSHException", "PasswordRequiredException"] if step == "" else ["SSHException"]
        hist.append((step, got))
        ctx.count(("pwseq", label, tuple(hist)), kind="passphrase-sequence")
        if got not in want:
            ctx.fail("passphrase-sequence:%s:%s-after-%s" % (cls.__name__, step, hist[-2][0] if len(hist) > 1 else "start"),
                     "loading the same protected key file repeatedly in one process: attempt %d with %s gave %s (expected %s); "
                     "history %s" % (len(hist), "the right passphrase" if step == "right" else "no passphrase" if step is None
                                     else "a wrong passphrase", got, " / ".join(want), hist),
                     case={"class": cls.__name__, "file": label, "text": text, "right": right, "sequence": seq},
                     expected=want, observed=got)
            break


def protected_files(ctx, keys):
    """(class, label, text, right passphrase, key or None): bcrypt-protected OpenSSH-format files (bundled and freshly
    made, all classes) and encrypted PEM files written by paramiko; each twice so that one copy is first attempted
    with the right and the other first with a wrong passphrase (fresh salt per copy)."""
    import paramiko
    from cryptography.hazmat.primitives.asymmetric import ec, rsa, ed25519
    from cryptography.hazmat.primitives import serialization as S
    out = []
    for rel, cls, pw in (("tests/test_ed25519_password.key", "Ed25519Key", "abc123"),
                         ("tests/test_ed25519-funky-padding_password.key", "Ed25519Key", "asdf"),
                         ("tests/test_rsa_openssh.key", "RSAKey", "television"),
                         ("tests/test_ecdsa_384_openssh.key", "ECDSAKey", "television"),
                         ("tests/test_rsa_password.key", "RSAKey", "television"),
                         ("tests/test_ecdsa_password_256.key", "ECDSAKey", "television")):
        p = os.path.join(ctx.repo, rel)
        if os.path.exists(p):
            out.append((getattr(paramiko, cls), rel + ":right-first", open(p).read(), pw, None))
    try:
        enc = lambda pw: S.PrivateFormat.OpenSSH.encryption_builder().kdf_rounds(2).build(pw)   # noqa
        enc(b"x")
    except Exception:
        enc = lambda pw: S.BestAvailableEncryption(pw)   # noqa
    for cname, gen in (("Ed25519Key", ed25519.Ed25519PrivateKey.generate), ("RSAKey", lambda: rsa.generate_private_key(65537, 1024)),
                       ("ECDSAKey", lambda: ec.generate_private_key(ec.SECP256R1()))):
        for order in ("right-first", "wrong-first"):
            pw = "pw-%d" % ctx.rng.randrange(10 ** 6)
            text = gen().private_bytes(S.Encoding.PEM, S.PrivateFormat.OpenSSH, enc(pw.encode())).decode()
            out.append((getattr(paramiko, cname), "fresh-openssh-%s:%s" % (cname, order), text, pw, None))
    for label, k, _ in keys:
        if isinstance(k, (paramiko.RSAKey, paramiko.ECDSAKey)) and label.startswith("generated") and "der" not in label:
            for order in ("right-first", "wrong-first"):
                f = io.StringIO()
                k.write_private_key(f, password="pem-pw")
                out.append((type(k), "%s-pem:%s" % (label, order), f.getvalue(), "pem-pw", k))
    return out


def write_grid(ctx, keys, tmp, old_umask):
    """write_private_key_file / write_private_key into every destination state (new file, existing file, missing
    parent directory, read-only directory) with every kind of passphrase (None, text, unicode, bytes, EMPTY str,
    EMPTY bytes) under several umasks.  Whatever the call does (return or raise): a key file that did not exist before
    and exists afterwards has no permission bit outside 0600; an existing target keeps its mode; and whenever a
    passphrase object was given (not None), nothing that was written may load as a key WITHOUT a passphrase."""
    import paramiko
    rng = ctx.rng
    signers = [(l, k) for l, k, _ in keys if isinstance(k, (paramiko.RSAKey, paramiko.ECDSAKey)) and k.can_sign()]
    picked = [next(x for x in signers if isinstance(x[1], paramiko.RSAKey)),
              next(x for x in signers if isinstance(x[1], paramiko.ECDSAKey))]
    if ctx.thorough:
        picked += signers[2:5]
    pws = [None, "x", "pässwörd☃", b"bytes-pw", "", b""]
    dests = ["new", "existing-0644", "existing-0600", "missing-parent", "missing-parents-2", "readonly-dir"]
    umasks = [0o022, 0, 0o077, 0o027, 0o002]
    n = 0
    for label, k in picked:
        cls = type(k)
        grid = [(d, pw, rng.choice(umasks)) for d in dests for pw in pws]
        grid += [("missing-parent", rng.choice(pws), um) for um in umasks] + [("new", "", um) for um in umasks]
        for dest, pw, um in grid:
            n += 1
            base = os.path.join(tmp, "grid%d" % n)
            os.mkdir(base, 0o755)
            path = os.path.join(base, "id_key")
            before = None
            if dest.startswith("existing"):
                before = int(dest[-4:], 8)
                open(path, "w").write("old contents\n")
                os.chmod(path, before)
            elif dest == "missing-parent":
                path = os.path.join(base, "nodir", "id_key")
            elif dest == "missing-parents-2":
                path = os.path.join(base, "a", "b", "id_key")
            elif dest == "readonly-dir":
                os.chmod(base, 0o555)
            case = {"key": label, "class": cls.__name__, "destination": dest, "password": repr(pw), "umask": oct(um)}
            os.umask(um)
            try:
                try:
                    k.write_private_key_file(path, password=pw)
                    outcome = "returned"
                except Exception as e:   # noqa: IOError / ValueError are legitimate refusals
                    outcome = type(e).__name__
                finally:
                    os.umask(old_umask)
            finally:
                if dest == "readonly-dir":
                    os.chmod(base, 0o755)
            ctx.count(("grid", label, dest, repr(pw), um), kind="write-grid:%s:%s" % (dest, "pw-empty" if pw in ("", b"") else
                                                                                         "pw-none" if pw is None else "pw"))
            if os.path.exists(path):
                mode = stat.S_IMODE(os.stat(path).st_mode)
                if before is None and (mode & ~0o600):
                    ctx.fail("new-key-file-mode:%s:%s" % (cls.__name__, dest.split("-")[0]),
                             "write_private_key_file(%s destination, umask %s) %s and left a NEW key file with mode %s "
                             "(bits outside 0600)" % (dest, oct(um), outcome, oct(mode)), case=case, expected="0600 & ~umask",
                             observed=oct(mode))
                if before is not None and mode != before:
                    ctx.notes.append("pre-existing target mode changed: %s -> %s" % (oct(before), oct(mode)))
                os.chmod(path, 0o600)
                check_not_plaintext(ctx, cls, k, open(path).read(), pw, outcome, case, "write_private_key_file")
                if outcome == "returned":
                    try:
                        back = cls.from_private_key_file(path, pw) == k
                    except Exception:   # noqa
                        back = False
                    if not back:
                        ctx.fail("private-roundtrip:%s" % cls.__name__, "write_private_key_file returned but the file does not load "
                                 "back with the same passphrase", case=case)
            elif outcome == "returned":
                ctx.fail("key-file-not-written:%s" % cls.__name__, "write_private_key_file returned without creating the file", case=case)
        # the file-object variant with the same passphrase grid
        for pw in pws:
            f = io.StringIO()
            try:
                k.write_private_key(f, password=pw)
                outcome = "returned"
            except Exception as e:   # noqa
                outcome = type(e).__name__
            ctx.count(("grid-fo", label, repr(pw)), kind="write-grid:file-object")
            check_not_plaintext(ctx, cls, k, f.getvalue(), pw, outcome,
                                {"key": label, "class": cls.__name__, "destination": "file-object", "password": repr(pw)}, "write_private_key")


def check_not_plaintext(ctx, cls, k, text, pw, outcome, case, api):
    """A passphrase object was given: whatever was written must not load as a key without a passphrase."""
    if pw is None or not text:
        return
    try:
        cls.from_private_key(io.StringIO(text), None)
    except Exception:   # noqa: PasswordRequiredException / SSHException: nothing usable without the passphrase
        return
    ctx.fail("plaintext-key-despite-passphrase:%s:%s" % (cls.__name__, "empty" if pw in ("", b"") else "nonempty"),
             "%s(password=%r) %s and wrote a private key that loads WITHOUT any passphrase" % (api, pw, outcome),
             case=dict(case, written=text[:120]), expected="encrypted key or refusal", observed="plaintext key")


def make_keys(ctx):
    import paramiko
    out = []
    for bits in ([1024, 2048] if ctx.thorough else [1024]):
        out.append(("generated-rsa-%d" % bits, paramiko.RSAKey.generate(bits), None))
    for bits in (256, 384, 521):
        out.append(("generated-ecdsa-%d" % bits, paramiko.ECDSAKey.generate(bits=bits), None))
    out += derived_ecdsa_keys(ctx)
    out += block_boundary_rsa_keys(ctx)
    for rel, cls, pw, cert in BUNDLED:
        if not ctx.thorough and cert is None and rel not in ("tests/test_ecdsa_384.key", "tests/test_rsa_password.key",
                                                             "tests/test_ed25519_password.key"):
            continue
        p = os.path.join(ctx.repo, rel)
        if os.path.exists(p):
            out.append((rel, getattr(paramiko, cls).from_private_key_file(p, pw),
                        os.path.join(ctx.repo, cert) if cert else None))
    return out


def sstr(b):
    return len(b).to_bytes(4, "big") + b


def blob_mutations(rng, k, blob):
    """(label, blob) decoder inputs: the genuine blob and malformed relatives."""
    import paramiko
    from paramiko.message import Message
    m = Message(blob)
    name = m.get_string()
    rest = m.get_remainder()
    out = [("genuine", blob)]
    for nm in (b"ssh-dss", b"", name + b"x", name[:-1], b"\xff" + name, name + b"\xc3", b"ssh-rsa", b"ssh-ed25519",
               b"ecdsa-sha2-nistp256", b"ecdsa-sha2-nistp384", name + b"-cert-v01@openssh.com"):
        out.append(("type:" + nm.decode("latin1")[:12], sstr(nm) + rest))
    for _ in range(3):
        out.append(("truncate", blob[:rng.randrange(len(blob))]))
    out.append(("trailing", blob + b"\x00\x01"))
    if isinstance(k, paramiko.ECDSAKey):
        cn = m.get_string()
        pt = m.get_string()
        half = (len(pt) - 1) // 2
        bad = bytearray(pt)
        bad[-1] ^= 1
        for lab, c2, p2 in [("curve-name", b"nistp999", pt), ("curve-name-other", b"nistp384" if cn != b"nistp384" else b"nistp256", pt),
                            ("curve-name-utf8", b"nistp\xff", pt), ("off-curve", cn, bytes(bad)), ("point-short", cn, pt[:-1]),
                            ("point-long", cn, pt + b"\x00"), ("point-empty", cn, b""), ("point-infinity", cn, b"\x00"),
                            ("point-prefix5", cn, b"\x05" + pt[1:]), ("point-zero", cn, b"\x04" + bytes(2 * half)),
                            ("point-ff", cn, b"\x04" + b"\xff" * (2 * half))]:
            out.append((lab, sstr(name) + sstr(c2) + sstr(p2)))
    elif isinstance(k, paramiko.RSAKey):
        e = m.get_mpint()
        n = m.get_mpint()

        def mk(e2, n2):
            mm = Message()
            mm.add_string(name)
            mm.add_mpint(e2)
            mm.add_mpint(n2)
            return mm.asbytes()
        for lab, e2, n2 in [("e-even", 4, n), ("e-one", 1, n), ("n-small", e, 15), ("n-zero", e, 0), ("negative-n", e, -n),
                            ("swapped", n, e), ("e-3", 3, n)]:
            out.append(("rsa-" + lab, mk(e2, n2)))
    else:
        pk = m.get_string()
        for lab, p2 in [("pk-short", pk[:-1]), ("pk-long", pk + b"\x00"), ("pk-empty", b""), ("pk-other", bytes(32)),
                        ("pk-flip", bytes([pk[0] ^ 1]) + pk[1:])]:
            out.append(("ed-" + lab, sstr(name) + sstr(p2)))
    return out


def decode_real(cls, blob):
    """Real constructor outcome -> (expected canonical list, exception or None)."""
    try:
        k = cls(data=blob)
    except Exception as e:   # noqa
        return [exc_code(e)], e
    return [0, 1 if k.public_blob is not None else 0] + pub_case(k)[1], None


def run(ctx):
    import paramiko
    from paramiko.message import Message
    from paramiko.ssh_exception import SSHException, PasswordRequiredException
    rng = ctx.rng
    ctx.rule = ("seeded (random.Random('C36-<seed>')): generated RSA-1024 (2048 thorough) and ECDSA P-256/384/521 keys, ECDSA keys derived from seeded private scalars searched (<= 2500 per curve) so that x / y / both coordinates have leading zero bytes on every curve, bundled "
                "RSA / ECDSA / Ed25519 private keys (PEM, encrypted, OpenSSH), the three bundled certificates; per key: asbytes vs "
                "model, ~25 decoder inputs (genuine, 11 type names incl. invalid UTF-8 and cert names, truncations, curve names, "
                "off-curve / wrong-length / degenerate points, bad RSA numbers, wrong-length Ed25519 keys, certificate blobs), "
                "RSA-1024 keys generated until the DER length is a multiple of the PEM cipher block (full PKCS#7 padding block) plus other residues, public counterparts via data= / msg= / from_type_string, an equality / hash grid over {private, public-only, certificate A / B loaded or built from the blob, bundled certificate, reloaded+comment} objects of the same key (pairwise ==, symmetric, hash-equal, set / dict / list membership) and against other keys, passphrases that change under NFC / NFD / NFKC (combining sequences, compatibility characters) and non-UTF-8 bytes (same bytes load, any normalised variant with different bytes is refused), bcrypt-protected OpenSSH files (bundled + fresh, all classes) and encrypted PEM files each loaded 5-6 times in one process with right / wrong / no passphrase in right-first and wrong-first order, write_private_key_file / write_private_key into every destination state (new, existing 0644 / 0600, missing parent directory one and two levels, read-only directory) x passphrase (None, ascii, unicode, bytes, empty str, empty bytes) x umask {022, 0, 077, 027, 002}: a new file left behind never has bits outside 0600, a given passphrase never yields a key loadable without one; private write/reload with passphrases (none, ascii, "
                "unicode, long, bytes; reload with same / none / wrong), and write_private_key_file under umasks {0, 022, 027, 077, "
                "0177, 0277, 0600, 0777, random} onto new and pre-existing (0644, 0666, 0600, 0400, 0755, random) targets")
    ctx.trusted += ["cryptography PEM serialisation / encryption, RSA number and EC point validation, nacl key length check (oracles)",
                    "os.open / umask semantics of the host file system are compared with the permission-table model on the generated cases only"]
    ctx.assumptions += ["C36_pub_roundtrip assumes ASCII names decode as UTF-8 and the library accepts the key's own numbers / point"]
    ctx.prove(gens=["c35", "c36"])
    keys = make_keys(ctx)
    as_cases, dec_cases, wr_cases = [], [], []
    tmp = tempfile.mkdtemp(prefix="verif-c36-")
    old_umask = os.umask(0o022)
    os.umask(old_umask)
    try:
        pubs = []
        for label, k, cert in keys:
            cls = type(k)
            (ci, cv, a, b, pk), canon = pub_case(k)
            blob = k.asbytes()
            as_cases.append(("(%d, %d, %s, %s, %s)" % (ci, cv, coq(a), coq(b), coq(list(pk))), [0] + list(blob), label))
            ctx.count(("asbytes", label), kind="asbytes")
            # ---- public round trip (oracle) ----
            for how, mk in (("data", lambda: cls(data=blob)), ("msg", lambda: cls(msg=Message(blob))),
                            ("from_type_string", lambda: paramiko.PKey.from_type_string(k.get_name(), blob))):
                ctx.count(("pubrt", label, how), kind="public-roundtrip")
                try:
                    p = mk()
                except Exception as e:   # noqa: the key's own public encoding must parse
                    ctx.fail("public-roundtrip:%s" % cls.__name__, "asbytes() of a key is rejected by %s: %s %s" % (
                        how, type(e).__name__, str(e)[:60]), case={"key": label, "blob": blob}, expected="equal key",
                        observed=type(e).__name__)
                    continue
                okk = (p == k and k == p and hash(p) == hash(k) and p.asbytes() == blob and p.fingerprint == k.fingerprint
                       and p.get_fingerprint() == k.get_fingerprint() and p.get_base64() == k.get_base64()
                       and p.get_name() == k.get_name() and p.get_bits() == k.get_bits() and not p.can_sign() and type(p) is cls)
                if not okk:
                    ctx.fail("public-roundtrip:%s" % cls.__name__, "asbytes() parsed back via %s is not an equal key with the same "
                             "fingerprint / hash" % how, case={"key": label, "blob": blob}, expected="equal", observed="differs")
                pubs.append((label, p))
            # ---- decoder correspondence ----
            muts = blob_mutations(rng, k, blob)
            if cert:
                cb = paramiko.pkey.PublicBlob.from_file(cert).key_blob
                muts.append(("certificate", cb))
                muts.append(("certificate-truncated", cb[:rng.randrange(40, len(cb))]))
            for mlab, mb in muts:
                exp, exc = decode_real(cls, mb)
                ctx.count(("decode", label, mb), kind="decode:" + mlab.split(":")[0])
                u8 = not isinstance(exc, UnicodeDecodeError)
                ok = True
                if exc is not None and (isinstance(exc, (ValueError, OverflowError)) and not isinstance(exc, UnicodeDecodeError) and ci == 0
                                        or ci == 1 and isinstance(exc, SSHException) and str(exc) == "Invalid public key"):
                    ok = False
                if len(mb) < 3000 and not (ci == 1 and mlab in ("point-infinity",)):
                    dec_cases.append(("(%d, %s, %s, %s)" % (ci, coq(list(mb)), coq(u8), coq(ok)), exp, {"key": label, "mutation": mlab, "blob": mb}))
                if mlab in ("genuine", "certificate") and exp[:1] != [0]:
                    ctx.fail("public-blob-rejected:%s" % cls.__name__, "the key's own public blob / certificate is rejected: %r" % exc,
                             case={"key": label, "blob": mb})
                if mlab == "certificate" and exp[:2] == [0, 1]:
                    ck = cls(data=mb)
                    if not (ck == k and hash(ck) == hash(k)):
                        ctx.fail("cert-key-not-equal:%s" % cls.__name__, "a key built from its certificate blob is not == the plain key",
                                 case={"key": label})
            # ---- equality / hash depend on public material only ----
            if cert:
                kc = cls(data=blob)
                kc.load_certificate(cert)
                kc.comment = "some comment"
                ctx.count(("certeq", label), kind="eq-hash")
                if not (kc == k and hash(kc) == hash(k) and kc.public_blob is not None and kc.asbytes() == blob):
                    ctx.fail("eq-depends-on-certificate:%s" % cls.__name__, "loading a certificate / setting a comment changes ==, hash or asbytes",
                             case={"key": label}, expected="equal", observed="differs")
            reload_fn = None
            if isinstance(k, (paramiko.RSAKey, paramiko.ECDSAKey)) and k.can_sign():
                def reload_fn(k=k, cls=cls):
                    f = io.StringIO()
                    k.write_private_key(f)
                    return cls.from_private_key(io.StringIO(f.getvalue()))
            equality_grid(ctx, label, k, cls, cert, reload_fn, [(l2, k2) for l2, k2, _ in keys if k2 is not k][:4])
            if k == None or k == blob or k != k or not (k == k):   # noqa: E711
                ctx.fail("eq-reflexive:%s" % cls.__name__, "== is not reflexive or holds against a non-key", case={"key": label})
            # ---- private round trip with passphrases ----
            if hasattr(k, "signing_key") or isinstance(k, paramiko.RSAKey):
                pws = [None, "pässwörd☃", rng.choice(["x", b"bytes-pw"])] + (["a" * 300, " ", "x", b"bytes-pw"] if ctx.thorough else [])
                # passphrases that are NOT in a Unicode normal form / are changed by NFC, NFD, NFKC or case folding, combining
                # sequences, and bytes that are not UTF-8: the bytes given when writing are the bytes needed when loading
                odd = list(ODD_PASSPHRASES)
                rng.shuffle(odd)
                pws += odd if ctx.thorough else odd[:2] + [ODD_PASSPHRASES[(len(label) + ctx.seed) % 3]]
                for pw in pws:
                    path = os.path.join(tmp, "rt")
                    if os.path.exists(path):
                        os.remove(path)
                    ctx.count(("privrt", label, repr(pw)), kind="private-roundtrip")
                    if rng.random() < 0.5:
                        k.write_private_key_file(path, password=pw)
                    else:
                        f = io.StringIO()
                        k.write_private_key(f, password=pw)
                        open(path, "w").write(f.getvalue())
                    try:
                        k2 = cls.from_private_key_file(path, pw)
                        sig = k2.sign_ssh_data(b"C36").asbytes()
                        good = (k2 == k and hash(k2) == hash(k) and k2.can_sign() and k2.fingerprint == k.fingerprint
                                and cls(data=blob).verify_ssh_sig(b"C36", Message(sig)))
                    except Exception as e:   # noqa
                        good = False
                        sig = repr(e)
                    if not good:
                        ctx.fail("private-roundtrip:%s" % cls.__name__, "a private key written out does not load back as an equal, "
                                 "signing-capable key (passphrase %r)" % (pw,), case={"key": label, "password": repr(pw)}, observed=str(sig)[:80])
                    if pw is not None:
                        attempts = [(None, PasswordRequiredException), ("wrong" if pw != "wrong" else "other", SSHException)]
                        if isinstance(pw, str):
                            import unicodedata
                            for form in ("NFC", "NFD", "NFKC"):
                                v = unicodedata.normalize(form, pw)
                                if v.encode("utf-8") != pw.encode("utf-8"):
                                    attempts.append((v, SSHException))      # a different byte string is a wrong passphrase
                        for attempt, want in attempts:
                            try:
                                cls.from_private_key_file(path, attempt)
                                got = "loaded"
                            except Exception as e:   # noqa
                                got = e
                            if not isinstance(got, want) or (attempt is not None and isinstance(got, PasswordRequiredException)):
                                ctx.fail("passphrase-not-enforced:%s" % cls.__name__,
                                         "a key written with a passphrase and loaded with %s gave %r instead of %s" % (
                                             "no passphrase" if attempt is None else "a wrong one", got, want.__name__),
                                         case={"key": label, "password": repr(pw)}, expected=want.__name__, observed=repr(got)[:80])
                # ---- file mode: new and pre-existing targets under several umasks ----
                umasks = [0, 0o022, 0o027, 0o077, 0o177, 0o277, 0o600, 0o777, rng.randrange(0o1000)]
                existing = [None, None, 0o644, 0o666, 0o600, 0o400, 0o755, rng.randrange(0o1000) | 0o200]
                for _ in range(10 if ctx.thorough else 4):
                    um = rng.choice(umasks)
                    ex = rng.choice(existing)
                    path = os.path.join(tmp, "mode")
                    if os.path.lexists(path):
                        os.chmod(path, 0o600)
                        os.remove(path)
                    if ex is not None:
                        open(path, "w").write("old" * 500)
                        os.chmod(path, ex)
                    os.umask(um)
                    try:
                        try:
                            k.write_private_key_file(path)
                        finally:
                            os.umask(old_umask)
                    except PermissionError:
                        continue          # not running as root: documented IOError
                    mode = stat.S_IMODE(os.stat(path).st_mode)
                    os.chmod(path, 0o600)
                    try:
                        back = cls.from_private_key_file(path) == k
                    except Exception:
                        back = False
                    ctx.count(("mode", label, um, ex), kind="mode:new" if ex is None else "mode:existing")
                    wr_cases.append(("(%d, %d)" % (-1 if ex is None else ex, um), [mode, 107 if back else 0],
                                     {"key": label, "umask": oct(um), "existing": None if ex is None else oct(ex)}))
                    if ex is None and (mode & 0o077 or mode & ~0o600):
                        ctx.fail("new-key-file-mode:%s" % cls.__name__, "a newly created private key file has mode %s under umask %s "
                                 "(group/other can access it)" % (oct(mode), oct(um)),
                                 case={"key": label, "umask": oct(um)}, expected="0600 & ~umask", observed=oct(mode))
                    if ex is None and not (um & 0o600) and mode != 0o600:
                        ctx.fail("new-key-file-mode:%s" % cls.__name__, "a newly created private key file has mode %s, not 0600" % oct(mode),
                                 case={"key": label, "umask": oct(um)}, expected="0o600", observed=oct(mode))
                    if ex is not None and mode != ex:
                        ctx.notes.append("pre-existing target mode changed: %s -> %s" % (oct(ex), oct(mode)))
        # ---- the same protected file loaded repeatedly in one process, right-first and wrong-first ----
        for pcls, plabel, text, right, pk in protected_files(ctx, keys):
            passphrase_sequences(ctx, pcls, plabel, text, right, pk, tmp)
        # different keys are never equal; equal hash only when equal
        for i in range(len(pubs)):
            for j in range(i + 1, len(pubs)):
                a, b = pubs[i][1], pubs[j][1]
                same = a.asbytes() == b.asbytes()
                ctx.count(("eq", i, j), nontrivial=False, kind="eq-hash")
                if (a == b) != same or (same and hash(a) != hash(b)):
                    ctx.fail("eq-not-public-material", "== / hash disagree with equality of the public blobs",
                             case={"a": pubs[i][0], "b": pubs[j][0]}, expected=same, observed=a == b)
        # ---- every destination state x passphrase (incl. empty str / bytes) x umask ----
        write_grid(ctx, keys, tmp, old_umask)
    finally:
        os.umask(old_umask)
        shutil.rmtree(tmp, ignore_errors=True)
    bad = mm(ctx, "run_asbytes", "(Z * Z * Z * Z * list Z)", [(a, b) for a, b, _ in as_cases])
    for i in bad[:3]:
        ctx.disagree("asbytes() differs from the model", case={"key": as_cases[i][2]}, impl=as_cases[i][1][:40])
    bad = mm(ctx, "run_from_blob", "(Z * list Z * bool * bool)", [(a, b) for a, b, _ in dec_cases], shard=100)
    for i in bad[:3]:
        ctx.disagree("the data= constructor differs from the model decoder", case=dec_cases[i][2], impl=dec_cases[i][1][:40])
    bad = mm(ctx, "run_write", "(Z * Z)", [(a, b) for a, b, _ in wr_cases])
    for i in bad[:3]:
        ctx.disagree("write_private_key_file's resulting mode differs from the permission-table model", case=wr_cases[i][2],
                     impl=[oct(wr_cases[i][1][0]), wr_cases[i][1][1]])
    if dec_cases:
        ctx.sample({"decode": dec_cases[1][2], "impl": dec_cases[1][1][:16]})
    if wr_cases:
        ctx.sample({"write": wr_cases[0][2], "impl": [oct(wr_cases[0][1][0]), wr_cases[0][1][1]]})


def replay(ctx, rep):
    run(ctx)
