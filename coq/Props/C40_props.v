(* C40 — SSH config lookup follows OpenSSH first-obtained-value semantics.
   Property statements only; every proof is `exact <lemma from Proofs/C40_proofs.v>`.
   Model: Model/C40.v (config.py with the repairs of fixes/C40-*.diff); the fragment is stated at
   the top of that file (structured configs — the text parser is covered by the correspondence only). *)
From Coq Require Import ZArith List Bool.
From PV Require Import Bytes Glob C40_gen C40 C40_proofs.
Import ListNotations.
Open Scope Z_scope.

(* the glob matcher (fnmatch without character classes) means what `*` and `?` mean *)
Theorem C40_glob_meaning : forall p s, glob p s = true <-> Glob p s.
Proof. exact glob_correct. Qed.
Print Assumptions C40_glob_meaning.

(* a Host block applies iff some pattern matches and no negated pattern matches *)
Theorem C40_host_block_applies :
  forall e target canonical final opts ps body,
    applies e target canonical final opts (Blk (HHost ps) body) = true <->
    (exists p, In p ps /\ glob p target = true) /\
    (forall q, In (33 :: q) ps -> glob q target = false).
Proof. exact host_block_applies. Qed.
Print Assumptions C40_host_block_applies.

(* ... and the matching pattern is a positive one when the name does not itself start with `!` *)
Theorem C40_host_patterns_positive :
  forall ps target,
    hd 0 target <> 33 ->
    (pattern_matches ps target = true <->
     (exists p, In p ps /\ negated p = None /\ glob p target = true) /\
     (forall q, In (33 :: q) ps -> glob q target = false)).
Proof. exact pattern_matches_positive. Qed.
Print Assumptions C40_host_patterns_positive.

(* Host blocks and option-independent Match criteria (all, canonical, originalhost, localuser):
   before token expansion every non-accumulating key has the value of the first block, in file
   order, that applies and sets it; HostName falls back to the name looked up *)
Theorem C40_first_obtained :
  forall e cfg host raw k,
    forallb static_block cfg = true ->
    lookup_raw e cfg host = Some raw ->
    k <> s_identityfile ->
    dget raw k =
    match first_obtained e host cfg k with
    | Some v => Some v
    | None => if zlist_eqb k s_hostname then Some (VStr host) else None
    end.
Proof. exact lookup_raw_first_obtained. Qed.
Print Assumptions C40_first_obtained.

(* the same for the final result of lookup(), for every key that has no expansion tokens *)
Theorem C40_first_obtained_final :
  forall e cfg host r k,
    forallb static_block cfg = true ->
    lookup e cfg host = Some r ->
    k <> s_identityfile ->
    allowed_tokens k = [] ->
    dget r k = first_obtained e host cfg k.
Proof. exact lookup_first_obtained_final. Qed.
Print Assumptions C40_first_obtained_final.

(* the same fragment plus `final` (criteria that depend on the pass but not on the options): the
   first block applying in the first pass that sets k, else the HostName default, else the first
   block applying in the second (final) pass that sets k — two plain `find`s over the config *)
Theorem C40_first_obtained_passes :
  forall e cfg host raw k,
    forallb optfree_block cfg = true ->
    lookup_raw e cfg host = Some raw ->
    k <> s_identityfile ->
    dget raw k =
    match first_obtained_in e host false cfg k with
    | Some v => Some v
    | None => if zlist_eqb k s_hostname then Some (VStr host) else first_obtained_in e host true cfg k
    end.
Proof. exact lookup_raw_first_obtained_passes. Qed.
Print Assumptions C40_first_obtained_passes.

(* ALL criteria except exec (all / canonical / final / host / originalhost / user / localuser, each possibly
   negated, parameters being comma lists of possibly negated patterns), closed form over the config alone.
   Match host / user only look at the HostName / User options, so applicability of a block is a
   function of the config prefix: `sel` walks the blocks carrying just those two values (as set by
   the earlier applying blocks) — no option dictionary appears in the statement.  First pass from
   (None, None); a key obtained there is kept; otherwise HostName defaults to the name looked up;
   otherwise the second (final) pass, started from the first pass's HostName (or the default) and
   User, decides.  This closes the former C40_two_pass_partial for lookups without canonicalisation;
   C40_relookup below is the same statement for both kinds of second pass, C40_canonical_plan says
   which one lookup() runs.  Match exec is outside the closed form (the command is tokenised against
   ALL options obtained so far); C40_two_pass_option_states and C40_pass_first_obtained cover it. *)
Theorem C40_two_pass :
  forall e cfg host raw k,
    forallb exec_free_block cfg = true ->
    lookup_raw e cfg host = Some raw ->
    k <> s_identityfile ->
    let sel1 := sel e host false false cfg None None in
    dget raw k =
    match sel1 k with
    | Some v => Some v
    | None =>
        if zlist_eqb k s_hostname then Some (VStr host)
        else sel e host false true cfg
                 (match sel1 s_hostname with Some h => Some h | None => Some (VStr host) end)
                 (sel1 s_user) k
    end.
Proof. exact lookup_raw_closed. Qed.
Print Assumptions C40_two_pass.

(* THE FULL STATEMENT (CanonicalizeHostname included).  lookup() = first pass under the name given,
   HostName default, then ONE second pass `relookup e cfg host t c`:
     c = false, t = host   plain final pass;
     c = true              canonical re-lookup under the canonical name t: Host patterns and
                           originalhost are matched against t, `Match canonical` passes, HostName is
                           overwritten with t (a HostName obtained in the first pass is NOT kept), every
                           other option obtained in the first pass is kept, and host / user criteria see
                           HostName = t and the User of the first pass.
   Closed form over the config alone for every key but IdentityFile (exec-free configs): *)
Theorem C40_relookup :
  forall e cfg host t (c : bool) k,
    forallb exec_free_block cfg = true ->
    k <> s_identityfile ->
    let sel1 := sel e host false false cfg None None in
    let h1 := if c then Some (VStr t)
              else match sel1 s_hostname with Some h => Some h | None => Some (VStr host) end in
    dget (relookup e cfg host t c) k =
    if zlist_eqb k s_hostname then h1
    else match sel1 k with
         | Some v => Some v
         | None => sel e t c true cfg h1 (sel1 s_user) k
         end.
Proof. exact relookup_closed. Qed.
Print Assumptions C40_relookup.

Theorem C40_relookup_identityfile :
  forall e cfg host t (c : bool),
    forallb exec_free_block cfg = true ->
    let sel1 := sel e host false false cfg None None in
    let h1 := if c then Some (VStr t)
              else match sel1 s_hostname with Some h => Some h | None => Some (VStr host) end in
    get_list (relookup e cfg host t c) s_identityfile =
    dedup_extend [] (coll e host false false cfg None None ++ coll e t c true cfg h1 (sel1 s_user)).
Proof. exact relookup_idf. Qed.
Print Assumptions C40_relookup_identityfile.

(* which second pass runs, and under which name: the result of lookup() is the expansion (under t) of
   exactly one relookup *)
Theorem C40_lookup_full_cases :
  forall e cfg host d,
    lookup_full e cfg host = Out d ->
    (plan_of e cfg host = PlanPlain /\ d = expand e host (relookup e cfg host host false)) \/
    (exists t, plan_of e cfg host = PlanCanon t /\ d = expand e t (relookup e cfg host t true)).
Proof. exact lookup_full_cases. Qed.
Print Assumptions C40_lookup_full_cases.

(* the canonical re-lookup happens only when the FIRST pass obtained CanonicalizeHostname yes/always and
   the name has at most CanonicalizeMaxDots (default 1) dots; its name is host.dom for the first of the
   first pass's CanonicalDomains under which the name resolves, or the name itself when none does
   (fallback); the decision never looks at second-pass options *)
Theorem C40_canonical_plan :
  forall e cfg host t,
    plan_of e cfg host = PlanCanon t ->
    let o1 := first_pass e cfg host in
    canon_on o1 = true /\
    (exists md, maxdots o1 = Some md /\ count_dots host <= md) /\
    exists ds, dget o1 s_canonicaldomains = Some (VStr ds) /\
      ((exists dom, In dom (split_ws ds) /\ t = host ++ 46 :: dom /\ e_resolves e t = true) \/
       (t = host /\ forall dom, In dom (split_ws ds) -> e_resolves e (host ++ 46 :: dom) = false)).
Proof. exact plan_canon_spec. Qed.
Print Assumptions C40_canonical_plan.

Theorem C40_plain_plan :
  forall e cfg host,
    plan_of e cfg host = PlanPlain ->
    let o1 := first_pass e cfg host in
    exists md, maxdots o1 = Some md /\ (canon_on o1 = false \/ md < count_dots host).
Proof. exact plan_plain_spec. Qed.
Print Assumptions C40_plain_plan.

(* lookup_full extends the canonicalisation-free lookup the theorems above speak about *)
Theorem C40_lookup_full_extends :
  forall e cfg host d, lookup e cfg host = Some d -> lookup_full e cfg host = Out d.
Proof. exact lookup_full_extends. Qed.
Print Assumptions C40_lookup_full_extends.

(* the earlier form of the same fact, through the model's intermediate option dictionaries
   (first_from threads the evolving options); kept because C40_two_pass is derived from it *)
Theorem C40_two_pass_option_states :
  forall e cfg host raw k,
    lookup_raw e cfg host = Some raw ->
    k <> s_identityfile ->
    dget raw k =
    match first_from e host false false cfg [] k with
    | Some v => Some v
    | None => if zlist_eqb k s_hostname then Some (VStr host)
              else first_from e host false true cfg (first_pass e cfg host) k
    end.
Proof. exact lookup_raw_two_pass. Qed.
Print Assumptions C40_two_pass_option_states.

(* one pass, any criteria: already obtained keys are kept, new ones come from the first block that
   applies (with the options so far) and sets them *)
Theorem C40_pass_first_obtained :
  forall e target canonical final cfg opts k,
    k <> s_identityfile ->
    dget (pass e target canonical final cfg opts) k =
    match dget opts k with
    | Some v => Some v
    | None => first_from e target canonical final cfg opts k
    end.
Proof. exact pass_get. Qed.
Print Assumptions C40_pass_first_obtained.

(* IdentityFile: the values of the applying blocks (first pass, then second pass) accumulate in
   order, each value once *)
Theorem C40_identityfile_no_dup :
  forall e cfg host raw,
    lookup_raw e cfg host = Some raw ->
    let all := collected e host false false cfg [] ++
               collected e host false true cfg (first_pass e cfg host) in
    NoDup (get_list raw s_identityfile) /\
    (forall x, In x (get_list raw s_identityfile) <-> In x all) /\
    Subseq (get_list raw s_identityfile) all.
Proof. exact identityfile_no_dup. Qed.
Print Assumptions C40_identityfile_no_dup.

(* closed form: the accumulated list is the keep-first de-duplication of the applying blocks' values,
   first pass then final pass, applicability decided as in C40_two_pass *)
Theorem C40_identityfile_accumulation :
  forall e cfg host raw,
    forallb exec_free_block cfg = true ->
    lookup_raw e cfg host = Some raw ->
    let sel1 := sel e host false false cfg None None in
    get_list raw s_identityfile =
    dedup_extend [] (coll e host false false cfg None None ++
                     coll e host false true cfg
                          (match sel1 s_hostname with Some h => Some h | None => Some (VStr host) end)
                          (sel1 s_user)).
Proof. exact identityfile_closed. Qed.
Print Assumptions C40_identityfile_accumulation.

(* HostName defaults to the looked-up name *)
Theorem C40_hostname_default :
  forall e cfg host r,
    lookup e cfg host = Some r ->
    first_from e host false false cfg [] s_hostname = None ->
    ~ In 37 host ->
    dget r s_hostname = Some (VStr host).
Proof. exact hostname_default. Qed.
Print Assumptions C40_hostname_default.

(* tokens: a value made of ordinary characters, %x tokens and ~ is expanded segment by segment —
   allowed tokens (table regenerated from config.py) by their text, everything else unchanged —
   whenever the substituted texts are themselves free of % and ~ *)
Theorem C40_tokens :
  forall e cfg target key segs,
    forallb seg_wf segs = true ->
    texts_clean e cfg target key = true ->
    tokenize e cfg target key (render segs) = flat_map (expand_seg e cfg target key) segs.
Proof. exact tokens_by_segment. Qed.
Print Assumptions C40_tokens.

(* options without tokens come out of the expansion unchanged; HostName is expanded against the
   name looked up and, being expanded first, is what %h means for every other option *)
Theorem C40_tokens_untouched :
  forall e target d k, allowed_tokens k = [] -> dget (expand e target d) k = dget d k.
Proof. exact expand_get_no_tokens. Qed.
Print Assumptions C40_tokens_untouched.

Theorem C40_tokens_hostname :
  forall e target d,
    dget (expand e target d) s_hostname =
    match dget d s_hostname with
    | Some v => Some (tok_value e d target s_hostname v)
    | None => None
    end.
Proof. exact expand_get_hostname. Qed.
Print Assumptions C40_tokens_hostname.

(* get_hostnames reports exactly the Host patterns, for any config (Match blocks included), and
   always the implicit `*` block *)
Theorem C40_get_hostnames :
  forall cfg p,
    In p (get_hostnames cfg) <-> exists b ps, In b cfg /\ b_hdr b = HHost ps /\ In p ps.
Proof. exact get_hostnames_spec. Qed.
Print Assumptions C40_get_hostnames.

Theorem C40_get_hostnames_star :
  forall global blocks, In [42] (get_hostnames (parsed global blocks)).
Proof. exact get_hostnames_star. Qed.
Print Assumptions C40_get_hostnames_star.

(* ---- the code before the repairs (fixes/C40-*.diff) violates the property --------------------- *)
Theorem C40_get_hostnames_v0_refuted :
  exists cfg, (exists b ps p, In b cfg /\ b_hdr b = HHost ps /\ In p ps) /\
              get_hostnames_v0 cfg = Raise KeyErr.
Proof. exact get_hostnames_v0_refuted. Qed.
Print Assumptions C40_get_hostnames_v0_refuted.

Theorem C40_identityfile_no_dup_v0_refuted :
  exists e cfg host x, get_list (pass_v0 e host false false cfg []) s_identityfile = [x; x].
Proof. exact identityfile_v0_refuted. Qed.
Print Assumptions C40_identityfile_no_dup_v0_refuted.

(* IdentityFile /%h set before HostName %h.x, looked up as `a`: %h is left in the result *)
Theorem C40_tokens_v0_refuted :
  exists e host d,
    d = [(s_identityfile, VList [[47;37;104]]); (s_hostname, VStr [37;104;46;120])] /\
    dget (expand_v0 e host d) s_identityfile = Some (VList [[47;37;104;46;120]]) /\
    dget (expand e host d) s_identityfile = Some (VList [[47;97;46;120]]).
Proof. exact tokens_v0_refuted. Qed.
Print Assumptions C40_tokens_v0_refuted.

(* ---- non-vacuity ------------------------------------------------------------------------------- *)
(* Host web* !web2 / User u1 ; Match originalhost web2 / User u2 ; Host * / User u3, IdentityFile k, k *)
Definition ex_cfg : list block :=
  parsed []
    [Blk (HHost [[119;101;98;42]; [33;119;101;98;50]]) [(s_user, [117;49])];
     Blk (HMatch [Crit COrigHost false [119;101;98;50]]) [(s_user, [117;50])];
     Blk (HHost [[42]]) [(s_user, [117;51]); (s_identityfile, [107]); (s_identityfile, [107])]].

Example C40_example_static :
  forallb static_block ex_cfg = true /\
  (exists raw, lookup_raw ex_env ex_cfg [119;101;98;49] = Some raw /\
               dget raw s_user = Some (VStr [117;49]) /\ get_list raw s_identityfile = [[107]]) /\
  (exists r, lookup ex_env ex_cfg [119;101;98;50] = Some r /\ dget r s_user = Some (VStr [117;50]) /\
             dget r s_hostname = Some (VStr [119;101;98;50])) /\
  first_from ex_env [119;101;98;50] false false ex_cfg [] s_hostname = None /\
  allowed_tokens s_user = [].
Proof.
  split; [reflexivity|]. split; [eexists; split; [vm_compute; reflexivity|split; reflexivity]|].
  split; [eexists; split; [vm_compute; reflexivity|split; reflexivity]|]. split; reflexivity.
Qed.

(* Host a / HostName b ; Match host b / User u ; Match final user u / Port 5 ; Match host a / Port 6 :
   looking up `a`: the Match host sees HostName b, the final pass sees User u *)
Definition ex_cfg2 : list block :=
  parsed []
    [Blk (HHost [[97]]) [(s_hostname, [98])];
     Blk (HMatch [Crit CHost false [98]]) [(s_user, [117])];
     Blk (HMatch [Crit CFinal false []; Crit CUser false [117]]) [(s_port, [53])];
     Blk (HMatch [Crit CHost false [97]]) [(s_port, [54])]].

Example C40_example_two_pass :
  exists raw, lookup_raw ex_env ex_cfg2 [97] = Some raw /\
              dget raw s_user = Some (VStr [117]) /\ dget raw s_port = Some (VStr [53]) /\
              sel ex_env [97] false false ex_cfg2 None None s_port = None /\
              forallb optfree_block ex_cfg2 = false.
Proof. eexists. split; [vm_compute; reflexivity|]. repeat split; reflexivity. Qed.

(* CanonicalizeHostname yes / CanonicalDomains x.y lan ; Host a / HostName b ; Match canonical host a.lan / User c ;
   `a.lan` resolves: looking up `a` re-looks-up as a.lan, HostName b of the first pass is overwritten *)
Definition ex_env3 : env :=
  Env [97;108] [98] [98] [47;104] toyhash (fun n => zlist_eqb n [97;46;108;97;110]) exec_stub.
Definition ex_cfg3 : list block :=
  parsed [(s_canonicalizehostname, s_yes); (s_canonicaldomains, [120;46;121;32;108;97;110])]
    [Blk (HHost [[97]]) [(s_hostname, [98])];
     Blk (HMatch [Crit CCanonical false []; Crit CHost false [97;46;108;97;110]]) [(s_user, [99])]].

Example C40_example_canonical :
  plan_of ex_env3 ex_cfg3 [97] = PlanCanon [97;46;108;97;110] /\
  forallb exec_free_block ex_cfg3 = true /\
  exists d, lookup_full ex_env3 ex_cfg3 [97] = Out d /\
            dget d s_hostname = Some (VStr [97;46;108;97;110]) /\ dget d s_user = Some (VStr [99]).
Proof.
  split; [vm_compute; reflexivity|]. split; [reflexivity|].
  eexists. split; [vm_compute; reflexivity|]. split; reflexivity.
Qed.

(* ~/.ssh/%h-%p under identityfile (where %p is not allowed) *)
Example C40_example_tokens :
  let segs := [Tilde; Ch 47; Tok 104; Ch 45; Tok 112] in
  forallb seg_wf segs = true /\
  texts_clean ex_env [(s_hostname, VStr [120;46;121])] [97] s_identityfile = true /\
  tokenize ex_env [(s_hostname, VStr [120;46;121])] [97] s_identityfile (render segs) =
  [47;104;47;120;46;121;45;37;112].
Proof. cbv zeta. split; [reflexivity|]. split; vm_compute; reflexivity. Qed.
