"""C17 — client credentials are only sent to a verified, accepted server.

Proof: coq/Props/C17_props.v over coq/Model/C17.v (state machine of the client's run loop + auth_X guard
for arbitrary peers and interleavings; Transport.connect / SSHClient.connect as sequential programs over
C41's known-hosts model); gen/c17.py re-checks on every run, on the AST, the orderings the model assumes.
Tie: real loopback sessions (tests/_loop.LoopSocket) with recording packetizers on both sides and a byte tap
on the client's socket: honest and misbehaving servers (out-of-order NEWKEYS / SERVICE_ACCEPT /
USERAUTH_SUCCESS / IGNORE / unknown type before, during and after the key exchange, a host key signature
over other data), auth_X attempted from another thread at every lifecycle point (the transport thread is
parked inside a hook, so the point is exact), Transport.connect(hostkey=...) and SSHClient.connect(sock=...)
over known_hosts contents x policies x ports; the observed client events / outcomes are compared with the
model's run (vm_compute) on the same scripts.
Search oracle: what the SERVER decoded (plaintext SERVICE_REQUEST / USERAUTH_REQUEST payloads) and what
travelled on the raw socket, against the property stated directly.
"""
import threading
import time
import warnings

from common import coq, with_watchdog

PID = "C17"
LEVEL_TEXT = ("Machine-checked proof (Coq, closed under the global context) over an executable model of the "
              "client's message loop and auth_X guard that for every peer behaviour and every interleaving of user "
              "calls a credential-bearing USERAUTH_REQUEST (and the SERVICE_REQUEST before it) is emitted only "
              "after host-key signature verification, installation of the outbound keys and the inbound NEWKEYS, "
              "in this order; that Transport.connect and SSHClient.connect authenticate only after the host key "
              "matched the given / stored one or the missing-host-key policy accepted, and send nothing on a "
              "mismatch or rejection.  Tied to the source by AST ordering checks and a scripted differential run "
              "against real loopback sessions.")
LEVEL_NOTE = ("Trusted: Coq kernel + vm_compute; hand-written model coq/Model/C17.v validated by the correspondence "
              "run; interleaving is at message granularity (each handler runs to completion on the transport "
              "thread, the guard reads two flags) - finer thread timing is outside the model and is exercised only "
              "by parking the transport thread at hook points; the key exchange itself is abstracted to the outcome "
              "of _verify_key (C06/C07); a NEGOTIATED GSS-API key exchange is exempt from host key checking as in the code (never driven: no GSS-API here), a merely advertised one is not (driven); "
              "multi-step (group-exchange) kex is modelled but not driven.")
TECHNIQUE = "Coq proof (invariant + trace monitor over an event-driven state machine) + AST ordering checks + scripted loopback differential"

GENS = ["c41", "c17"]       # the model imports coq/Model/C41.v, which has its own generated tables

PASSWORD = "pw-C17-s3cr3t-éè"
USER = "user17"
CERT = "-cert-v01@openssh.com"


class World:
    pass


def build_world(ctx):
    import os
    import paramiko
    w = World()
    t = os.path.join(ctx.repo, "tests")
    sup = os.path.join(t, "_support")
    w.paramiko = paramiko
    w.repo = ctx.repo
    w.rsa = paramiko.RSAKey.from_private_key_file(os.path.join(sup, "rsa.key"))
    w.rsa2 = paramiko.RSAKey.generate(1024)      # "another key of the same type" (only equality matters)
    w.ed = paramiko.Ed25519Key.from_private_key_file(os.path.join(sup, "ed25519.key"))
    w.p256 = paramiko.ECDSAKey.from_private_key_file(os.path.join(sup, "ecdsa-256.key"))
    w.near_miss = near_miss_keys(paramiko, w.rsa)
    from paramiko.message import Message
    w.Message = Message
    return w


def near_miss_keys(paramiko, known):
    """RSA keys (with private halves, so a server can really sign with them) that differ from `known` but that a
    comparison weaker than 'same key blob' takes for it: a modulus congruent to the known one modulo the
    interpreter's hash modulus (equal Python hash of every field), and the same modulus with another exponent."""
    import random
    import sys as _sys
    from math import gcd
    from cryptography.hazmat.primitives.asymmetric import rsa
    rng = random.Random("C17-near-miss")
    n, e = known.public_numbers.n, known.public_numbers.e
    M = _sys.hash_info.modulus

    def is_prime(x):
        for sp in (2, 3, 5, 7, 11, 13, 17, 19, 23, 29, 31, 37):
            if x % sp == 0:
                return x == sp
        d, r = x - 1, 0
        while d % 2 == 0:
            d //= 2
            r += 1
        for _ in range(24):
            y = pow(rng.randrange(2, x - 1), d, x)
            if y in (1, x - 1):
                continue
            for _ in range(r - 1):
                y = pow(y, 2, x)
                if y == x - 1:
                    break
            else:
                return False
        return True

    def build(p, q, e_, n_):
        d = pow(e_, -1, (p - 1) * (q - 1))
        return paramiko.RSAKey(key=rsa.RSAPrivateNumbers(p, q, d, d % (p - 1), d % (q - 1), pow(q, -1, p),
                                                         rsa.RSAPublicNumbers(e_, n_)).private_key())

    out = {}
    half = max(256, known.get_bits() // 2)
    while "rsa-hash-collider" not in out:
        p = rng.getrandbits(half) | (1 << (half - 1)) | 1
        if not is_prime(p) or gcd(e, p - 1) != 1 or p % M == 0:
            continue
        q = (n % M) * pow(p, -1, M) % M + (rng.getrandbits(half - 61) | (1 << (half - 62))) * M
        for _ in range(4000):
            if q % 2 and gcd(e, q - 1) == 1 and is_prime(q):
                break
            q += M
        else:
            continue
        if (p * q) % M == n % M and p * q != n:
            out["rsa-hash-collider"] = build(p, q, e, p * q)
    pn = known.key.private_numbers()
    for e2 in (65537, 257, 17):
        if e2 != e and gcd(e2, (pn.p - 1) * (pn.q - 1)) == 1:
            out["rsa-other-exponent"] = build(pn.p, pn.q, e2, n)
            break
    return out


# --------------------------------------------------------------------------
# recording pieces


def make_classes(w):
    p = w.paramiko
    from paramiko.packet import Packetizer
    from _loop import LoopSocket

    class TapSocket(LoopSocket):
        """client socket: remembers every byte the client wrote"""

        def __init__(self):
            LoopSocket.__init__(self)
            self.tap = bytearray()

        def send(self, data):
            self.tap += bytes(data)
            return LoopSocket.send(self, data)

    def rec_packetizer(log):
        class RecPacketizer(Packetizer):
            def send_message(self, data):
                log.append(("tx", bytes(data.asbytes() if hasattr(data, "asbytes") else data)))
                return Packetizer.send_message(self, data)

            def read_message(self):
                ptype, m = Packetizer.read_message(self)
                log.append(("rx", bytes([ptype]) + bytes(m.asbytes())))
                return ptype, m

        return RecPacketizer

    class Srv(p.ServerInterface):
        def __init__(self):
            self.seen = []

        def check_auth_password(self, username, password):
            self.seen.append(("password", username, password))
            return p.AUTH_SUCCESSFUL if password == PASSWORD else p.AUTH_FAILED

        def check_auth_publickey(self, username, key):
            self.seen.append(("publickey", username))
            return p.AUTH_SUCCESSFUL

        def check_auth_none(self, username):
            self.seen.append(("none", username))
            return p.AUTH_FAILED

        def get_allowed_auths(self, username):
            return "password,publickey"

    class BadSigKey(p.RSAKey):
        """signs other data than it is given: the client's _verify_key must fail"""

        def sign_ssh_data(self, data, algorithm=None):
            return p.RSAKey.sign_ssh_data(self, b"not the exchange hash" + data, algorithm)

    class ScriptServer(p.Transport):
        """a server that can inject one extra message around its KEXINIT"""
        c17_inject = None       # (when, ptype)

        def _send_kex_init(self):
            inj = self.c17_inject
            if inj and inj[0] == "before-kexinit":
                self._send_message(raw_msg(w, inj[1]))
            p.Transport._send_kex_init(self)
            if inj and inj[0] == "after-kexinit":
                self._send_message(raw_msg(w, inj[1]))

    class HookClient(p.Transport):
        """client whose transport thread can be parked at exact lifecycle points"""
        c17_hook = None         # callable(point)
        c17_obs = None          # shared list

        def _point(self, name):
            if self.c17_hook is not None:
                self.c17_hook(self, name)

        c17_kex = None          # name of the NEGOTIATED kex algorithm
        c17_peer_kex = ()       # kex names the peer ADVERTISED

        def _parse_kex_init(self, m):
            r = p.Transport._parse_kex_init(self, m)
            eng = type(self.kex_engine)
            names = sorted(k for k, v in self._kex_info.items() if v is eng)
            self.c17_kex = ("gss:" if eng.__module__.endswith("kex_gss") else "") + (names[0] if names else eng.__name__)
            try:
                self.c17_peer_kex = tuple(w.Message(bytes(self.remote_kex_init)[17:]).get_list())
            except Exception:
                pass
            return r

        def _negotiate_keys(self, m):
            self._point("kexinit")
            return p.Transport._negotiate_keys(self, m)

        def _verify_key(self, host_key, sig):
            self._point("pre-verify")
            p.Transport._verify_key(self, host_key, sig)
            self.c17_obs.append("V")
            self._point("post-verify")

        def _parse_newkeys(self, m):
            self._point("pre-newkeys-in")
            p.Transport._parse_newkeys(self, m)
            self.c17_obs.append("I")

        def run(self):
            try:
                p.Transport.run(self)
            finally:
                self.c17_obs.append("D")

    w.TapSocket, w.rec_packetizer, w.Srv = TapSocket, rec_packetizer, Srv
    w.BadSigKey, w.ScriptServer, w.HookClient = BadSigKey, ScriptServer, HookClient


def raw_msg(w, ptype):
    m = w.Message()
    m.add_byte(bytes([ptype]))
    if ptype == 6:
        m.add_string("ssh-userauth")
    elif ptype == 2:
        m.add_string("ignored")
    return m


NET = {21: "NNewKeys", 6: "NServiceAccept", 52: "NAuthOther", 2: "NIgnore", 192: "NUnknown", 4: "NDebug"}
CRED = {"none": "CNone", "password": "CPassword", "publickey": "CPublickey", "keyboard-interactive": "CInteractive"}
CRED_CODE = {"CNone": 0, "CPassword": 1, "CPublickey": 2, "CInteractive": 3}


class Session:
    """one loopback connection with full recording"""

    def __init__(self, w, host_key=None, inject=None, client_cls=None, client_kwargs=None, advertise=None):
        p = w.paramiko
        self.w = w
        self.csock, self.ssock = w.TapSocket(), w.TapSocket()
        self.csock.link(self.ssock)
        self.clog, self.slog = [], []
        self.obs = []           # client events in the model's vocabulary, in order
        self.srv = w.Srv()
        self.ts = w.ScriptServer(self.ssock, packetizer_class=w.rec_packetizer(self.slog), server_sig_algs=False)
        self.ts.c17_inject = inject
        if advertise:
            # the server's KEXINIT lists extra kex names (it cannot run them; they are never negotiated)
            self.ts._preferred_kex = tuple(self.ts._preferred_kex) + tuple(advertise)
            # (the server validates its own list against _kex_info when it has no moduli)
            info = dict(self.ts._kex_info)
            for n in advertise:
                info.setdefault(n, info["diffie-hellman-group14-sha256"])
            self.ts._kex_info = info
        self.ts.add_server_key(host_key or w.rsa)
        cls = client_cls or w.HookClient
        self.tc = cls(self.csock, packetizer_class=self._client_packetizer(), **(client_kwargs or {}))
        self.tc.c17_obs = self.obs
        self.ev = threading.Event()

    def _client_packetizer(self):
        base = self.w.rec_packetizer(self.clog)
        obs = self.obs

        class ClientRec(base):
            def send_message(self, data):
                b = bytes(data.asbytes() if hasattr(data, "asbytes") else data)
                t = b[0]
                if t == 21:
                    obs.append("O")
                elif t == 5:
                    obs.append("S")
                elif t == 50:
                    obs.append(("U", userauth_method(b)))
                elif t == 3:
                    obs.append("N")
                return base.send_message(self, data)

        return ClientRec

    def start_server(self):
        self.ts.start_server(self.ev, self.srv)

    def close(self):
        for t in (self.tc, self.ts):
            try:
                t.close()
            except Exception:
                pass
        for t in (self.tc, self.ts):
            t.join(5)

    # what the SERVER decoded
    def server_saw(self, ptype):
        return [b for d, b in self.slog if d == "rx" and b[:1] == bytes([ptype])]

    def wait_client_rx(self, ptype, n=1, timeout=5.0):
        t0 = time.time()
        while time.time() - t0 < timeout:
            if len([1 for d, b in self.clog if d == "rx" and b[:1] == bytes([ptype])]) >= n or not self.tc.active:
                return True
            time.sleep(0.005)
        return False

    def wait_dead(self, timeout=5.0):
        self.tc.join(timeout)
        return not self.tc.is_alive()


def userauth_method(b):
    from paramiko.message import Message
    m = Message(b[1:])
    m.get_text()
    m.get_text()
    return m.get_text()


def try_auth(w, tc, method, obs):
    """auth_X from another thread; appends ONoSession when the guard refuses.  Returns outcome text."""
    p = w.paramiko

    def call():
        if method == "password":
            return tc.auth_password(USER, PASSWORD)
        if method == "publickey":
            return tc.auth_publickey(USER, w.rsa2)
        if method == "none":
            return tc.auth_none(USER)
        if method == "keyboard-interactive":
            return tc.auth_interactive(USER, lambda *a: [PASSWORD])
        raise ValueError(method)

    st, v = with_watchdog(call, 8)
    if st == "exc" and isinstance(v, p.SSHException) and "No existing session" in str(v):
        obs.append("X")
        return "no-session"
    if st == "hang":
        return "hang"
    if st == "exc":
        return "exc:" + type(v).__name__
    return "ok"


def canon_obs(obs):
    out = []
    for o in obs:
        if o == "V":
            out += [1]
        elif o == "O":
            out += [2]
        elif o == "I":
            out += [3]
        elif o == "S":
            out += [4]
        elif isinstance(o, tuple):
            out += [5, CRED_CODE[CRED[o[1]]]]
        elif o == "X":
            out += [6]
        elif o == "N":
            out += [7]
        elif o == "D":
            out += [8]
    return out


# --------------------------------------------------------------------------
# 1. lifecycle / misbehaving-server scripts

POINTS = ["before-start", "kexinit", "pre-verify", "post-verify", "pre-newkeys-in", "after-handshake", "after-close"]
MODEL_POINTS = {"kexinit": 0, "pre-verify": 1, "pre-newkeys-in": 2}      # index in the honest net script


def run_script(ctx, w, sc):
    """sc: dict(pre=(when, ptype)|None, badsig=bool, point=str|None, methods=[...], post=ptype|None,
    final=method|None).  Returns (events for the model | None, observed canon trace, session facts)."""
    p = w.paramiko
    s = Session(w, host_key=(w.BadSigKey(key=w.rsa.key) if sc["badsig"] else None), inject=sc["pre"])
    facts = {"attempts": []}
    parked = []

    def hook(tc, name):
        if name == sc["point"]:
            parked.append(name)
            for m in sc["methods"]:
                facts["attempts"].append((name, m, try_auth(w, tc, m, s.obs)))

    s.tc.c17_hook = hook
    events = []
    try:
        if sc["point"] == "before-start":
            for m in sc["methods"]:
                facts["attempts"].append(("before-start", m, try_auth(w, s.tc, m, [])))
        s.start_server()
        st, v = with_watchdog(lambda: s.tc.start_client(timeout=15), 25)
        facts["start"] = st if st != "exc" else "exc:" + type(v).__name__
        handshake_ok = st == "ok" and s.tc.initial_kex_done
        # ---- the script in the model's vocabulary ----
        net = []
        if sc["pre"] and sc["pre"][0] == "before-kexinit":
            net.append(("N", NET[sc["pre"][1]]))
        net.append(("N", "(NKexInit true)"))
        if sc["pre"] and sc["pre"][0] == "after-kexinit":
            net.append(("N", NET[sc["pre"][1]]))
        net.append(("N", "(NKex true %s)" % ("false" if sc["badsig"] else "true")))
        net.append(("N", "NNewKeys"))
        if sc["point"] in MODEL_POINTS and not sc["pre"]:
            idx = MODEL_POINTS[sc["point"]]
            ins = [("U", "(UAuth %s)" % CRED[m]) for m in sc["methods"]]
            net = net[:idx] + ins + net[idx:]
        if sc["point"] == "after-close":
            s.tc.close()
            s.wait_dead()
            for m in sc["methods"]:
                facts["attempts"].append(("after-close", m, try_auth(w, s.tc, m, s.obs)))
        if sc["post"] is not None and handshake_ok:
            s.ts._send_message(raw_msg(w, sc["post"]))
            s.wait_client_rx(sc["post"])
            if sc["post"] == 21:
                s.wait_dead()
            else:
                time.sleep(0.05)     # let the handler finish (UNIMPLEMENTED reply, if any)
            net.append(("N", NET[sc["post"]]))
        if not handshake_ok:
            s.wait_dead()
        if sc["point"] == "after-handshake":
            for m in sc["methods"]:
                # each guard refusal is a user event; successful ones are driven by `final`
                pass
        if sc["final"]:
            out = try_auth(w, s.tc, sc["final"], s.obs)
            facts["final"] = out
            net.append(("U", "(UAuth %s)" % CRED[sc["final"]]))
            if out == "ok" or out.startswith("exc:"):
                # the server answered SERVICE_ACCEPT, then a USERAUTH reply
                net.append(("N", "NServiceAccept"))
                net.append(("N", "NAuthOther"))
        facts["server_service_requests"] = len(s.server_saw(5))
        facts["server_userauth"] = [userauth_method(b) for b in s.server_saw(50)]
        facts["server_callbacks"] = list(s.srv.seen)
        facts["kex_done"] = bool(s.tc.initial_kex_done)
        facts["obs"] = list(s.obs)
        tap = bytes(s.csock.tap)
        facts["password_in_clear"] = PASSWORD.encode("utf-8") in tap or PASSWORD.encode("utf-8")[:8] in tap
        # position of the first SERVICE_REQUEST / USERAUTH_REQUEST among what the server decoded
        rx = [b[0] for d, b in s.slog if d == "rx"]
        facts["server_rx_types"] = rx
        model_ok = sc["point"] in (None, "before-start", "after-handshake", "after-close") or \
            (sc["point"] in MODEL_POINTS and not sc["pre"])
        if sc["point"] == "after-close":
            model_ok = False        # UClose is a user event racing the loop; oracle only
        if model_ok:
            events = "[" + ";".join(("EvNet " if k == "N" else "EvUser ") + v for k, v in net) + "]"
        else:
            events = None
        obs = [o for o in s.obs]
        if handshake_ok and not (sc["post"] == 21):
            # a live transport: its thread has not ended; drop nothing.  (D only appears when it died.)
            pass
        return events, canon_obs(obs), facts
    finally:
        s.close()


def check_script_property(ctx, sc, facts):
    """The property over the server's view and the wire."""
    case = {k: v for k, v in sc.items()}
    rx = facts["server_rx_types"]
    # (a) the server decoded SERVICE_REQUEST / USERAUTH_REQUEST only after it decoded NEWKEYS
    for i, t in enumerate(rx):
        if t in (5, 50) and 21 not in rx[:i]:
            ctx.fail("userauth-before-newkeys", "the server received SERVICE_REQUEST / USERAUTH_REQUEST before NEWKEYS",
                     case=case, expected="nothing before NEWKEYS", observed=rx)
    # (b) every auth attempt made before the handshake finished (or after close) was refused, sent nothing
    for point, m, out in facts["attempts"]:
        if point != "after-handshake" and out != "no-session":
            ctx.fail("auth-guard-missing:%s" % m,
                     "auth_%s at lifecycle point %r did not raise 'No existing session'" % (m, point),
                     case=dict(case, point=point, method=m), expected="SSHException(No existing session)",
                     observed=out)
    # (c) a server whose signature is bad / that broke the message order never gets a credential
    if sc["badsig"] or sc["pre"]:
        if facts["server_userauth"] or facts["server_service_requests"] or facts["server_callbacks"]:
            ctx.fail("credentials-to-unverified-server",
                     "a server that failed host key verification / message order received an auth request",
                     case=case, expected="nothing", observed=facts["server_userauth"])
        if facts["kex_done"]:
            ctx.fail("kex-done-without-verification", "initial_kex_done set although the key exchange was broken",
                     case=case, expected=False, observed=True)
    # (d) the password never travels in clear
    if facts["password_in_clear"]:
        ctx.fail("password-in-plaintext", "the password appears in the raw byte stream written by the client",
                 case=case, expected="ciphertext only", observed="plaintext password on the socket")
    # (e) honest flow still works
    if not sc["badsig"] and not sc["pre"] and sc["post"] in (None, 2, 192, 6, 52) and sc["final"] == "password" \
            and sc["point"] != "after-close":
        if facts.get("final") != "ok" or ("password", USER, PASSWORD) not in facts["server_callbacks"]:
            ctx.fail("honest-auth-failed", "password authentication against an honest server failed",
                     case=case, expected="authenticated", observed=facts.get("final"))


def lifecycle_scripts(ctx):
    methods_all = ["password", "publickey", "none", "keyboard-interactive"]
    scs = []
    # auth at every lifecycle point of an honest handshake (all four methods), then a real auth
    for point in POINTS:
        scs.append(dict(pre=None, badsig=False, point=point, methods=methods_all, post=None,
                        final=None if point == "after-close" else "password"))
    # misbehaving servers
    pres = [(when, t) for when in ("before-kexinit", "after-kexinit") for t in (21, 6, 52, 2, 192)]
    if not ctx.thorough:
        pres = [x for x in pres if ctx.rng.random() < 0.6] or pres[:2]
    for pre in pres:
        scs.append(dict(pre=pre, badsig=False, point=None, methods=[], post=None, final="password"))
    scs.append(dict(pre=None, badsig=True, point=None, methods=[], post=None, final="password"))
    scs.append(dict(pre=None, badsig=True, point="post-verify", methods=methods_all, post=None, final="publickey"))
    # stray messages after the handshake
    for post in (21, 6, 52, 2, 192):
        scs.append(dict(pre=None, badsig=False, point=None, methods=[], post=post, final="password"))
    # other final methods
    for m in ("publickey", "none"):
        scs.append(dict(pre=None, badsig=False, point=None, methods=[], post=None, final=m))
    return scs


# --------------------------------------------------------------------------
# 2. Transport.connect(hostkey=...)


def tconnect_cases(ctx, w):
    p = w.paramiko
    rows = []
    keyid = {"rsa": (1, 5), "rsa2": (1, 6), "ed": (2, 7), "p256": (3, 8)}
    keys = {"rsa": w.rsa, "rsa2": w.rsa2, "ed": w.ed, "p256": w.p256}
    for expected in (None, "rsa", "rsa2", "ed", "p256"):
        for badsig in (False, True):
            for cred in ("password", "pkey", None):
                s = Session(w, host_key=(w.BadSigKey(key=w.rsa.key) if badsig else None))
                try:
                    s.start_server()
                    kw = {"username": USER}
                    if expected:
                        kw["hostkey"] = keys[expected]
                    if cred == "password":
                        kw["password"] = PASSWORD
                    elif cred == "pkey":
                        kw["pkey"] = w.rsa2
                    st, v = with_watchdog(lambda: s.tc.connect(**kw), 25)
                    kex_ok = bool(s.tc.initial_kex_done)
                    auth_sent = bool(s.server_saw(5) or s.server_saw(50))
                    followup = None
                    if cred is None and st == "ok" and (expected not in (None, "rsa") or badsig):
                        # two-step use of the API: connect(hostkey=K) returned, the caller now authenticates
                        followup = try_auth(w, s.tc, "password", [])
                        auth_sent = bool(s.server_saw(5) or s.server_saw(50))
                    # before the key exchange completes the failure surfaces as IncompatiblePeer / SSHException or,
                    # when the server side gave up first, EOFError: all "raised, nothing sent" (code 1)
                    code = 0 if st == "ok" else (1 if (isinstance(v, p.SSHException) or not kex_ok) else 100)
                    impl = [code]
                    if kex_ok:
                        impl += [1]
                        if expected:
                            impl += [2, 1 if st == "ok" else 0]
                        if auth_sent:
                            impl += [4]
                    case = {"hostkey_arg": expected, "server_key": "rsa", "bad_signature": badsig, "credential": cred}
                    exp_key = ("Some", keyid[expected]) if expected else None
                    rows.append((case, "(%s, (false, %s, %s), (1, 5))" % (
                        "None" if exp_key is None else "(Some (%d, %d))" % keyid[expected],
                        coq(kex_ok), coq(cred is not None)), impl))
                    ctx.count(("tconnect", expected, badsig, cred), nontrivial=True, kind="transport-connect")
                    # ---- oracle ----
                    mismatch = expected is not None and expected != "rsa"
                    if (mismatch or badsig) and (auth_sent or s.srv.seen or st == "ok"):
                        ctx.fail("transport-connect-auth-despite-hostkey-mismatch",
                                 "Transport.connect authenticated / returned normally although the server's host "
                                 "key is not the expected one (or its signature is bad)", case=case,
                                 expected="SSHException, nothing sent",
                                 observed={"auth_sent": auth_sent, "st": st, "followup_auth_password": followup,
                                           "server_callbacks": [x[0] for x in s.srv.seen]})
                    if not mismatch and not badsig and cred and not auth_sent:
                        ctx.fail("transport-connect-honest-failed", "Transport.connect did not authenticate to the "
                                 "expected server", case=case, observed=repr(v))
                    if st == "hang":
                        ctx.fail("transport-connect-hang", "Transport.connect did not return", case=case)
                    tap = bytes(s.csock.tap)
                    if PASSWORD.encode("utf-8") in tap:
                        ctx.fail("password-in-plaintext", "the password appears in the raw byte stream", case=case)
                finally:
                    s.close()
    return rows


# --------------------------------------------------------------------------
# 3. SSHClient.connect

ADVERTISE = [None, "gss", "unknown"]
ADVERTISE_NAMES = {None: None, "gss": ["gss-group14-sha1-toWM5Slw5Ew8Mqkay+al2g==", "gss-gex-sha1-toWM5Slw5Ew8Mqkay+al2g=="],
                   "unknown": ["frobnicate-kex@example.com"]}
MIXED_HOST = "Host17.Example.COM"


def make_strategy(w):
    """the `auth_strategy=` entry point of SSHClient.connect: one password source"""
    from paramiko.auth_strategy import AuthStrategy, Password

    class OnePassword(AuthStrategy):
        def get_sources(self):
            yield Password(username=USER, password_getter=lambda: PASSWORD)

    return OnePassword(ssh_config=None)


KNOWN = ["none", "same", "other-same-type", "other-type-only", "hashed-same", "hashed-other",
         "same-under-other-name", "same+other-type", "hashed-other-type-only", "same-under-lowercased-name"]
MISMATCH = ("other-same-type", "other-type-only", "hashed-other", "hashed-other-type-only")
POLICIES = ["reject", "autoadd", "warning", "custom-raise", "custom-accept"]


class C17Refusal(BaseException):
    """a refusal that is not even an Exception"""


# a policy refuses by RAISING; the class of what it raises must not matter
REFUSALS = {
    "custom-raise": None,                                   # SSHException (filled in lazily)
    "custom-raise-permissionerror": PermissionError,        # OSError subclasses: pin file unreadable, ...
    "custom-raise-filenotfound": FileNotFoundError,
    "custom-raise-ioerror": IOError,
    "custom-raise-timeout": TimeoutError,
    "custom-raise-valueerror": ValueError,
    "custom-raise-keyerror": KeyError,
    "custom-raise-eoferror": EOFError,
    "custom-raise-baseexception": C17Refusal,
}
RAISING = [k for k in REFUSALS if k != "custom-raise"]


def cconnect_cases(ctx, w):
    p = w.paramiko
    from paramiko.hostkeys import HostKeys
    rows = []
    combos = [(k, where, pol, port, None) for k in KNOWN for where in ("user", "system") for pol in POLICIES
              for port in (22, 2222)]
    # servers whose KEXINIT advertises kex names the client cannot run (a GSS-API one, an unknown one)
    adv_combos = [(k, where, pol, port, adv) for adv in ADVERTISE if adv for k in KNOWN for where in ("user", "system")
                  for pol in POLICIES for port in (22, 2222)]
    if ctx.thorough:
        g = [c for c in adv_combos if c[4] == "gss"]
        gm = [c for c in g if c[0] in MISMATCH or c[0] == "none"]          # every mismatch / unknown-host case
        combos += gm + ctx.rng.sample([c for c in g if c not in gm], 40) + ctx.rng.sample(
            [c for c in adv_combos if c[4] != "gss"], 40)
    else:
        combos_adv = [c for c in adv_combos if c[1] == "user" and c[3] == 22 and
                      ((c[0] in MISMATCH and c[2] in ("autoadd", "reject")) or
                       (c[0] == "none" and c[2] in ("reject", "custom-raise", "autoadd")) or
                       (c[0] == "same" and c[2] == "reject"))]
    if not ctx.thorough:
        # always: Reject / AutoAdd on the user store, and every stored-key mismatch under every accepting policy
        must = [c for c in combos if c[1] == "user" and (c[2] in ("reject", "autoadd") or
                                                         (c[0] in MISMATCH and c[2] in ("warning", "custom-accept")))]
        rest = [c for c in combos if c not in must]
        combos = must + ctx.rng.sample(rest, 12) + combos_adv
    # policies that refuse by raising other exception classes (unknown host; and one known-host control)
    rz = RAISING if ctx.thorough else RAISING[:4] + ctx.rng.sample(RAISING[4:], 2)
    combos += [("none", "user", pol, port, None) for pol in rz for port in ((22, 2222) if ctx.thorough else (22,))]
    combos += [("other-same-type", "user", rz[0], 22, None), ("same", "user", rz[1], 22, None)]
    # alternative entry point (auth_strategy=) and host names with upper-case letters
    base_combos = [c + ("password-arg", "host17") for c in combos]
    alt = []
    for entry, host in (("auth-strategy", "host17"), ("password-arg", MIXED_HOST), ("auth-strategy", MIXED_HOST)):
        for k in KNOWN:
            for pol in POLICIES:
                for port in (22, 2222):
                    alt.append((k, "user", pol, port, None, entry, host))
    if ctx.thorough:
        combos = base_combos + alt
    else:
        keep = [c for c in alt if (c[0] in MISMATCH and c[2] in ("autoadd", "reject") and c[3] == 22) or
                (c[0] == "none" and c[2] in ("reject", "autoadd") and c[3] == 22) or
                (c[0] in ("same", "hashed-same", "same-under-lowercased-name") and c[2] in ("reject", "autoadd"))]
        combos = base_combos + keep
    combos = [c + ("rsa",) for c in combos]
    # a server presenting a DIFFERENT key that a weak comparison takes for the stored one
    for sk in sorted(w.near_miss):
        for k in ("same", "hashed-same", "same+other-type"):
            for pol in ("reject", "autoadd"):
                for entry in (("password-arg", "auth-strategy") if ctx.thorough else ("password-arg",)):
                    combos.append((k, "user", pol, 22, None, entry, "host17", sk))
    kid = {"rsa": (1, 5), "rsa2": (1, 6), "ed": (2, 7), "rsa-hash-collider": (1, 8), "rsa-other-exponent": (1, 9)}
    for known, where, pol, port, adv, entry, host, sk in combos:
        s = Session(w, advertise=ADVERTISE_NAMES.get(adv), host_key=w.near_miss.get(sk))
        calls, accepted = [], []

        raised = []

        def rec(base, accept=None, exc=None):
            class P(base):
                def missing_host_key(self, client, hostname, key):
                    calls.append(hostname)
                    if accept is False:
                        e = (exc or p.SSHException)("custom policy says no")
                        raised.append(e)
                        raise e
                    if accept is not True:
                        base.missing_host_key(self, client, hostname, key)
                    accepted.append(hostname)
            return P()

        policy = {"reject": lambda: rec(p.RejectPolicy), "autoadd": lambda: rec(p.AutoAddPolicy),
                  "warning": lambda: rec(p.WarningPolicy),
                  "custom-raise": lambda: rec(p.MissingHostKeyPolicy, False),
                  "custom-accept": lambda: rec(p.MissingHostKeyPolicy, True)}.get(
                      pol, lambda: rec(p.MissingHostKeyPolicy, False, REFUSALS.get(pol)))()
        name = host if port == 22 else "[%s]:%d" % (host, port)
        other = "[%s]:%d" % (host, port) if port == 22 else host
        # C41's name abstraction: equal strings <-> equal ids (host names are case-sensitive strings)
        ids = {host: 1, "[%s]:%d" % (host, port): 2}
        if name.lower() not in ids:
            ids[name.lower()] = 4
        entries = []          # (hostname string, key label)
        if known == "same":
            entries = [(name, "rsa")]
        elif known == "other-same-type":
            entries = [(name, "rsa2")]
        elif known == "other-type-only":
            entries = [(name, "ed")]
        elif known == "hashed-same":
            entries = [(HostKeys.hash_host(name), "rsa")]
        elif known == "hashed-other":
            entries = [(HostKeys.hash_host(name), "rsa2")]
        elif known == "hashed-other-type-only":
            entries = [(HostKeys.hash_host(name), "ed")]
        elif known == "same-under-other-name":
            entries = [(other, "rsa")]
        elif known == "same-under-lowercased-name":
            entries = [(name.lower(), "rsa")]
        elif known == "same+other-type":
            entries = [(name, "ed"), (name, "rsa")]
        keys = {"rsa": w.rsa, "rsa2": w.rsa2, "ed": w.ed}
        c = p.SSHClient()
        c.set_missing_host_key_policy(policy)
        store = c._host_keys if where == "user" else c._system_host_keys
        for hn, kl in entries:
            store.add(hn, keys[kl].get_name(), keys[kl])
        try:
            s.start_server()

            def factory(sock, **kw):
                t = w.HookClient(sock, packetizer_class=s._client_packetizer(), **kw)
                t.c17_obs = s.obs
                s.tc = t
                return t

            def go():
                with warnings.catch_warnings():
                    warnings.simplefilter("ignore")
                    if entry == "auth-strategy":
                        c.connect(host, port=port, sock=s.csock, transport_factory=factory, timeout=15,
                                  auth_strategy=make_strategy(w))
                    else:
                        c.connect(host, port=port, username=USER, password=PASSWORD, sock=s.csock,
                                  allow_agent=False, look_for_keys=False, transport_factory=factory, timeout=15)

            st, v = with_watchdog(go, 25)
            kex_ok = bool(s.tc.initial_kex_done)
            auth_sent = bool(s.server_saw(5) or s.server_saw(50))
            if st == "ok":
                code = 0
            elif isinstance(v, p.BadHostKeyException):
                code = 117
            elif isinstance(v, p.SSHException) or not kex_ok or (raised and v is raised[-1]):
                code = 1                        # incl. the policy's own exception, of whatever class, propagating
            else:
                code = 100
            impl = [code]
            if kex_ok:
                impl += [1]
                if calls:                       # the policy was consulted (observed)
                    impl += [3, 1 if accepted else 0]
                elif code == 117:               # BadHostKeyException (observed)
                    impl += [2, 0]
                elif st == "ok" or auth_sent:   # no policy call, no mismatch: the stored key matched
                    impl += [2, 1]
                if auth_sent:
                    impl += [4]
            # ---- model input ----
            hashed = known.startswith("hashed")
            hm = [(ids[name], 9)] if hashed else []

            def nm(hn):
                return "(Nm true 9)" if hn.startswith("|1|") else "(Nm false %d)" % ids[hn]

            st_model = "[" + ";".join("([%s], (%d, %d))" % (nm(hn), kid[kl][0], kid[kl][1]) for hn, kl in entries) + "]"
            sysm, usrm = (st_model, "[]") if where == "system" else ("[]", st_model)
            polm = {"reject": "PReject", "autoadd": "PAutoAdd", "warning": "PWarning",
                    "custom-raise": "(PCustom false)", "custom-accept": "(PCustom true)"}.get(pol, "(PCustom false)")
            bracket = ids["[%s]:%d" % (host, port)]
            neg_gss = bool(s.tc.c17_kex and str(s.tc.c17_kex).startswith("gss"))      # what was NEGOTIATED
            adv_gss = any(str(x).startswith("gss-") for x in s.tc.c17_peer_kex)          # what the peer ADVERTISED
            text = "(%s, (%s, %s), (1, %d, %d), %s, (%s, %s, %s), (%d, %d))" % (
                coq(hm), sysm, usrm, bracket, port, polm, coq(neg_gss), coq(adv_gss), coq(kex_ok), kid[sk][0], kid[sk][1])
            case = {"server_key": sk, "known_hosts": known, "where": where, "policy": pol, "port": port, "entry_point": entry,
                    "hostname": host, "server_advertises_kex": ADVERTISE_NAMES.get(adv), "negotiated_kex": s.tc.c17_kex}
            if adv and kex_ok and (adv_gss != (adv == "gss")):
                ctx.fail("harness-advertised-kex-not-seen", "the server's extra kex names did not reach the client",
                         case=case, observed=list(s.tc.c17_peer_kex))
            if neg_gss:
                ctx.fail("gss-kex-negotiated-without-support", "a gss kex was negotiated with a server that cannot "
                         "run it", case=case, observed=s.tc.c17_kex)
            if kex_ok and bool(s.tc.gss_kex_used) != neg_gss:
                ctx.fail("gss-kex-used-flag-without-negotiated-gss-kex",
                         "Transport.gss_kex_used is set although no GSS-API key exchange was negotiated "
                         "(SSHClient.connect skips host key checking on this flag)", case=case,
                         expected=neg_gss, observed=bool(s.tc.gss_kex_used))
            rows.append((case, text, impl))
            ctx.count(("cconnect", known, where, pol, port, adv, entry, host, sk), nontrivial=True,
                      kind="sshclient-" + known + ("+adv-" + adv if adv else "") +
                      ("+strategy" if entry == "auth-strategy" else "") + ("+mixedcase" if host != "host17" else ""))
            # ---- oracle ----
            # an entry is "for this host" when stored under exactly the looked-up name, or a hash of it
            has_entry = any(hn == name or hn.startswith("|1|") for hn, _ in entries)
            key_matches = has_entry and sk == "rsa" and known in ("same", "hashed-same", "same+other-type",
                                                                  "same-under-lowercased-name")
            if has_entry and not key_matches:
                if auth_sent or s.srv.seen or st == "ok":
                    ctx.fail("sshclient-auth-despite-known-key-mismatch",
                             "SSHClient.connect authenticated although the server's key differs from the stored one",
                             case=case, expected="BadHostKeyException, nothing sent", observed={"st": st})
                if not isinstance(v, p.BadHostKeyException):
                    ctx.fail("sshclient-mismatch-wrong-exception", "expected BadHostKeyException", case=case,
                             observed=repr(v))
                if calls:
                    ctx.fail("sshclient-policy-called-for-known-host", "the policy was consulted for a known host",
                             case=case, observed=calls)
            if not has_entry:
                if calls != [name]:
                    ctx.fail("sshclient-policy-not-called", "missing_host_key was not called exactly once with the "
                             "expected host name", case=case, expected=[name], observed=calls)
                if (pol == "reject" or pol in REFUSALS) and (auth_sent or s.srv.seen or st == "ok"):
                    ctx.fail("sshclient-auth-despite-policy-rejection",
                             "SSHClient.connect authenticated to an unknown server although the policy refused it "
                             "by raising %s" % (type(raised[-1]).__name__ if raised else "SSHException"),
                             case=case, expected="the policy's exception, nothing sent",
                             observed={"st": st, "auth_sent": auth_sent})
                if pol in REFUSALS and raised and st == "exc" and v is not raised[-1]:
                    ctx.fail("sshclient-policy-exception-replaced",
                             "the exception a refusing policy raised did not propagate out of connect()",
                             case=case, expected=repr(raised[-1]), observed=repr(v))
                if pol in ("autoadd", "warning", "custom-accept") and not auth_sent:
                    ctx.fail("sshclient-honest-failed", "SSHClient.connect did not authenticate after the policy "
                             "accepted", case=case, observed=repr(v))
            if has_entry and key_matches and (not auth_sent or calls):
                ctx.fail("sshclient-honest-failed", "SSHClient.connect did not authenticate to a known server",
                         case=case, observed=repr(v))
            # ordering at the server: nothing auth-related before NEWKEYS
            rx = [b[0] for d, b in s.slog if d == "rx"]
            for i, t in enumerate(rx):
                if t in (5, 50) and 21 not in rx[:i]:
                    ctx.fail("userauth-before-newkeys", "the server received an auth message before NEWKEYS",
                             case=case, observed=rx)
            if PASSWORD.encode("utf-8") in bytes(s.csock.tap):
                ctx.fail("password-in-plaintext", "the password appears in the raw byte stream", case=case)
            if st == "hang":
                ctx.fail("sshclient-connect-hang", "SSHClient.connect did not return", case=case)
        finally:
            try:
                c.close()
            except Exception:
                pass
            s.close()
    return rows


# --------------------------------------------------------------------------
# 3b. known_hosts FILES through the real parser (SSHClient.load_host_keys / load_system_host_keys)

FILE_KINDS = ["plain-same", "tab-same", "multi-name-same", "hashed-same", "trailing-space-same", "comment+plain-same",
              "plain-other", "other-host-same", "comment-only",
              "revoked-same", "cert-authority-same", "revoked-same-tab", "revoked-hashed-same", "cert-authority-wildcard",
              "plain-other+revoked-same", "unknown-marker-same"]


def ref_trusts(text, host, key):
    """Independent reference: does this known_hosts text establish `key` as a host key of `host`?  A line that
    starts with a marker (@revoked, @cert-authority, anything with @) never does: a revoked key is to be refused,
    a CA key is not a host key."""
    import base64
    import hashlib
    import hmac
    for line in text.split("\n"):
        line = line.strip()
        if not line or line.startswith("#"):
            continue
        f = line.split()
        if f[0].startswith("@") or len(f) < 3:
            continue
        ok = False
        for nm in f[0].split(","):
            if nm.startswith("|1|"):
                try:
                    _, _, salt, digest = nm.split("|")
                    mac = hmac.new(base64.b64decode(salt), host.encode(), hashlib.sha1).digest()
                    ok = ok or base64.b64encode(mac).decode() == digest
                except Exception:
                    pass
            else:
                ok = ok or nm == host
        if ok and f[1] == key.get_name() and f[2] == key.get_base64():
            return True
    return False


def file_cases(ctx, w):
    import os
    import shutil
    import tempfile
    p = w.paramiko
    from paramiko.hostkeys import HostKeys
    host = "host17"
    b64, b642 = w.rsa.get_base64(), w.rsa2.get_base64()
    hh = HostKeys.hash_host(host)
    texts = {
        "plain-same": "%s ssh-rsa %s\n" % (host, b64),
        "tab-same": "%s\tssh-rsa\t%s\n" % (host, b64),
        "multi-name-same": "other.example,%s,10.0.0.1 ssh-rsa %s\n" % (host, b64),
        "hashed-same": "%s ssh-rsa %s\n" % (hh, b64),
        "trailing-space-same": "%s ssh-rsa %s \n" % (host, b64),
        "comment+plain-same": "# a comment\n\n%s ssh-rsa %s comment here\n" % (host, b64),
        "plain-other": "%s ssh-rsa %s\n" % (host, b642),
        "other-host-same": "elsewhere.example ssh-rsa %s\n" % b64,
        "comment-only": "# %s ssh-rsa %s\n" % (host, b64),
        "revoked-same": "@revoked %s ssh-rsa %s\n" % (host, b64),
        "cert-authority-same": "@cert-authority %s ssh-rsa %s\n" % (host, b64),
        "revoked-same-tab": "@revoked\t%s\tssh-rsa\t%s\n" % (host, b64),
        "revoked-hashed-same": "@revoked %s ssh-rsa %s\n" % (hh, b64),
        "cert-authority-wildcard": "@cert-authority *,%s ssh-rsa %s\n" % (host, b64),
        "plain-other+revoked-same": "%s ssh-rsa %s\n@revoked %s ssh-rsa %s\n" % (host, b642, host, b64),
        "unknown-marker-same": "@trusted %s ssh-rsa %s\n" % (host, b64),
    }
    combos = [(k, how, pol) for k in FILE_KINDS for how in ("load_host_keys", "load_system_host_keys")
              for pol in ("reject", "autoadd")]
    if not ctx.thorough:
        combos = [c for c in combos if c[2] == "reject" and (c[1] == "load_host_keys" or "@" in texts[c[0]])]
    tmp = tempfile.mkdtemp(prefix="verif-c17-")
    n = 0
    try:
        for kind, how, pol in combos:
            fn = os.path.join(tmp, "known_hosts_%d" % n)
            n += 1
            with open(fn, "w") as f:
                f.write(texts[kind])
            calls = []

            def rec(base):
                class P(base):
                    def missing_host_key(self, client, hostname, key):
                        calls.append(hostname)
                        return base.missing_host_key(self, client, hostname, key)
                return P()

            c = p.SSHClient()
            c.set_missing_host_key_policy(rec(p.RejectPolicy if pol == "reject" else p.AutoAddPolicy))
            load_exc = None
            try:
                getattr(c, how)(fn)
            except Exception as e:  # noqa  (a file the parser refuses: nothing more is trusted)
                load_exc = e
            s = Session(w)
            try:
                s.start_server()

                def factory(sock, **kw):
                    t = w.HookClient(sock, packetizer_class=s._client_packetizer(), **kw)
                    t.c17_obs = s.obs
                    s.tc = t
                    return t

                def go():
                    with warnings.catch_warnings():
                        warnings.simplefilter("ignore")
                        c.connect(host, port=22, username=USER, password=PASSWORD, sock=s.csock,
                                  allow_agent=False, look_for_keys=False, transport_factory=factory, timeout=15)

                st, v = with_watchdog(go, 25)
                auth_sent = bool(s.server_saw(5) or s.server_saw(50))
                trusted = ref_trusts(texts[kind], host, w.rsa)
                case = {"side": "sshclient-known-hosts-file", "file": texts[kind], "kind": kind, "loader": how,
                        "policy": pol, "load_exception": repr(load_exc) if load_exc else None}
                ctx.count(("file", kind, how, pol), nontrivial=True, kind="sshclient-file-" + kind)
                if not trusted and pol == "reject" and (auth_sent or s.srv.seen or st == "ok"):
                    ctx.fail("sshclient-trusts-untrusted-known-hosts-line",
                             "the known_hosts file does not establish the server's key as a host key of the host "
                             "(marker / other key / other host / comment) but SSHClient under RejectPolicy "
                             "authenticated to it", case=case, expected="exception, nothing sent",
                             observed={"st": st, "auth_sent": auth_sent, "policy_calls": list(calls)})
                if trusted and "@" not in texts[kind] and load_exc is None and (not auth_sent or calls):
                    ctx.fail("sshclient-honest-failed", "a plain known_hosts line for the server's key was not honoured",
                             case=case, observed=repr(v))
                if st == "hang":
                    ctx.fail("sshclient-connect-hang", "SSHClient.connect did not return", case=case)
                if PASSWORD.encode("utf-8") in bytes(s.csock.tap):
                    ctx.fail("password-in-plaintext", "the password appears in the raw byte stream", case=case)
            finally:
                try:
                    c.close()
                except Exception:
                    pass
                s.close()
    finally:
        shutil.rmtree(tmp, ignore_errors=True)
    return n


# --------------------------------------------------------------------------
# 4. the SAME SSHClient / HostKeys objects used for a second connect after the store was mutated

MUTATORS = ["clear", "del", "pop", "clear+load-other", "del+add-other", "setitem-other", "add-other-type", "none"]
FIRST_USES = ["connect", "lookup", "contains"]


def reuse_cases(ctx, w):
    import os
    import shutil
    import tempfile
    p = w.paramiko
    rows = []
    combos = [(fu, mu, where, pol) for fu in FIRST_USES for mu in MUTATORS for where in ("user", "system")
              for pol in ("reject", "autoadd", "custom-raise-permissionerror")]
    if not ctx.thorough:
        must = [c for c in combos if c[2] == "user" and c[3] == "reject" and c[0] in ("connect", "lookup")]
        rest = [c for c in combos if c not in must]
        combos = must + ctx.rng.sample(rest, 10)
    tmp = tempfile.mkdtemp(prefix="verif-c17-")
    try:
        for fu, mu, where, pol in combos:
            host, port = "host17", 22
            name = host
            calls, accepted, raised = [], [], []

            def rec(base, refuse=None):
                class P(base):
                    def missing_host_key(self, client, hostname, key):
                        calls.append(hostname)
                        if refuse is not None:
                            e = refuse("refused")
                            raised.append(e)
                            raise e
                        base.missing_host_key(self, client, hostname, key)
                        accepted.append(hostname)
                return P()

            policy = {"reject": lambda: rec(p.RejectPolicy), "autoadd": lambda: rec(p.AutoAddPolicy)}.get(
                pol, lambda: rec(p.MissingHostKeyPolicy, REFUSALS[pol]))()
            c = p.SSHClient()
            c.set_missing_host_key_policy(policy)
            store = c.get_host_keys() if where == "user" else c._system_host_keys
            store.add(name, w.rsa.get_name(), w.rsa)
            sessions = []

            def connect_once():
                s = Session(w)
                sessions.append(s)
                s.start_server()

                def factory(sock, **kw):
                    t = w.HookClient(sock, packetizer_class=s._client_packetizer(), **kw)
                    t.c17_obs = s.obs
                    s.tc = t
                    return t

                def go():
                    with warnings.catch_warnings():
                        warnings.simplefilter("ignore")
                        c.connect(host, port=port, username=USER, password=PASSWORD, sock=s.csock,
                                  allow_agent=False, look_for_keys=False, transport_factory=factory, timeout=15)

                st, v = with_watchdog(go, 25)
                return s, st, v

            try:
                case = {"first_use": fu, "mutation": mu, "where": where, "policy": pol, "side": "sshclient-reuse"}
                # ---- first use of the store ----
                if fu == "connect":
                    s1, st1, v1 = connect_once()
                    if st1 != "ok" or calls:
                        ctx.fail("sshclient-honest-failed", "first connect to the known server failed", case=case,
                                 observed=repr(v1))
                    try:
                        c._transport.close()
                    except Exception:
                        pass
                elif fu == "lookup":
                    store.lookup(name)
                    store.check(name, w.rsa)
                else:
                    name in store       # noqa  (MutableMapping.__contains__ -> __getitem__ -> lookup)
                    dict(store)
                del calls[:], accepted[:], raised[:]
                # ---- mutate the store through its public mutators ----
                entries = []            # what the store holds for `name` afterwards: key labels
                if mu == "clear":
                    store.clear()
                elif mu == "del":
                    del store[name]
                elif mu == "pop":
                    store.pop(name)
                elif mu == "clear+load-other":
                    fn = os.path.join(tmp, "kh-%d" % len(rows))
                    with open(fn, "w") as f:
                        f.write("%s %s %s\n" % (name, w.rsa2.get_name(), w.rsa2.get_base64()))
                    store.clear()
                    store.load(fn)
                    entries = ["rsa2"]
                elif mu == "del+add-other":
                    del store[name]
                    store.add(name, w.rsa2.get_name(), w.rsa2)
                    entries = ["rsa2"]
                elif mu == "setitem-other":
                    store[name] = {w.rsa2.get_name(): w.rsa2}
                    entries = ["rsa2"]          # same key type: the stored key is replaced
                elif mu == "add-other-type":
                    store.add(name, w.ed.get_name(), w.ed)
                    entries = ["rsa", "ed"]
                else:
                    entries = ["rsa"]
                # ---- second connect through the same client ----
                s, st, v = connect_once()
                kex_ok = bool(s.tc.initial_kex_done)
                auth_sent = bool(s.server_saw(5) or s.server_saw(50))
                if st == "ok":
                    code = 0
                elif isinstance(v, p.BadHostKeyException):
                    code = 117
                elif isinstance(v, p.SSHException) or not kex_ok or (raised and v is raised[-1]):
                    code = 1
                else:
                    code = 100
                impl = [code]
                if kex_ok:
                    impl += [1]
                    if calls:
                        impl += [3, 1 if accepted else 0]
                    elif code == 117:
                        impl += [2, 0]
                    elif st == "ok" or auth_sent:
                        impl += [2, 1]
                    if auth_sent:
                        impl += [4]
                kid = {"rsa": (1, 5), "rsa2": (1, 6), "ed": (2, 7)}
                st_model = "[" + ";".join("([(Nm false 1)], (%d, %d))" % kid[k] for k in entries) + "]"
                sysm, usrm = (st_model, "[]") if where == "system" else ("[]", st_model)
                polm = {"reject": "PReject", "autoadd": "PAutoAdd"}.get(pol, "(PCustom false)")
                text = "([], (%s, %s), (1, 2, 22), %s, (false, false, %s), (1, 5))" % (sysm, usrm, polm, coq(kex_ok))
                rows.append((case, text, impl))
                ctx.count(("reuse", fu, mu, where, pol), nontrivial=True, kind="sshclient-reuse-" + mu)
                # ---- oracle ----
                known_now = bool(entries)
                matches = "rsa" in entries
                if not known_now:
                    if calls != [name]:
                        ctx.fail("sshclient-stale-known-host",
                                 "after the host was removed from the host key store (%s) a second connect through "
                                 "the same SSHClient did not ask the missing-host-key policy" % mu, case=case,
                                 expected=[name], observed=calls)
                    if pol != "autoadd" and (auth_sent or s.srv.seen or st == "ok"):
                        ctx.fail("sshclient-auth-after-host-removed",
                                 "after the host was removed from the host key store (%s) the same SSHClient "
                                 "authenticated to it although the policy refuses unknown hosts" % mu, case=case,
                                 expected="policy's exception, nothing sent",
                                 observed={"st": st, "auth_sent": auth_sent, "policy_calls": list(calls)})
                elif not matches:
                    if auth_sent or s.srv.seen or st == "ok" or not isinstance(v, p.BadHostKeyException):
                        ctx.fail("sshclient-stale-host-key",
                                 "after the stored key was replaced (%s) the same SSHClient still accepted the old "
                                 "key" % mu, case=case, expected="BadHostKeyException, nothing sent",
                                 observed={"st": st, "auth_sent": auth_sent, "exc": repr(v)})
                else:
                    if not auth_sent or calls:
                        ctx.fail("sshclient-honest-failed", "second connect to the known server failed", case=case,
                                 observed=repr(v))
                if PASSWORD.encode("utf-8") in bytes(s.csock.tap):
                    ctx.fail("password-in-plaintext", "the password appears in the raw byte stream", case=case)
            finally:
                try:
                    c.close()
                except Exception:
                    pass
                for x in sessions:
                    x.close()
    finally:
        shutil.rmtree(tmp, ignore_errors=True)
    return rows


# --------------------------------------------------------------------------
# 4b. an IMPOSTOR server: presents the genuine PUBLIC host key of each type, signs with another private key


def key_zoo(w):
    """genuine key and an unrelated private key, per host key type"""
    import os
    p = w.paramiko
    t = os.path.join(w.repo, "tests")
    zoo = {
        "rsa": (w.rsa, w.rsa2),
        "ecdsa-p256": (w.p256, p.ECDSAKey.generate(bits=256)),
        "ecdsa-p384": (p.ECDSAKey.from_private_key_file(os.path.join(t, "test_ecdsa_384.key")), p.ECDSAKey.generate(bits=384)),
        "ecdsa-p521": (p.ECDSAKey.from_private_key_file(os.path.join(t, "test_ecdsa_521.key")), p.ECDSAKey.generate(bits=521)),
        "ed25519": (w.ed, p.Ed25519Key.from_private_key_file(os.path.join(t, "test_ed25519-funky-padding.key"))),
    }
    return zoo


def make_impostor(genuine, own):
    """same class and same public blob as `genuine` (asbytes / get_name / fields), signatures made by `own`"""
    cls = type("Impostor" + type(genuine).__name__, (type(genuine),), {
        "sign_ssh_data": lambda self, data, algorithm=None: (
            own.sign_ssh_data(data, algorithm) if algorithm is not None and isinstance(own, RSA_CLASS[0])
            else own.sign_ssh_data(data))})
    k = object.__new__(cls)
    k.__dict__.update(genuine.__dict__)
    return k


RSA_CLASS = []


def impostor_cases(ctx, w):
    p = w.paramiko
    if not RSA_CLASS:
        RSA_CLASS.append(p.RSAKey)
    zoo = key_zoo(w)
    trows, crows = [], []
    kinds = sorted(zoo)
    for kind in kinds:
        genuine, own = zoo[kind]
        if own.asbytes() == genuine.asbytes():
            continue
        for server in ("impostor", "genuine"):
            hk = make_impostor(genuine, own) if server == "impostor" else genuine
            # ---- Transport.connect(hostkey=genuine, password) ----
            s = Session(w, host_key=hk)
            try:
                s.start_server()
                st, v = with_watchdog(lambda: s.tc.connect(hostkey=genuine, username=USER, password=PASSWORD), 25)
                kex_ok = bool(s.tc.initial_kex_done)
                auth_sent = bool(s.server_saw(5) or s.server_saw(50))
                follow = None
                if server == "impostor" and st == "ok":
                    follow = "returned"
                code = 0 if st == "ok" else (1 if isinstance(v, p.SSHException) or not kex_ok else 100)
                impl = [code] + ([1, 2, 1 if st == "ok" else 0] if kex_ok else []) + ([4] if kex_ok and auth_sent else [])
                case = {"side": "transport-connect-impostor", "host_key_type": kind, "server": server}
                trows.append((case, "((Some (1, 5)), (false, %s, true), (1, 5))" % coq(kex_ok), impl))
                ctx.count(("impostor-t", kind, server), nontrivial=True, kind="impostor-transport-" + server)
                if server == "impostor" and (kex_ok or auth_sent or s.srv.seen or st == "ok"):
                    ctx.fail("credentials-to-impostor-with-known-public-key",
                             "a server presenting the expected %s public host key but signing with another private "
                             "key passed the key exchange of Transport.connect(hostkey=...)" % kind, case=case,
                             expected="SSHException (signature verification), nothing sent",
                             observed={"st": st, "kex_done": kex_ok, "auth_sent": auth_sent,
                                       "server_callbacks": [x[0] for x in s.srv.seen]})
                if server == "genuine" and not (st == "ok" and auth_sent):
                    ctx.fail("transport-connect-honest-failed", "Transport.connect to the genuine %s server failed"
                             % kind, case=case, observed=repr(v))
                if PASSWORD.encode("utf-8") in bytes(s.csock.tap):
                    ctx.fail("password-in-plaintext", "the password appears in the raw byte stream", case=case)
            finally:
                s.close()
            # ---- SSHClient.connect, genuine key in known_hosts, every policy ----
            pols = POLICIES if (ctx.thorough or server == "impostor") else ["reject"]
            if not ctx.thorough and server == "impostor":
                pols = ["reject", "autoadd", "warning"]
            for pol in pols:
                s = Session(w, host_key=hk)
                calls = []

                def rec(base, accept=None):
                    class P(base):
                        def missing_host_key(self, client, hostname, key):
                            calls.append(hostname)
                            if accept is False:
                                raise p.SSHException("no")
                            if accept is not True:
                                base.missing_host_key(self, client, hostname, key)
                    return P()

                policy = {"reject": lambda: rec(p.RejectPolicy), "autoadd": lambda: rec(p.AutoAddPolicy),
                          "warning": lambda: rec(p.WarningPolicy),
                          "custom-raise": lambda: rec(p.MissingHostKeyPolicy, False),
                          "custom-accept": lambda: rec(p.MissingHostKeyPolicy, True)}[pol]()
                c = p.SSHClient()
                c.set_missing_host_key_policy(policy)
                c.get_host_keys().add("host17", genuine.get_name(), genuine)
                try:
                    s.start_server()

                    def factory(sock, **kw):
                        t = w.HookClient(sock, packetizer_class=s._client_packetizer(), **kw)
                        t.c17_obs = s.obs
                        s.tc = t
                        return t

                    def go():
                        with warnings.catch_warnings():
                            warnings.simplefilter("ignore")
                            c.connect("host17", port=22, username=USER, password=PASSWORD, sock=s.csock,
                                      allow_agent=False, look_for_keys=False, transport_factory=factory, timeout=15)

                    st, v = with_watchdog(go, 25)
                    kex_ok = bool(s.tc.initial_kex_done)
                    auth_sent = bool(s.server_saw(5) or s.server_saw(50))
                    code = 0 if st == "ok" else (117 if isinstance(v, p.BadHostKeyException) else
                                                 1 if isinstance(v, p.SSHException) or not kex_ok else 100)
                    impl = [code]
                    if kex_ok:
                        impl += [1]
                        if calls:
                            impl += [3, 1 if st == "ok" else 0]
                        elif code == 117:
                            impl += [2, 0]
                        elif st == "ok" or auth_sent:
                            impl += [2, 1]
                        if auth_sent:
                            impl += [4]
                    polm = {"reject": "PReject", "autoadd": "PAutoAdd", "warning": "PWarning",
                            "custom-raise": "(PCustom false)", "custom-accept": "(PCustom true)"}[pol]
                    case = {"side": "sshclient-impostor", "host_key_type": kind, "server": server, "policy": pol}
                    crows.append((case, "([], ([], [([(Nm false 1)], (1, 5))]), (1, 2, 22), %s, (false, false, %s), (1, 5))"
                                  % (polm, coq(kex_ok)), impl))
                    ctx.count(("impostor-c", kind, server, pol), nontrivial=True, kind="impostor-sshclient-" + server)
                    if server == "impostor" and (kex_ok or auth_sent or s.srv.seen or st == "ok"):
                        ctx.fail("credentials-to-impostor-with-known-public-key",
                                 "a server presenting the known %s public host key but signing with another private "
                                 "key passed the key exchange; SSHClient (%s policy, genuine key in known_hosts) went "
                                 "on" % (kind, pol), case=case,
                                 expected="SSHException (signature verification), nothing sent",
                                 observed={"st": st, "kex_done": kex_ok, "auth_sent": auth_sent,
                                           "server_callbacks": [x[0] for x in s.srv.seen]})
                    if server == "genuine" and (not auth_sent or calls):
                        ctx.fail("sshclient-honest-failed", "SSHClient.connect to the genuine %s server failed" % kind,
                                 case=case, observed=repr(v))
                    if PASSWORD.encode("utf-8") in bytes(s.csock.tap):
                        ctx.fail("password-in-plaintext", "the password appears in the raw byte stream", case=case)
                finally:
                    try:
                        c.close()
                    except Exception:
                        pass
                    s.close()
    return trows, crows


# --------------------------------------------------------------------------
# 5. successive connections of ONE SSHClient to an UNKNOWN host: the policy decides every time


def reconnect_cases(ctx, w):
    """First connect: unknown host, the policy accepts the key it is shown.  Second connect through the same client
    object to the same name: the server presents the same key / another key of the same type / a near-miss key /
    a key of another type.  The policy must be consulted again, with the key now presented, and its refusal must
    keep everything from the server."""
    p = w.paramiko
    rows = []
    second_keys = {"same": w.rsa, "other-same-type": w.rsa2, "other-type": w.ed}
    second_keys.update(w.near_miss)
    kid = {"same": (1, 5), "other-same-type": (1, 6), "other-type": (2, 7), "rsa-hash-collider": (1, 8),
           "rsa-other-exponent": (1, 9)}
    combos = [(pol, sk, port) for pol in ("pin-first-key", "warning", "pin-first-key+policy-reset")
              for sk in sorted(second_keys) for port in (22, 2222)]
    if not ctx.thorough:
        combos = [c for c in combos if c[2] == 22 and (c[0] == "pin-first-key" or c[1] in ("same", "other-same-type"))]
    for pol, sk, port in combos:
        host = "host17"
        name = host if port == 22 else "[%s]:%d" % (host, port)
        asked = []          # (hostname, key blob) every time the policy is consulted

        class Pin(p.MissingHostKeyPolicy):
            """accepts exactly the key it was created for (a pinning / prompting policy)"""

            def missing_host_key(self, client, hostname, key):
                asked.append((hostname, key.asbytes()))
                if key.asbytes() != w.rsa.asbytes():
                    raise p.SSHException("not the pinned key")

        class Warn(p.WarningPolicy):
            def missing_host_key(self, client, hostname, key):
                asked.append((hostname, key.asbytes()))
                return p.WarningPolicy.missing_host_key(self, client, hostname, key)

        c = p.SSHClient()
        c.set_missing_host_key_policy(Warn() if pol == "warning" else Pin())
        sessions = []

        def connect_once(key):
            s = Session(w, host_key=key)
            sessions.append(s)
            s.start_server()

            def factory(sock, **kw):
                t = w.HookClient(sock, packetizer_class=s._client_packetizer(), **kw)
                t.c17_obs = s.obs
                s.tc = t
                return t

            def go():
                with warnings.catch_warnings():
                    warnings.simplefilter("ignore")
                    c.connect(host, port=port, username=USER, password=PASSWORD, sock=s.csock,
                              allow_agent=False, look_for_keys=False, transport_factory=factory, timeout=15)

            st, v = with_watchdog(go, 25)
            return s, st, v

        try:
            case = {"side": "sshclient-reconnect", "policy": pol, "second_server_key": sk, "port": port}
            s1, st1, v1 = connect_once(w.rsa)
            if st1 != "ok" or len(asked) != 1:
                ctx.fail("sshclient-honest-failed", "first connect to an unknown host the policy accepts failed",
                         case=case, observed=repr(v1))
            try:
                c._transport.close()
            except Exception:
                pass
            if pol.endswith("policy-reset"):
                c.set_missing_host_key_policy(Pin())
            del asked[:]
            s, st, v = connect_once(second_keys[sk])
            kex_ok = bool(s.tc.initial_kex_done)
            auth_sent = bool(s.server_saw(5) or s.server_saw(50))
            accepts = pol == "warning" or sk == "same"
            code = 0 if st == "ok" else (1 if isinstance(v, p.SSHException) or not kex_ok else 100)
            impl = [code]
            if kex_ok:
                impl += [1]
                if asked:
                    impl += [3, 1 if (st == "ok" or auth_sent) else 0]
                elif st == "ok" or auth_sent:
                    impl += [2, 1]
                if auth_sent:
                    impl += [4]
            polm = "(PCustom %s)" % ("true" if accepts else "false") if pol != "warning" else "PWarning"
            text = "([], ([], []), (1, 2, %d), %s, (false, false, %s), (%d, %d))" % (
                port, polm, coq(kex_ok), kid[sk][0], kid[sk][1])
            rows.append((case, text, impl))
            ctx.count(("reconnect", pol, sk, port), nontrivial=True, kind="sshclient-reconnect-" + sk)
            want = [(name, second_keys[sk].asbytes())]
            if kex_ok and asked != want:
                ctx.fail("sshclient-policy-not-asked-on-reconnect",
                         "a second connect of the same SSHClient to a still unknown host did not consult the "
                         "missing-host-key policy with the key now presented", case=case,
                         expected="one call with the presented key", observed="%d call(s)" % len(asked))
            if not accepts and (auth_sent or s.srv.seen or st == "ok"):
                ctx.fail("sshclient-auth-despite-policy-rejection",
                         "on a reconnect the server presented a key the policy refuses, yet SSHClient authenticated "
                         "to it", case=case, expected="SSHException, nothing sent",
                         observed={"st": st, "auth_sent": auth_sent, "policy_calls": len(asked)})
            if accepts and not auth_sent:
                ctx.fail("sshclient-honest-failed", "reconnect to a host the policy accepts failed", case=case,
                         observed=repr(v))
            if PASSWORD.encode("utf-8") in bytes(s.csock.tap):
                ctx.fail("password-in-plaintext", "the password appears in the raw byte stream", case=case)
        finally:
            try:
                c.close()
            except Exception:
                pass
            for x in sessions:
                x.close()
    return rows


# --------------------------------------------------------------------------


def run(ctx):
    ctx.rule = ("scripted loopback sessions: auth_X (password, publickey, none, keyboard-interactive) from another "
                "thread at 7 lifecycle points of an honest handshake (transport thread parked in a hook); servers "
                "injecting NEWKEYS / SERVICE_ACCEPT / USERAUTH_SUCCESS / IGNORE / unknown before or after KEXINIT "
                "(quick: seeded 60 % sample) or after the handshake, or signing other data; Transport.connect over "
                "hostkey argument {none, same, other same type, other types} x bad signature x credential; "
                "SSHClient.connect(sock=), through password= and through auth_strategy=, host names in lower and mixed case, over 10 known_hosts contents x {user, system} x 5 policies x {22, 2222} "
                "(quick: all Reject/AutoAdd user cases, every stored-key mismatch x accepting policy, + 12 sampled + 24 with a server advertising gss-X / unknown kex names; thorough: the whole grid, every mismatch / unknown-host case again with a gss-advertising server + 40 sampled others, 40 with an unknown name, and the whole user-store grid through auth_strategy= and with a mixed-case host name).  policies refusing by raising SSHException / OSError subclasses / ValueError / KeyError / EOFError / a BaseException; the SAME SSHClient used for a second connect after a first connect / lookup / membership test and a mutation of its host key store (clear, del, pop, clear+load of another file, del+add, __setitem__, add of another type).  an impostor server per host key type (RSA, ECDSA p256 / p384 / p521, Ed25519) that presents the genuine public key and signs with another private key, against Transport.connect(hostkey=genuine) and SSHClient.connect (genuine key in known_hosts, every policy), with a genuine-server control per type; successive connects of one SSHClient to an unknown host under a pinning / warning policy with the second server presenting the same / another / a near-miss key; servers presenting a near-miss key (RSA modulus congruent to the stored one modulo the hash modulus; same modulus, other exponent); known_hosts FILES loaded through load_host_keys / load_system_host_keys (plain, tab, multi-name, hashed, comments, @revoked / @cert-authority / unknown marker lines) judged by an independent reference parser.  Every case is a distinct "
                "script and reaches the guard / gating / comparison code, hence non-trivial.")
    ctx.trusted += ["model coq/Model/C17.v is hand-written; tied to transport.py / client.py / auth_handler.py by "
                    "gen/c17.py (AST ordering checks, fail-closed) and this scripted differential run",
                    "thread interleaving finer than one message handler is outside the model",
                    "the host key comparison result CCompare is reconstructed from connect()'s exception"]
    ctx.assumptions += ["each Transport.run handler runs to completion before the next message is read (single "
                        "transport thread)", "a NEGOTIATED GSS-API key exchange is exempt from host key checking (as in the code); a peer that only advertises gss-X names is not"]
    ctx.prove(GENS)
    import logging
    logging.getLogger("paramiko").setLevel(logging.CRITICAL + 10)     # expected failures are noisy
    w = build_world(ctx)
    make_classes(w)
    # constants this check and the model write by hand, cross-checked against the live modules
    import paramiko.common as pc
    import paramiko.client as pcl
    live = {"MSG_IGNORE": 2, "MSG_UNIMPLEMENTED": 3, "MSG_DEBUG": 4, "MSG_SERVICE_REQUEST": 5, "MSG_SERVICE_ACCEPT": 6,
            "MSG_KEXINIT": 20, "MSG_NEWKEYS": 21, "MSG_USERAUTH_REQUEST": 50, "MSG_USERAUTH_SUCCESS": 52}
    for k, v in live.items():
        if getattr(pc, k, None) != v:
            ctx.disagree("message number %s differs from the one the check / model assume" % k, model=v,
                         impl=getattr(pc, k, None))
    if getattr(pcl, "SSH_PORT", None) != 22:
        ctx.disagree("SSH_PORT differs from the default port of model hostkey_name", model=22,
                     impl=getattr(pcl, "SSH_PORT", None))

    def model(run_fn, case_type, cases, what, rows_):
        """the model comparison never stops the implementation-level oracle (a translator / proof failure
        is reported by ctx.prove; a model that cannot run is a broken correspondence)"""
        try:
            bad = ctx.model_mismatches(run_fn, case_type, cases, imports="From PV Require Import C41 C17.")
        except Exception as e:  # noqa
            ctx.corr_broken.append({"what": "model %s could not be evaluated" % run_fn, "error": repr(e)[-600:]})
            return
        for i in bad[:3]:
            ctx.disagree(what, case=rows_[i][0], impl=rows_[i][2])

    # ---- 1. lifecycle ----
    rows = []
    for sc in lifecycle_scripts(ctx):
        events, obs, facts = run_script(ctx, w, sc)
        if facts.get("start") == "hang" or facts.get("final") == "hang":
            # retry once before believing a timing-dependent failure
            events, obs, facts = run_script(ctx, w, sc)
            if facts.get("start") == "hang" or facts.get("final") == "hang":
                check_script_property(ctx, sc, facts)
                ctx.fail("session-hang", "a scripted session did not finish", case=sc, observed=facts.get("start"))
                continue
        check_script_property(ctx, sc, facts)
        ctx.count(("script", repr(sc)), nontrivial=True,
                  kind="lifecycle-" + ("badsig" if sc["badsig"] else "inject" if sc["pre"] else
                                       "stray" if sc["post"] is not None else "honest"))
        if events is not None:
            rows.append((sc, events, obs))
        if len(ctx.samples) < 2:
            ctx.sample({"script": sc, "client_events": facts["obs"], "server_rx_types": facts["server_rx_types"]})

    # ---- 2. Transport.connect / 3. SSHClient.connect (oracles run inside) ----
    trows = tconnect_cases(ctx, w)
    crows = cconnect_cases(ctx, w)
    crows += reuse_cases(ctx, w)
    crows += reconnect_cases(ctx, w)
    it, ic = impostor_cases(ctx, w)
    trows += it
    crows += ic
    nf = file_cases(ctx, w)
    ctx.log("known_hosts files through the real parser: %d connects" % nf)
    if crows:
        ctx.sample({"sshclient": crows[0][0], "impl": crows[0][2]})

    # ---- model comparisons, after every oracle has run (independent coqc runs, evaluated concurrently) ----
    import threading
    jobs = [
        ("run_trace", "(list event)", [(e, o) for _, e, o in rows],
         "client event trace differs from model run", [({"script": r[0], "events": r[1]}, None, r[2]) for r in rows]),
        ("run_tconnect", "(option key * (bool * bool * bool) * key)", [(t, i) for _, t, i in trows],
         "Transport.connect differs from model transport_connect", trows),
        ("run_cconnect", "(hmap * (state * state) * (Z * Z * Z) * policy * (bool * bool * bool) * key)",
         [(t, i) for _, t, i in crows], "SSHClient.connect differs from model client_connect", crows),
    ]
    threads = [threading.Thread(target=lambda j=j: model(*j)) for j in jobs]
    for th in threads:
        th.start()
    for th in threads:
        th.join()
    ctx.exhaustive = bool(ctx.thorough)


def replay(ctx, rep):
    run(ctx)
