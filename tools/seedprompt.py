#!/usr/bin/env python3
"""seedprompt.py <tag> C01 C02 ... -> prints the prompt for a seeding sub-agent (property texts only)."""
import json, sys
tag = sys.argv[1]; ids = sys.argv[2:]
props = {json.loads(l)["id"]: json.loads(l) for l in open("/verif/properties.jsonl")}
wt = "/tmp/seed-%s" % tag
out = "/tmp/seed-%s-out" % tag
import glob, os
txt = []
for i in ids:
    p = props[i]
    t = 'Property %s — "%s": %s\n   (quantified over: %s)' % (i, p["title"], p["statement"], p["quantifier"]["text"])
    taken = []
    for d in sorted(glob.glob("/verif/seeded/%s-*/meta.json" % i)):
        try:
            taken.append("      - " + (json.load(open(d)).get("summary", "") or "")[:260].replace("\n", " "))
        except Exception:
            pass
    if taken:
        t += "\n   Changes ALREADY TAKEN by earlier engineers (produce different ones: another function, another mechanism):\n" + "\n".join(taken)
    txt.append(t)
print(f"""You have a scratch git worktree of the paramiko SSH library at {wt} (Python; run things with `/venv/bin/python`, e.g. `cd {wt} && /venv/bin/python -m pytest -q -p no:cacheprovider tests/test_transport.py`). Work ONLY inside {wt} and {out} (do not look at or touch /verif or /repo or any other /tmp directory).

Here are semantic properties the library is supposed to satisfy:

""" + "\n\n".join(txt) + f"""

Task: for EACH property above, produce TWO different, independent, realistic code changes to the library (each a small plausible edit such as a refactor gone subtly wrong, an off-by-one, a boundary condition, a dropped check or reset, a reordered pair of statements, a narrowed lock) that BREAK that property while the code still imports and the existing test suite still passes (run the full suite: `cd {wt} && /venv/bin/python -m pytest -q -p no:cacheprovider --timeout=900 -x -q 2>&1 | tail -3`, about 90-200 s; all 534 tests must still pass). Prefer changes that need something specific to manifest — a particular interleaving, a fault at a particular point, a multi-step sequence of operations, an unusual input, or two cooperating sites that each look fine alone — not ones that ordinary use would expose at once. Find the relevant code yourself by reading the library.

For property <ID> and change k in {{1,2}}: write the patch to {out}/<ID>-<k>/patch.diff (`git diff` output relative to the worktree root, containing ONLY that change), and a demonstration {out}/<ID>-<k>/demo.py — a small standalone program that takes the repo path as argv[1], puts it (and its tests/ directory if needed) first on sys.path, exits 0 when the property holds on the demonstrated scenario and exits 1 (printing what went wrong) when it is violated; it must be deterministic and finish within 60 s (use timeouts/watchdog threads for hangs). Verify yourself: demo exits 1 with the patch applied and 0 on the clean tree (`git checkout -- .`). Also write {out}/<ID>-<k>/meta.json: {{"property": "<ID>", "summary": ..., "needs_to_manifest": ..., "tests_run": ..., "files_touched": [...]}}. Only one change may be applied at a time; leave the worktree clean (`git checkout -- .`) at the end. If for some property you cannot find a second change that keeps the suite green, one is acceptable — say so. Report briefly what each change is.""")
