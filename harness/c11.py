"""C11 - key re-exchange is transparent to whatever traffic is in flight.

Proof: coq/Props/C11_props.v over coq/Model/C11.v (LTS: one transport thread, user threads, the
clear_to_send flag) and the reply-discipline table coq/Gen/C11_gen.v, regenerated on every run by
gen/c11.py (fail-closed AST call-graph walk of every inbound connection-layer handler).
Tie: real loopback Transport pairs (both roles) whose wire passes through a harness-controlled relay
(a latency-controlled network: bytes from B to A can be held and released).  Per cell: B's message M is
put in flight and held, A sends its KEXINIT (renegotiate_keys from a user thread, or the packetizer's
re-key request picked up by the transport thread), a user thread of A calls chan.sendall at a switch point placed
right after A's KEXINIT has been written (the KEXINIT sender is paused inside the recording packetizer
until the user thread has reached the gate or the wire), M and B's key exchange traffic are released.  A recording packetizer gives A's outbound type trace, a recording
`_send_user_message` tells which thread went through the gate with the flag in which state.  The canonical
outcome of every cell is compared with the model's `run_cell` (vm_compute over the generated table).
Further cells let the user thread call shutdown_write() / close() at that switch point while the peer's
WINDOW_ADJUST / EOF / CLOSE / data for the same channel is in flight (lock discipline: gen/c11.py lists every
send reachable inside a `self.lock` critical section of Channel / Transport; the model's step_gen makes the
transport thread block behind a user thread that parks at the gate with the lock).
Two more schedules: a user thread stopped between the gate and the write (switch point in the recording
packetizer before a user thread's write) while the exchange starts, and held traffic released in two segments
more than a read timeout apart, the first ending inside the first cipher block (the model has no notion of
segmentation: such cells must simply be transparent).
One more schedule: renegotiate_keys() twice back to back, the second call issued from a switch point placed
where the first one can return (our own Event installed as completion_event; its set() runs on the transport
thread inside _parse_newkeys), with a user send and the peer's reply held for a moment.  The model has two
variants of _parse_newkeys (v1: gate released atomically, completion signalled afterwards; v0: signalled
first); the translator's nk_atomic says which one the tree is and the cell must agree.
Oracle (independent of the model and of the translator): no message >= 50 between A's KEXINIT and A's NEWKEYS,
the transport thread never enters the gate while the flag is clear and never sits on a channel / transport
lock inside a handler while the exchange is pending (two stack samples of the transport thread), the re-exchange completes, both ends stay up, M's
effect and the queued user data are delivered afterwards.
"""
import linecache
import logging
import os
import re
import socket
import sys
import threading
import time

from common import coq, with_watchdog

PID = "C11"
LEVEL_TEXT = ("Machine-checked proof (Coq, closed under the global context) over an LTS of the transport thread, "
              "user threads and the clear_to_send flag, instantiated with the reply discipline of every inbound "
              "connection-layer handler regenerated from the source on every run: for all event sequences, every "
              "message >= 50 emitted between own KEXINIT and own NEWKEYS is an ungated reply of a handler the table "
              "marks Ungated (user-thread sends are always held back), the transport thread blocks on the flag "
              "exactly when a Gated handler (or the keepalive tick) replies during the exchange and is then never "
              "released (only it can set the flag), handlers that do not reply are transparent, no send is reachable "
              "inside a self.lock critical section of Channel/Transport (generated from every critical section) so "
              "the transport thread never waits on a lock held by a user thread parked at the gate (and the LTS "
              "shows it would stall for good if one were), and once NEWKEYS "
              "arrives every queued user send is emitted in order; the two desired theorems that fail in the code "
              "as written are proved refuted with the handlers named (known findings).  Tied to the code by the "
              "translator and by held-message cells on real loopback transport pairs compared with the model.")
LEVEL_NOTE = ("Partial: thread timing, the 0.1 s polling of the gate and the clear_to_send_timeout are outside the "
              "model (a blocked transport thread is modelled as blocked until an environment Timeout event); the "
              "key exchange itself is abstracted to KEXINIT / one kex message / NEWKEYS; atomic steps = critical "
              "sections under clear_to_send_lock, identified by hand and checked only by the cells; all channel "
              "locks and the transport lock are one lock in the model and a parked user's own timeout is not "
              "modelled; auth-layer "
              "handlers (types 50-79) and opaque callbacks (ServerInterface methods, x11/agent/tcp handlers) are "
              "not walked; gen/c11.py and the relay are trusted.  _parse_newkeys signals completion before releasing the gate "
              "(v0, known finding with a proposed repair; all universal theorems are about v1, C11_tree_is_v1 links "
              "them to the tree once the translator sees the repaired shape).  Known findings: replies of _parse_global_request "
              "/ _parse_channel_open are sent ungated during the exchange; Channel._handle_request / _handle_close "
              "/ _request_failed / _feed_extended and the keepalive tick go through the gate on the transport "
              "thread, which then waits on a flag only it can set until 'Key-exchange timed out'.")
TECHNIQUE = ("Coq proof (invariants over all event sequences of an LTS, finite sweeps over the generated discipline "
             "table) + fail-closed AST call-graph translator + relay-controlled loopback cells compared by vm_compute")

WATCH = 8.0
CTS_TIMEOUT = 1.0      # clear_to_send_timeout set on the instance under test (default 30 s)

_quiet_done = False
_KEY = None


def quiet():
    global _quiet_done
    if not _quiet_done:
        lg = logging.getLogger("paramiko")
        lg.addHandler(logging.NullHandler())
        lg.propagate = False
        lg.setLevel(logging.CRITICAL)
        _quiet_done = True


def _host_key():
    global _KEY
    if _KEY is None:
        import paramiko
        _KEY = paramiko.ECDSAKey.generate()
    return _KEY


def _wait(pred, timeout=WATCH):
    end = time.time() + timeout
    while time.time() < end:
        if pred():
            return True
        time.sleep(0.005)
    return bool(pred())


class Net:
    """a <-> [relay] <-> b ; bytes travelling towards `a` can be held and released in order."""

    def __init__(self):
        from _loop import LoopSocket
        self.a, self.ar, self.br, self.b = LoopSocket(), LoopSocket(), LoopSocket(), LoopSocket()
        self.a.link(self.ar)
        self.b.link(self.br)
        self.ar.settimeout(0.02)
        self.br.settimeout(0.02)
        self.lock = threading.Lock()
        self.holding = False
        self.held = bytearray()
        self.stop = False
        self.threads = [threading.Thread(target=self._pump, args=(self.ar, self.br, False), daemon=True),
                        threading.Thread(target=self._pump, args=(self.br, self.ar, True), daemon=True)]
        for t in self.threads:
            t.start()

    def _pump(self, src, dst, holdable):
        try:
            while not self.stop:
                try:
                    d = src.recv(1 << 16)
                except socket.timeout:
                    continue
                if not d:
                    break
                with self.lock:
                    if holdable and self.holding:
                        self.held += d
                    else:
                        dst.send(d)
        except Exception:
            pass
        finally:
            try:
                dst.close()
            except Exception:
                pass

    def hold(self):
        with self.lock:
            self.holding = True

    def held_bytes(self):
        with self.lock:
            return len(self.held)

    def release(self, split=0, gap=0.0):
        """Deliver what was held.  split=k: the first k bytes now, the rest (and whatever arrived meanwhile) after
        `gap` seconds - a packet that reaches the reader in two TCP segments."""
        if split:
            with self.lock:
                d = bytes(self.held[:split])
                del self.held[:split]
                if d:
                    try:
                        self.ar.send(d)
                    except Exception:
                        pass
            time.sleep(gap)
        with self.lock:
            d, self.held = bytes(self.held), bytearray()
            self.holding = False
            if d:
                try:
                    self.ar.send(d)
                except Exception:
                    pass

    def close(self):
        self.stop = True
        for s in (self.a, self.ar, self.br, self.b):
            try:
                s.close()
            except Exception:
                pass
        for t in self.threads:
            t.join(1)


def make_classes():
    import paramiko
    from paramiko.packet import Packetizer
    from paramiko.transport import Transport

    class RecP(Packetizer):
        """records (direction, type) in wire order"""

        def __init__(self, sock):
            super().__init__(sock)
            self.c11_log = []
            self.c11_lock = threading.Lock()

        def send_message(self, data):
            t = data.asbytes()[0]
            if t >= 50 and not isinstance(threading.current_thread(), Transport):
                # switch point: a user thread is past the gate and about to write
                hook = self.__dict__.pop("c11_presend_hook", None)
                if hook is not None:
                    hook()
            with self.c11_lock:
                self.c11_log.append(("out", t, threading.current_thread()))
                r = super().send_message(data)
            if t == 20:
                # switch point of the deterministic schedule: own KEXINIT is on the wire and the sender has
                # not yet run the statement that follows the write; the harness may run a user thread here
                hook = self.__dict__.pop("c11_kexinit_hook", None)
                if hook is not None:
                    hook()
            return r

        def read_message(self):
            t, m = super().read_message()
            self.c11_log.append(("in", t, None))
            return t, m

    class RecT(Transport):
        """records who goes through the gate and what the flag says at that moment"""

        def _send_user_message(self, data):
            log = self.__dict__.setdefault("c11_gate", [])
            log.append((data.asbytes()[0], threading.current_thread() is self, self.clear_to_send.is_set(),
                        self.in_kex))
            return super()._send_user_message(data)

    class Srv(paramiko.ServerInterface):
        def check_auth_password(self, u, p):
            return paramiko.AUTH_SUCCESSFUL

        def get_allowed_auths(self, u):
            return "password"

        def check_channel_request(self, kind, chanid):
            return paramiko.OPEN_SUCCEEDED

        def check_channel_exec_request(self, channel, command):
            return True

        def check_channel_shell_request(self, channel):
            return True

        def check_global_request(self, kind, msg):
            return False

    return RecP, RecT, Srv


class Sess:
    """Client/server pair over a Net; `role` names the side under test (A); B is the other one."""

    def __init__(self, role):
        quiet()
        RecP, RecT, Srv = make_classes()
        self.net = Net()
        self.role = role
        csock, ssock = (self.net.a, self.net.b) if role == "client" else (self.net.b, self.net.a)
        self.tc = RecT(csock, packetizer_class=RecP)
        self.ts = RecT(ssock, packetizer_class=RecP)
        self.ts.add_server_key(_host_key())
        ev = threading.Event()
        self.ts.start_server(ev, Srv())
        self.tc.connect(username="u", password="p")
        ev.wait(WATCH)
        self.cchan = self.tc.open_session(timeout=WATCH)
        self.schan = self.ts.accept(WATCH)
        if self.schan is None:
            raise RuntimeError("server did not accept the session channel")
        for c in (self.cchan, self.schan):
            c.settimeout(WATCH)
        self.A, self.B = (self.tc, self.ts) if role == "client" else (self.ts, self.tc)
        self.chanA, self.chanB = (self.cchan, self.schan) if role == "client" else (self.schan, self.cchan)
        self.A.clear_to_send_timeout = CTS_TIMEOUT
        self.A.__dict__.setdefault("c11_gate", [])

    def mark(self):
        self.i0 = len(self.A.packetizer.c11_log)
        self.g0 = len(self.A.c11_gate)
        self.b0 = len(self.B.packetizer.c11_log)

    def out_trace(self):
        return [(t, th is self.A) for d, t, th in list(self.A.packetizer.c11_log)[self.i0:] if d == "out"]

    def in_trace(self):
        return [t for d, t, _ in list(self.A.packetizer.c11_log)[self.i0:] if d == "in"]

    def b_in(self):
        return [t for d, t, _ in list(self.B.packetizer.c11_log)[self.b0:] if d == "in"]

    def gate(self):
        return list(self.A.c11_gate)[self.g0:]

    def close(self):
        for t in (self.tc, self.ts):
            try:
                t.close()
            except Exception:
                pass
        self.net.close()
        for t in (self.tc, self.ts):
            t.join(2)


# ---------------------------------------------------------------------------------------------
# cells

def _raw(t, ptype, *fields):
    from paramiko import Message
    m = Message()
    m.add_byte(bytes([ptype]))
    for kind, v in fields:
        getattr(m, "add_" + kind)(v)
    t._send_message(m)


# name -> (inbound type at A, takes the reply path, roles it applies to)
CELLS = [
    ("data", 94, False, ("client", "server")),
    ("stderr", 95, False, ("client", "server")),
    ("ext-discard", 95, False, ("client", "server")),
    ("ext-discard-ack", 95, True, ("client", "server")),
    ("window-adjust", 93, False, ("client", "server")),
    ("request-reply", 98, True, ("client", "server")),
    ("request-noreply", 98, False, ("client", "server")),
    ("eof", 96, False, ("client", "server")),
    ("close", 97, True, ("client", "server")),
    ("chan-success", 99, False, ("client", "server")),
    ("chan-failure", 100, True, ("client", "server")),
    ("global-reply", 80, True, ("client", "server")),
    ("global-noreply", 80, False, ("client", "server")),
    ("request-success-in", 81, False, ("client", "server")),
    ("request-failure-in", 82, False, ("client", "server")),
    ("channel-open", 90, True, ("client", "server")),
    ("open-failure-in", 92, False, ("client", "server")),
    ("open-success-in", 91, False, ("client", "server")),
    ("keepalive-tick", 0, True, ("client", "server")),
    ("nothing", 0, False, ("client", "server")),
]
CELL = {c[0]: c for c in CELLS}

KNOWN_UNGATED = {80: "global-request-reply-ungated-during-kex", 90: "channel-open-reply-ungated-during-kex"}
KNOWN_GATED = {98: "channel-request-reply-gated-on-transport-thread",
               97: "channel-close-reply-gated-on-transport-thread",
               100: "channel-failure-close-gated-on-transport-thread",
               95: "extended-data-window-adjust-gated-on-transport-thread",
               0: "keepalive-gated-on-transport-thread"}
WHAT = {
    "global-request-reply-ungated-during-kex":
        "Transport._parse_global_request answers an in-flight GLOBAL_REQUEST with REQUEST_SUCCESS/FAILURE via "
        "_send_message between own KEXINIT and own NEWKEYS",
    "channel-open-reply-ungated-during-kex":
        "Transport._parse_channel_open answers an in-flight CHANNEL_OPEN with OPEN_SUCCESS/FAILURE via _send_message "
        "between own KEXINIT and own NEWKEYS",
    "channel-request-reply-gated-on-transport-thread":
        "Channel._handle_request replies through _send_user_message on the transport thread during the exchange: the "
        "thread waits on clear_to_send, which only it can set, until 'Key-exchange timed out'",
    "channel-close-reply-gated-on-transport-thread":
        "Channel._handle_close sends EOF/CLOSE through _send_user_message on the transport thread during the exchange",
    "channel-failure-close-gated-on-transport-thread":
        "Channel._request_failed sends EOF/CLOSE through _send_user_message on the transport thread during the exchange",
    "extended-data-window-adjust-gated-on-transport-thread":
        "Channel._feed_extended credits discarded extended data through _send_user_message on the transport thread "
        "during the exchange",
    "keepalive-fires-while-need-rekey-pending":
        "a keepalive was sent from the read loop (timeout in the middle of a packet) while a threshold-triggered "
        "re-key was pending: the transport thread parks in _send_user_message on the cleared gate",
    "keepalive-gated-on-transport-thread":
        "the keepalive tick (global_request(wait=False) from the packetizer's read loop) goes through "
        "_send_user_message on the transport thread during an exchange not started by the thresholds",
}


def put_in_flight(s, name, rng):
    """B emits the cell's message towards A (the relay is holding).  Returns a delivery checker."""
    A, B, ca, cb = s.A, s.B, s.chanA, s.chanB
    rid = ca.get_id()          # A's id of the session channel = what B addresses
    if name == "data":
        payload = bytes(rng.randrange(256) for _ in range(rng.randrange(1, 200)))
        cb.sendall(payload)
        return lambda: _recvn(ca, len(payload)) == payload
    if name == "stderr":
        payload = bytes(rng.randrange(256) for _ in range(rng.randrange(1, 100)))
        cb.sendall_stderr(payload)
        return lambda: _recvn(ca, len(payload), stderr=True) == payload
    if name in ("ext-discard", "ext-discard-ack"):
        n = rng.randrange(20, 200)
        if name == "ext-discard-ack":
            ca.in_window_threshold = n - 1      # the credit for these bytes is due at once
        before = ca.in_window_sofar
        _raw(B, 95, ("int", rid), ("int", 2), ("string", b"x" * n))
        if name == "ext-discard":
            return lambda: _wait(lambda: ca.in_window_sofar == before + n)
        return lambda: _wait(lambda: 93 in [t for t in s.b_in()])
    if name == "window-adjust":
        n = rng.randrange(1000, 100000)
        before = ca.out_window_size
        _raw(B, 93, ("int", rid), ("int", n))
        # A's own queued user send (< 100 bytes) is debited from the same window
        return lambda: _wait(lambda: before + n - 100 < ca.out_window_size <= before + n)
    if name in ("request-reply", "request-noreply"):
        want = name == "request-reply"
        key = rng.choice(["keepalive@openssh.com", "xon-xoff", "no-such-request"])
        _raw(B, 98, ("int", rid), ("string", key), ("boolean", want))
        if want:
            return lambda: _wait(lambda: any(t in (99, 100) for t in s.b_in()))
        return lambda: True
    if name == "eof":
        cb.shutdown_write()
        return lambda: _recvn(ca, 1) == b""
    if name == "close":
        cb.close()
        return lambda: _wait(lambda: ca.closed and 97 in s.b_in())
    if name == "chan-success":
        _raw(B, 99, ("int", rid))
        return lambda: _wait(lambda: ca.event.is_set())
    if name == "chan-failure":
        _raw(B, 100, ("int", rid))
        return lambda: _wait(lambda: ca.closed and 97 in s.b_in())
    if name in ("global-reply", "global-noreply"):
        want = name == "global-reply"
        _raw(B, 80, ("string", rng.choice(["keepalive@openssh.com", "keepalive@lag.net", "hostkeys-00@openssh.com"])),
             ("boolean", want))
        if want:
            return lambda: _wait(lambda: any(t in (81, 82) for t in s.b_in()))
        return lambda: True
    if name == "request-success-in":
        _raw(B, 81)
        return lambda: True
    if name == "request-failure-in":
        _raw(B, 82)
        return lambda: True
    if name == "channel-open":
        _raw(B, 90, ("string", "session"), ("int", 77), ("int", 1 << 20), ("int", 1 << 15))
        return lambda: _wait(lambda: any(t in (91, 92) for t in s.b_in()))
    if name == "open-failure-in":
        _raw(B, 92, ("int", 4000), ("int", 1), ("string", "no"), ("string", "en"))
        return lambda: True
    if name == "open-success-in":
        _raw(B, 91, ("int", 4000), ("int", 5), ("int", 1 << 20), ("int", 1 << 15))
        return lambda: True
    raise KeyError(name)


def _recvn(ch, n, stderr=False):
    out = b""
    rd = ch.recv_stderr if stderr else ch.recv
    while len(out) < n:
        d = rd(n - len(out))
        if not d:
            break
        out += d
    return out


def offenders(trace):
    """types >= 50 emitted between own KEXINIT and own NEWKEYS; trace = [(type, on_transport_thread)]"""
    k, bad = False, []
    for t, tt in trace:
        if t == 20:
            k = True
        elif t == 21:
            k = False
        elif k and t >= 50:
            bad.append((t, tt))
    return bad


USER_TYPES = {"send": {94}, "shutdown_write": {96}, "close": {96, 97}, "open_channel": {90}}
# functions whose critical section the translator may report, per user operation
OP_FUNCS = {"send": {"Channel._send", "Channel.send", "Channel.sendall", "Channel.send_stderr"},
            "shutdown_write": {"Channel.shutdown", "Channel.shutdown_write", "Channel._send_eof"},
            "close": {"Channel.close", "Channel._close_internal"},
            "open_channel": {"Transport.open_channel", "Transport.open_session"}}
LOCK_LINE = re.compile(r"\bself\.lock\.acquire\(|\bwith self\.lock\b")


def tt_lock_frame(t):
    """(function, line text) when transport thread t currently sits in a paramiko function at a
    `self.lock.acquire()` line, else None."""
    fr = sys._current_frames().get(t.ident)
    while fr is not None:
        fn = fr.f_code.co_filename
        if os.sep + "paramiko" + os.sep in fn:
            line = linecache.getline(fn, fr.f_lineno).strip()
            if LOCK_LINE.search(line):
                return ("%s:%s" % (os.path.basename(fn), fr.f_code.co_name), fr.f_lineno)
            return None
        fr = fr.f_back
    return None


def run_cell(role, name, init, rng, user_send=True, op="send", switch="kexinit", split=0, keepalive=False):
    """One held-message cell.  Returns the observation dict (no judgement here)."""
    _, ptype, replies, _ = CELL[name]
    if op == "close" and name == "close":
        replies = False     # the channel is already closed locally: _close_internal has nothing left to send
    s = Sess(role)
    obs = {"role": role, "cell": name, "init": init, "ptype": ptype, "replies": replies, "op": op,
           "tt_lock_block": None, "switch": switch, "split": split,
           "keepalive": bool(keepalive or name == "keepalive-tick")}
    try:
        A, B = s.A, s.B
        if split:
            # the deliberate gap in the delivery eats into the (lowered) gate timeout of waiting user threads
            A.clear_to_send_timeout = CTS_TIMEOUT + (2.5 if keepalive else 1.0)
        if name == "keepalive-tick":
            A.clear_to_send_timeout = CTS_TIMEOUT + 1.0     # this cell keeps the traffic held for 0.7 s on purpose
        if name == "keepalive-tick" or keepalive:
            A.set_keepalive(0.3)
        s.mark()
        if switch != "kexinit-late":
            s.net.hold()
        deliver = None
        if ptype:
            b_out0 = len([1 for d, _, _ in B.packetizer.c11_log if d == "out"])
            deliver = put_in_flight(s, name, rng)
            if not _wait(lambda: s.net.held_bytes() > 0):
                raise RuntimeError("the in-flight message did not reach the relay")
            del b_out0
        rk = {}

        def renegotiate():
            try:
                A.renegotiate_keys()
                rk["ok"] = True
            except Exception as e:          # noqa
                rk["exc"] = e

        payload = b"queued-" + bytes(rng.randrange(97, 123) for _ in range(rng.randrange(1, 40)))
        us = {}

        def user():
            try:
                if op == "send":
                    s.chanA.sendall(payload)
                elif op == "shutdown_write":
                    s.chanA.shutdown_write()
                elif op == "open_channel":
                    import paramiko
                    try:
                        A.open_channel("session", timeout=WATCH)
                    except paramiko.ChannelException:
                        pass        # a client peer refuses the open: the request was delivered and answered
                else:
                    s.chanA.close()
                us["ok"] = True
            except Exception as e:          # noqa
                us["exc"] = e

        threads = []
        can_send = not (op == "send" and name in ("close", "chan-failure"))
        ut = threading.Thread(target=user, daemon=True)
        hk = {}
        hook_done = threading.Event()

        def at_kexinit():
            # schedule: [A: ... write KEXINIT] -> [user thread: chan.sendall up to the gate / the wire] -> [A: rest
            # of _send_kex_init].  With the flag cleared before the write the user thread finds it clear and waits.
            hk["started"] = True
            try:
                ut.start()
                threads.append(ut)
                _wait(lambda: any(not tt for t, tt, _, _ in s.gate()), 3.0)
                ent = [(t, flag) for t, tt, flag, _ in s.gate() if not tt]
                obs["user_flag_at_gate"] = ent[0][1] if ent else None
                if ent and ent[0][1]:
                    _wait(lambda: ent[0][0] in [t for t, _ in s.out_trace()], 3.0)
                if switch == "kexinit-late":
                    # a slow writer: the write has reached the peer, but the sender does not get control back until
                    # the transport thread has read and dispatched the peer's answering KEXINIT
                    if _wait(lambda: 20 in s.in_trace(), 1.0):
                        time.sleep(0.15)
            finally:
                hook_done.set()

        if switch == "presend" and user_send and can_send:
            # schedule: [user thread: gate passed (flag set), stopped just before the write] -> [A starts the
            # exchange] -> [user thread resumes once KEXINIT is out, or after 0.5 s when the KEXINIT sender is (as it
            # should be) held off by clear_to_send_lock until the user's write is done]
            at_write = threading.Event()

            def presend():
                at_write.set()
                _wait(lambda: 20 in [t for t, _ in s.out_trace()], 0.5)

            A.packetizer.c11_presend_hook = presend
            hk["started"] = True
            hook_done.set()
            ut.start()
            threads.append(ut)
            if not at_write.wait(WATCH):
                raise RuntimeError("the user thread did not reach the write")
        elif user_send and can_send:
            A.packetizer.c11_kexinit_hook = at_kexinit
        if init == "explicit":
            threads.append(threading.Thread(target=renegotiate, daemon=True))
        else:
            A.completion_event = threading.Event()
            A.packetizer._trigger_rekey()         # what send_message / read_message do at a threshold
        for t in list(threads):     # the switch-point hook appends the user thread to `threads` concurrently
            if t is not ut:
                t.start()
        if not _wait(lambda: 20 in [t for t, _ in s.out_trace()]):
            raise RuntimeError("A did not send KEXINIT")
        obs["kexinit_on_tt"] = [tt for t, tt in s.out_trace() if t == 20][0]
        if user_send and can_send:
            hook_done.wait(WATCH)       # the KEXINIT sender resumes only after the user thread reached the gate / wire
        if user_send and can_send and not hk.get("started"):
            ut.start()          # the switch point was not reached (cannot happen unless send_message is bypassed)
            threads.append(ut)
            _wait(lambda: any(not tt for t, tt, _, _ in s.gate()), 3.0)
        if name == "keepalive-tick":
            time.sleep(0.7)
        # with keepalives on, the gap in the middle of the packet outlasts the keepalive interval too, so the read
        # loop's timeouts in the middle of a packet reach _check_keepalive with the interval expired
        s.net.release(split=split, gap=(0.7 if keepalive else 0.25) if split else 0.0)
        # wait for the end of the story: exchange finished, or a party died
        def finished():
            return (21 in s.in_trace() and 21 in [t for t, _ in s.out_trace()]) or not A.is_active() \
                or not B.is_active()

        if not _wait(finished, 0.6):
            # not through after 0.6 s (normally ~20 ms): is the transport thread parked on a channel /
            # transport lock inside a handler?  Two samples 0.15 s apart must agree.
            f1 = tt_lock_frame(A)
            time.sleep(0.15)
            f2 = tt_lock_frame(A)
            if f1 is not None and f1 == f2 and not finished():
                obs["tt_lock_block"] = list(f1)
        done = _wait(finished, A.clear_to_send_timeout + WATCH)
        obs["finished"] = done
        time.sleep(0.05)
        for t in threads:
            t.join(A.clear_to_send_timeout + 3.0)
        obs["threads_left"] = sum(1 for t in threads if t.is_alive())
        tr = s.out_trace()
        obs["out"] = [t for t, _ in tr]
        obs["offenders"] = offenders(tr)
        obs["gate"] = s.gate()
        obs["tt_waited"] = [(t, k) for t, tt, flag, k in s.gate() if tt and not flag]
        obs["rekey_done"] = 21 in s.in_trace() and 21 in obs["out"]
        obs["a_alive"], obs["b_alive"] = A.is_active(), B.is_active()
        obs["a_exc"], obs["b_exc"] = repr(A.saved_exception), repr(B.saved_exception)
        obs["renegotiate"] = "ok" if rk.get("ok") else repr(rk.get("exc")) if init == "explicit" else "n/a"
        obs["user"] = "ok" if us.get("ok") else repr(us.get("exc"))
        obs["delivered_inflight"] = None
        obs["delivered_user"] = None
        if obs["rekey_done"] and obs["a_alive"] and obs["b_alive"]:
            if deliver is not None:
                st, v = with_watchdog(deliver, WATCH + 2)
                obs["delivered_inflight"] = st == "ok" and bool(v)
            if user_send and can_send and us.get("exc") is not None:
                obs["delivered_user"] = False       # the user's send raised: nothing to wait for
            elif user_send and can_send:
                if op == "send":
                    st, v = with_watchdog(lambda: _recvn(s.chanB, len(payload)) == payload, WATCH + 2)
                else:
                    want = {"shutdown_write": 96, "close": 97, "open_channel": 90}[op]
                    st, v = with_watchdog(lambda: _wait(lambda: want in s.b_in(), WATCH), WATCH + 2)
                obs["delivered_user"] = st == "ok" and bool(v)
                k21 = obs["out"].index(21)
                ut_types = USER_TYPES[op]
                user_out = [(i, t) for i, (t, tt) in enumerate(tr) if t in ut_types and not tt]
                obs["user_after_newkeys"] = bool(user_out) and all(i > k21 for i, _ in user_out)
                if switch == "presend":
                    k20 = obs["out"].index(20)      # a send already past the gate may (only) precede own KEXINIT
                    obs["user_after_newkeys"] = bool(user_out) and all(i < k20 or i > k21 for i, _ in user_out)
        return obs
    finally:
        s.close()


def tt_frame(t):
    """innermost paramiko frame of thread t: (file:function, line number, source line)"""
    fr = sys._current_frames().get(t.ident)
    while fr is not None:
        fn = fr.f_code.co_filename
        if os.sep + "paramiko" + os.sep in fn:
            return ["%s:%s" % (os.path.basename(fn), fr.f_code.co_name), fr.f_lineno,
                    linecache.getline(fn, fr.f_lineno).strip()]
        fr = fr.f_back
    return None


def run_slow_exchange(role, init, rng):
    """The peer's half of the exchange takes longer than clear_to_send_timeout while a user send is parked at the
    gate: that send times out (by design).  Afterwards the exchange must still complete, the gate must reopen and a
    later send must flow - the timed-out thread may not leave anything locked behind."""
    s = Sess(role)
    obs = {"role": role, "cell": "nothing", "init": init, "ptype": 0, "replies": False, "op": "send",
           "tt_lock_block": None, "switch": "slow", "split": 0, "delivered_inflight": None, "delivered_user": None,
           "offenders": [], "tt_waited": []}
    try:
        A, B = s.A, s.B
        A.clear_to_send_timeout = 0.5
        s.mark()
        s.net.hold()
        rk, us, threads = {}, {}, []

        def renegotiate():
            try:
                A.renegotiate_keys()
                rk["ok"] = True
            except Exception as e:          # noqa
                rk["exc"] = e

        def user():
            try:
                s.chanA.sendall(b"parked-" + bytes(rng.randrange(97, 123) for _ in range(rng.randrange(1, 30))))
                us["ok"] = True
            except Exception as e:          # noqa
                us["exc"] = e

        ut = threading.Thread(target=user, daemon=True)

        def at_kexinit():
            ut.start()
            _wait(lambda: any(not tt for t, tt, _, _ in s.gate()), 3.0)

        A.packetizer.c11_kexinit_hook = at_kexinit
        if init == "explicit":
            t1 = threading.Thread(target=renegotiate, daemon=True)
            t1.start()
            threads.append(t1)
        else:
            A.completion_event = threading.Event()
            A.packetizer._trigger_rekey()
        if not _wait(lambda: 20 in [t for t, _ in s.out_trace()]):
            raise RuntimeError("A did not send KEXINIT")
        _wait(lambda: ut.ident is not None, 3.0)
        ut.join(0.5 + 3.0)          # the parked send gives up after clear_to_send_timeout
        obs["parked_send"] = "still waiting" if ut.is_alive() else ("ok" if us.get("ok") else repr(us.get("exc")))
        s.net.release()             # ... and only now does the peer's half arrive

        def finished():
            return (21 in s.in_trace() and 21 in [t for t, _ in s.out_trace()]) or not A.is_active() \
                or not B.is_active()

        obs["finished"] = _wait(finished, 3.0)
        if not obs["finished"]:
            f1 = tt_frame(A)
            time.sleep(0.15)
            f2 = tt_frame(A)
            obs["transport_thread_at"] = f1 if f1 == f2 else [f1, f2]
        for t in threads:
            t.join(1.0 if not obs["finished"] else 3.0)
        obs["threads_left"] = sum(1 for t in threads if t.is_alive())
        tr = s.out_trace()
        obs["out"] = [t for t, _ in tr]
        obs["offenders"] = offenders(tr)
        obs["gate"] = s.gate()
        obs["tt_waited"] = [(t, k) for t, tt, flag, k in s.gate() if tt and not flag]
        obs["rekey_done"] = 21 in s.in_trace() and 21 in obs["out"]
        obs["a_alive"], obs["b_alive"] = A.is_active(), B.is_active()
        obs["a_exc"], obs["b_exc"] = repr(A.saved_exception), repr(B.saved_exception)
        obs["renegotiate"] = "ok" if rk.get("ok") else repr(rk.get("exc")) if init == "explicit" else "n/a"
        obs["user"] = "ok"
        if obs["rekey_done"] and obs["a_alive"] and obs["b_alive"]:
            later = b"later-" + bytes(rng.randrange(97, 123) for _ in range(rng.randrange(1, 30)))

            def send_later():
                s.chanA.sendall(later)
                return _recvn(s.chanB, len(later)) == later

            st, v = with_watchdog(send_later, 4.0)
            obs["delivered_user"] = st == "ok" and bool(v)
            obs["later_send"] = st if st != "exc" else repr(v)
        return obs
    finally:
        s.close()


def run_back2back(role, rng):
    """renegotiate_keys() twice back to back: the second call is issued the moment the first one can return, i.e.
    when completion_event is set.  Switch point: our own Event object installed as transport.completion_event; its
    set() runs (on the transport thread, inside _parse_newkeys) the second renegotiate_keys and a user send before
    letting _parse_newkeys continue."""
    s = Sess(role)
    obs = {"role": role, "cell": "nothing", "init": "back2back", "ptype": 0, "replies": False, "op": "send",
           "tt_lock_block": None, "switch": "completion", "split": 0, "delivered_inflight": None,
           "delivered_user": None}
    try:
        A, B = s.A, s.B
        s.mark()
        payload = b"queued-" + bytes(rng.randrange(97, 123) for _ in range(rng.randrange(1, 40)))
        rk, us, threads = {}, {}, []

        def renegotiate(tag):
            try:
                A.renegotiate_keys()
                rk[tag] = "ok"
            except Exception as e:          # noqa
                rk[tag] = repr(e)

        def user():
            try:
                s.chanA.sendall(payload)
                us["ok"] = True
            except Exception as e:          # noqa
                us["exc"] = e

        def n20():
            return len([1 for t, _ in s.out_trace() if t == 20])

        class SwitchEvent(threading.Event):
            def set(self):
                super().set()
                if not obs.get("switched"):
                    obs["switched"] = True
                    obs["flag_at_completion"] = A.clear_to_send.is_set()
                    s.net.hold()        # the peer's answer to the second KEXINIT stays in flight for a moment
                    t2 = threading.Thread(target=renegotiate, args=("second",), daemon=True)
                    t2.start()
                    threads.append(t2)
                    _wait(lambda: n20() >= 2, 3.0)
                    ut = threading.Thread(target=user, daemon=True)
                    ut.start()
                    threads.append(ut)
                    _wait(lambda: any(not tt for t, tt, _, _ in s.gate()), 3.0)
                    switched.set()

        switched = threading.Event()
        s.net.hold()
        t1 = threading.Thread(target=renegotiate, args=("first",), daemon=True)
        t1.start()
        threads.append(t1)
        if not _wait(lambda: n20() >= 1):
            raise RuntimeError("A did not send KEXINIT")
        A.completion_event = SwitchEvent()        # renegotiate_keys re-reads the attribute on every poll
        s.net.release()
        if not switched.wait(WATCH):
            raise RuntimeError("completion_event was not signalled")
        # the transport thread now runs the rest of _parse_newkeys; give a released user thread time to write
        _wait(lambda: 94 in [t for t, _ in s.out_trace()], 0.5)
        s.net.release()

        def finished():
            return (s.in_trace().count(21) >= 2 and [t for t, _ in s.out_trace()].count(21) >= 2) \
                or not A.is_active() or not B.is_active()

        obs["finished"] = _wait(finished, CTS_TIMEOUT + WATCH)
        time.sleep(0.05)
        for t in list(threads):
            t.join(CTS_TIMEOUT + 3.0)
        obs["threads_left"] = sum(1 for t in threads if t.is_alive())
        tr = s.out_trace()
        obs["out"] = [t for t, _ in tr]
        obs["offenders"] = offenders(tr)
        obs["gate"] = s.gate()
        obs["tt_waited"] = [(t, k) for t, tt, flag, k in s.gate() if tt and not flag]
        obs["rekey_done"] = s.in_trace().count(21) >= 2 and obs["out"].count(21) >= 2
        obs["a_alive"], obs["b_alive"] = A.is_active(), B.is_active()
        obs["a_exc"], obs["b_exc"] = repr(A.saved_exception), repr(B.saved_exception)
        obs["renegotiate"] = "ok" if rk.get("first") == "ok" and rk.get("second") == "ok" else repr(rk)
        obs["user"] = "ok" if us.get("ok") else repr(us.get("exc"))
        if obs["rekey_done"] and obs["a_alive"] and obs["b_alive"]:
            if us.get("exc") is not None:
                obs["delivered_user"] = False
            else:
                st, v = with_watchdog(lambda: _recvn(s.chanB, len(payload)) == payload, WATCH + 2)
                obs["delivered_user"] = st == "ok" and bool(v)
                last21 = max(i for i, (t, _) in enumerate(tr) if t == 21)
                user_out = [i for i, (t, tt) in enumerate(tr) if t == 94 and not tt]
                obs["user_after_newkeys"] = bool(user_out) and all(i > last21 for i in user_out)
        return obs
    finally:
        s.close()


def canonical(obs):
    """[code; delivered; offender types...]  code: 2 transport thread waited on the flag, 1 a message >= 50 went
    out between KEXINIT and NEWKEYS, 0 transparent."""
    if obs.get("tt_lock_block"):
        return [3, 0]
    if obs["tt_waited"]:
        return [2, 0]
    if obs["offenders"]:
        return [1, 0]       # which of the handler's reply types went out is checked against the table in run()
    ok = obs["rekey_done"] and obs["a_alive"] and obs["b_alive"] and obs["delivered_user"] is not False \
        and obs["delivered_inflight"] is not False
    return [0, 1 if ok else 0]


def judge(ctx, obs):
    """The property stated directly on the observation; every failure carries the key of its call site."""
    case = {"role": obs["role"], "cell": obs["cell"], "init": obs["init"], "op": obs.get("op", "send"),
            "switch": obs.get("switch", "kexinit"), "split": obs.get("split", 0),
            "keepalive": bool(obs.get("keepalive")) and obs["cell"] != "keepalive-tick"}
    p = obs["ptype"]
    if obs.get("switch") == "slow" and not obs["offenders"] and not obs["tt_waited"]:
        if "timed out" not in obs.get("parked_send", ""):
            ctx.fail("parked-send-did-not-time-out", "a user send parked behind an exchange longer than "
                     "clear_to_send_timeout did not raise", case=case, observed={"parked_send": obs.get("parked_send")})
        if not (obs["rekey_done"] and obs["a_alive"] and obs["b_alive"]):
            ctx.fail("exchange-cannot-complete-after-user-send-timeout",
                     "after a user send timed out at the gate the re-exchange can no longer complete: the transport "
                     "thread is stuck behind something the timed-out thread left locked",
                     case=case, expected="NEWKEYS both ways once the peer's half arrives, gate reopened",
                     observed={k: obs.get(k) for k in ("out", "transport_thread_at", "parked_send", "rekey_done",
                                                       "a_alive", "a_exc", "renegotiate")})
        elif obs["delivered_user"] is False:
            ctx.fail("later-send-blocked-after-user-send-timeout",
                     "a send issued after the exchange completed did not get through",
                     case=case, observed={"out": obs["out"], "later_send": obs.get("later_send")})
        return
    if obs.get("tt_lock_block"):
        ctx.fail("transport-thread-blocked-on-lock-held-across-gated-send",
                 "during own re-key the transport thread is blocked in a handler on a lock that a user thread holds "
                 "while it waits in _send_user_message: the exchange stalls until the user's send times out",
                 case=case, expected="no gated send is performed while holding a lock a handler needs",
                 observed={"transport_thread_at": obs["tt_lock_block"], "user_op": obs.get("op"), "user": obs["user"],
                           "out": obs["out"], "gate": [list(g) for g in obs["gate"]]})
        return
    for t, tt in obs["offenders"]:
        if not tt and obs["init"] == "back2back":
            ctx.fail("renegotiate-in-newkeys-window-undoes-flag-clear",
                     "_parse_newkeys signals completion_event before it sets clear_to_send: a renegotiate_keys() issued "
                     "when the previous one returns has its clear() undone by the late set(), user data follows the new "
                     "KEXINIT and the peer aborts",
                     case=case, expected="held until the second NEWKEYS",
                     observed={"type": t, "out": obs["out"], "flag_at_completion": obs.get("flag_at_completion"),
                               "peer_exc": obs["b_exc"]})
        elif not tt:
            ctx.fail("user-send-ungated-during-kex",
                     "a user thread emitted a message >= 50 between own KEXINIT and own NEWKEYS",
                     case=case, expected="held until NEWKEYS", observed={"type": t, "out": obs["out"]})
        else:
            key = KNOWN_UNGATED.get(p, "ungated-reply-during-kex-to-type-%d" % p)
            ctx.fail(key, WATCH_TEXT(key, "the transport thread emitted a message >= 50 between own KEXINIT and own "
                                          "NEWKEYS in reply to type %d" % p),
                     case=case, expected="only transport/kex messages between KEXINIT and NEWKEYS",
                     observed={"type": t, "out": obs["out"], "peer_alive": obs["b_alive"], "peer_exc": obs["b_exc"]})
    for t, _ in obs["tt_waited"]:
        key = KNOWN_GATED.get(p, "transport-thread-waits-on-clear-to-send-type-%d" % p)
        if t == 80 and obs.get("keepalive"):
            # the gated message is the keepalive itself, whatever was in flight; while need_rekey is set
            # Packetizer._check_keepalive must not run the callback at all
            key = "keepalive-fires-while-need-rekey-pending" if obs["init"] == "threshold" else KNOWN_GATED[0]
        ctx.fail(key, WATCH_TEXT(key, "the transport thread entered _send_user_message while clear_to_send was clear "
                                      "(handling type %d)" % p),
                 case=case, expected="the transport thread never waits on clear_to_send",
                 observed={"gated_type": t, "a_alive": obs["a_alive"], "a_exc": obs["a_exc"], "out": obs["out"]})
    k20 = [i for i, t in enumerate(obs["out"]) if t == 20]
    if obs["init"] != "back2back" and len(k20) > 1 and 21 not in obs["out"][k20[0]:k20[1]]:
        ctx.fail("second-kexinit-inside-one-exchange",
                 "a second KEXINIT was sent between own KEXINIT and own NEWKEYS (the transport thread did not see that "
                 "this side had already started the exchange); the peer aborts",
                 case=case, expected="one KEXINIT per exchange",
                 observed={"out": obs["out"], "a_exc": obs["a_exc"], "b_exc": obs["b_exc"],
                           "renegotiate": obs["renegotiate"]})
        return
    if not obs["offenders"] and not obs["tt_waited"]:
        if not (obs["rekey_done"] and obs["a_alive"] and obs["b_alive"]) or obs["renegotiate"] not in ("ok", "n/a"):
            ctx.fail("session-dies-on-segmented-delivery-during-rekey" if obs.get("split") else "rekey-stalled",
                     "an inbound packet delivered in two pieces more than a read timeout apart during the re-exchange "
                     "desynchronised the stream / killed the session" if obs.get("split") else
                     "the re-exchange did not complete although nothing illegal was sent",
                     case=case, expected="NEWKEYS both ways, both ends active",
                     observed={k: obs[k] for k in ("out", "rekey_done", "a_alive", "b_alive", "a_exc", "b_exc",
                                                   "renegotiate")})
        else:
            if obs["delivered_inflight"] is False:
                ctx.fail("inflight-not-delivered", "the in-flight message had no effect after the re-exchange",
                         case=case, observed={"out": obs["out"]})
            if obs["delivered_user"] is False or obs["user"] != "ok" and obs["delivered_user"] is not None:
                ctx.fail("queued-not-delivered", "user data queued during the re-exchange was not delivered afterwards",
                         case=case, expected="delivered after NEWKEYS",
                         observed={"out": obs["out"], "user": obs["user"], "threads_left": obs["threads_left"]})
            elif obs.get("user_after_newkeys") is False:
                ctx.fail("user-send-ungated-during-kex", "queued user data was not sent after own NEWKEYS",
                         case=case, observed={"out": obs["out"]})


def WATCH_TEXT(key, default):
    return WHAT.get(key, default)


def model_case(obs):
    """(init, ptype, replies, keepalive) for run_cell in coq/Model/C11.v"""
    return ({"explicit": 0, "threshold": 1, "back2back": 2}[obs["init"]], obs["ptype"], bool(obs["replies"]),
            bool(obs.get("keepalive")), bool(obs.get("ulocked")), bool(obs.get("nka")))


def _gen_tables(repo):
    import importlib.util
    import os
    path = os.path.join(os.path.dirname(os.path.dirname(os.path.abspath(__file__))), "gen", "c11.py")
    spec = importlib.util.spec_from_file_location("gen_c11_for_harness", path)
    mod = importlib.util.module_from_spec(spec)
    spec.loader.exec_module(mod)
    return mod.tables(repo)


def guarded_cell(ctx, role, name, init, rng, op="send", switch="kexinit", split=0, keepalive=False):
    box = {}

    def go():
        if init == "back2back":
            box["obs"] = run_back2back(role, rng)
        elif switch == "slow":
            box["obs"] = run_slow_exchange(role, init, rng)
        else:
            box["obs"] = run_cell(role, name, init, rng, op=op, switch=switch, split=split, keepalive=keepalive)

    for attempt in (0, 1):
        st, v = with_watchdog(go, 60)
        if st == "ok":
            obs = box["obs"]
            # a timing-dependent surprise is retried once before it is believed
            if attempt == 0 and not obs["finished"]:
                continue
            return obs
        if attempt == 1:
            if st == "exc":
                raise v
            ctx.fail("cell-hang", "a cell did not finish", case={"role": role, "cell": name, "init": init, "op": op,
                                                                         "switch": switch, "split": split})
    return None


def run(ctx):
    rng = ctx.rng
    ctx.rule = ("cells = {client, server as the side under test} x 20 kinds of in-flight peer message (channel data, "
                "stderr data, discarded extended data with/without a credit due, window adjust, channel request "
                "with/without reply, EOF, CLOSE, channel success/failure, global request with/without reply, "
                "request success/failure, channel open, open success/failure, a keepalive tick, nothing) x "
                "{explicit renegotiate_keys from a user thread, re-key request picked up by the transport thread}; "
                "payloads, request names and sizes from the seeded generator; a user thread sends channel data "
                "at a switch point right after own KEXINIT is written; 12 further cells (24 thorough) where that user "
                "thread calls shutdown_write() / close() while the peer's WINDOW_ADJUST / EOF / CLOSE / data for the "
                "channel is in flight; 4 cells with the user thread stopped between gate and write when the exchange "
                "starts; 2 cells with two renegotiate_keys back to back, the second inside the first one's "
                "_parse_newkeys; 2 cells (4 thorough) where the peer's half of the exchange arrives only after a parked "
                "user send has timed out at the gate (the exchange must still complete and a later send must flow); "
                "2 cells where the renegotiate_keys caller gets control back from the KEXINIT write only "
                "after the peer's KEXINIT was dispatched; 2 cells (6 thorough) where the user thread calls "
                "open_channel during the exchange with OPEN_FAILURE / data / CHANNEL_OPEN in flight; 2 cells (8 thorough) "
                "with keepalives enabled and a packet arriving in two pieces 0.7 s "
                "apart during the exchange; 6 cells (12 thorough) where the held traffic arrives in two segments 0.25 s apart split at "
                "byte 1..7 (thorough also 9/17/33); quick tier takes every kind once per role with the initiation mode drawn from "
                "the seed, thorough takes all combinations twice; a cell is non-trivial when something was in "
                "flight or a user send was queued")
    ctx.trusted += ["gen/c11.py (AST call-graph walk, fail-closed) and the identification of atomic steps of the LTS "
                    "with the critical sections under clear_to_send_lock",
                    "the relay (harness Net) as the model of a latency-controlled network; B is a paramiko peer, "
                    "which aborts on a non-kex message during the exchange (RFC 4253 7.1 allows that)"]
    ctx.assumptions += ["renegotiate_keys is called only while no exchange is in progress",
                        "opaque callbacks (ServerInterface methods, x11/agent/tcp handlers) do not send"]
    ctx.prove()
    plan = []
    for name, ptype, replies, roles in CELLS:
        for role in roles:
            if ctx.thorough:
                for init in ("explicit", "threshold"):
                    plan += [(role, name, init)] * 2
            else:
                plan.append((role, name, rng.choice(["explicit", "threshold"])))
    # the two witnesses of DESIGN.md section 8 are always exercised in the mode they were found in
    for forced in (("client", "global-reply", "explicit"), ("client", "request-reply", "explicit"),
                   ("server", "keepalive-tick", "explicit"), ("client", "keepalive-tick", "threshold")):
        if forced not in plan:
            plan.append(forced)
    plan = [(r, n, i, "send") for r, n, i in plan]
    # a user thread shuts down / closes the channel during own re-key while the peer's message for that channel
    # (handlers that need Channel.lock, and one that does not) is in flight
    for op, names in (("shutdown_write", ("window-adjust", "eof", "data")), ("close", ("window-adjust", "eof", "close"))):
        for name in names:
            for role in ("client", "server"):
                for init in (("explicit", "threshold") if ctx.thorough else (rng.choice(["explicit", "threshold"]),)):
                    plan.append((role, name, init, op))
    plan = [x + ("kexinit", 0) for x in plan]
    for role in ("client", "server"):
        # a user thread already past the gate when the exchange starts (both initiations)
        for init in ("explicit", "threshold"):
            plan.append((role, rng.choice(["data", "nothing", "window-adjust"]), init, "send", "presend", 0))
        # the held traffic reaches A in two segments, the first one ending inside the first cipher block
        for name in ("data", "window-adjust", "nothing"):
            for init in (("threshold", "explicit") if ctx.thorough else ("threshold",)):
                k = rng.randrange(1, 8) if not ctx.thorough or rng.random() < 0.7 else rng.choice([9, 17, 33])
                plan.append((role, name, init, "send", "kexinit", k))
    for role in ("client", "server"):
        # the user thread that called renegotiate_keys() gets control back from the KEXINIT write only after the
        # transport thread has dispatched the peer's answering KEXINIT (slow / back-pressured writer)
        plan.append((role, "nothing", "explicit", "send", "kexinit-late", 0))
        # a user thread opens a channel during own re-key while a message whose handler needs Transport.lock crosses
        for name in (("open-failure-in", "data", "channel-open") if ctx.thorough else ("open-failure-in",)):
            plan.append((role, name, rng.choice(["explicit", "threshold"]), "open_channel", "kexinit", 0))
        # the exchange outlasts clear_to_send_timeout with a user send parked at the gate
        for init in (("explicit", "threshold") if ctx.thorough else (rng.choice(["explicit", "threshold"]),)):
            plan.append((role, "nothing", init, "send", "slow", 0))
    plan = [x + (False,) for x in plan]
    for role in ("client", "server"):
        plan.append((role, "nothing", "back2back", "send", "completion", 0, False))
        # keepalives enabled + re-key + a packet of the exchange (or the in-flight message) arriving in two pieces
        # with a gap longer than the read timeout and the keepalive interval.  Threshold-triggered: the guard in
        # _check_keepalive must keep the tick away; explicit (thorough): the registered keepalive finding.
        for name in (("nothing", "data") if ctx.thorough else (rng.choice(["nothing", "data"]),)):
            for init in (("threshold", "explicit") if ctx.thorough else ("threshold",)):
                plan.append((role, name, init, "send", "kexinit", rng.randrange(1, 8), True))
    # which user operations send while holding self.lock, according to the translator (none on a sound tree)
    locked_ops = set()
    nka = None
    try:
        facts = _gen_tables(ctx.repo)["facts"]
        lf = {f for f, _ in facts["locked_sends"]}
        locked_ops = {o for o, fs in OP_FUNCS.items() if fs & lf}
        nka = bool(facts["nk_atomic"])
        ctx.notes.append("model variant for the NEWKEYS window: %s" % ("v1 (atomic release)" if nka else
                                                                        "v0 (completion signalled first)"))
    except Exception as e:      # reported by ctx.prove(); the oracle below does not depend on it
        ctx.notes.append("translator unavailable for the lock cross-check: %r" % (e,))
    results = []
    t0 = time.time()
    # cells are independent sessions: run them on a few workers, each with its own generator derived from the seed
    import random
    from concurrent.futures import ThreadPoolExecutor

    def one(item):
        i, (role, name, init, op, switch, split, keepalive) = item
        return guarded_cell(ctx, role, name, init, random.Random("C11-%d-cell-%d" % (ctx.seed, i)), op=op,
                            switch=switch, split=split, keepalive=keepalive)

    with ThreadPoolExecutor(max_workers=3) as ex:
        observed = list(ex.map(one, list(enumerate(plan))))
    for (role, name, init, op, switch, split, keepalive), obs in zip(plan, observed):
        if obs is None:
            continue
        obs["ulocked"] = op in locked_ops
        obs["nka"] = nka if nka is not None else not (obs["init"] == "back2back" and obs["offenders"])
        ctx.count((role, name, init, op, switch, split, keepalive, tuple(obs["out"])), nontrivial=True,
                  kind="%s-%s-%s%s%s" % (name, op, init, "-presend" if switch == "presend" else "",
                                         "-split" if split else "") + ("-keepalive" if keepalive else ""))
        judge(ctx, obs)
        results.append(obs)
    ctx.log("%d cells in %.1fs" % (len(results), time.time() - t0))
    ctx.traces = len(results)
    if ctx.proof is not None and ctx.proof.model_ok:
        cases = [(coq(model_case(o)), canonical(o)) for o in results]
        bad = ctx.model_mismatches("run_cell", "(Z * Z * bool * bool * bool * bool)", cases)
        for i in bad[:4]:
            o = results[i]
            ctx.disagree("cell outcome differs from the model's prediction over the generated discipline table",
                         case={"role": o["role"], "cell": o["cell"], "init": o["init"], "op": o["op"]},
                         impl={"canonical": canonical(o), "out": o["out"], "tt_waited": o["tt_waited"],
                               "tt_lock_block": o["tt_lock_block"],
                               "a_exc": o["a_exc"], "b_exc": o["b_exc"]})
    # offender / gated types must be among the types the generated table lists for that handler
    try:
        tab = _gen_tables(ctx.repo)
        types = {r["ptype"]: set(r["types"]) for r in tab["rows"]}
        types[0] = set(tab["keepalive"]["types"])
        for o in results:
            seen = set(t for t, tt in o["offenders"] if tt) | set(t for t, _ in o["tt_waited"])
            allowed = types.get(o["ptype"], set()) | (types[0] if o.get("keepalive") else set())
            if not seen <= allowed:
                ctx.disagree("a handler emitted a message type the generated table does not list for it",
                             case={"role": o["role"], "cell": o["cell"], "init": o["init"]},
                             model=sorted(allowed), impl=sorted(seen))
    except Exception as e:      # the translator failing is already reported by ctx.prove()
        ctx.notes.append("table cross-check skipped: %r" % (e,))
    for o in results:
        if o["cell"] in ("global-reply", "request-reply", "data"):
            ctx.sample({"cell": {k: o[k] for k in ("role", "cell", "init", "out", "tt_waited", "a_exc", "b_exc",
                                                   "rekey_done", "delivered_user")},
                        "impl": canonical(o), "model_input": list(model_case(o))})


def replay(ctx, rep):
    case = rep.get("case")
    if not isinstance(case, dict) or "cell" not in case:
        return run(ctx)
    ctx.prove()
    for k in range(2):
        obs = guarded_cell(ctx, case["role"], case["cell"], case["init"], ctx.rng, op=case.get("op", "send"),
                           switch=case.get("switch", "kexinit"), split=case.get("split", 0),
                           keepalive=case.get("keepalive", False))
        if obs is not None:
            ctx.count(("replay", k, tuple(obs["out"])))
            judge(ctx, obs)
