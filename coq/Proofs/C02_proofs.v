(* C02 proofs: what a delivered message was authenticated by *)
From PV Require Import Bytes C01 C01_proofs C02.
From Coq Require Import ZArith List Bool Lia ZifyBool.
Import ListNotations.
Open Scope Z_scope.

Section Inv.
Variable P : prims.
Notation FS := (list Z).

Ltac inv_step H :=
  match type of H with
  | context [match ftake ?n ?b with _ => _ end] =>
      let E := fresh "Et" in destruct (ftake n b) as [[? ?]|] eqn:E; try discriminate H
  | context [if ?c then _ else _] =>
      let E := fresh "Ec" in destruct c eqn:E; try discriminate H
  | context [match a_dec ?Q ?k ?iv ?c ?a with _ => _ end] =>
      let E := fresh "Ea" in destruct (a_dec Q k iv c a) eqn:E; try discriminate H
  | context [match inc_iv ?iv with _ => _ end] =>
      let E := fresh "Ei" in destruct (inc_iv iv) eqn:E; try discriminate H
  | context [match finish ?Q ?r ?m ?sz ?pk ?ev with _ => _ end] =>
      let E := fresh "Ef" in destruct (finish Q r m sz pk ev) as [[[? ?] ?]|] eqn:E; try discriminate H
  end.

Lemma finish_ev r m sz pk ev p ev' r' : finish P r m sz pk ev = Ok (p, ev', r') -> ev' = ev.
Proof.
  unfold finish. destruct pk as [|pad pk]; [discriminate|].
  destruct (match p_z r with
            | Some z => bind (z_decomp P z (py_slice1 (pad :: pk) (sz - pad))) (fun dz => Ok (fst dz, Some (snd dz)))
            | None => Ok (py_slice1 (pad :: pk) (sz - pad), None)
            end) as [pz|]; cbn [bind]; [|discriminate].
  destruct (((p_seq r + 1) mod 2 ^ 32 =? 0) && negb (p_kex r)); [discriminate|].
  destruct (fst pz); [discriminate|]. intros H. now injection H.
Qed.

Ltac fin_ev :=
  match goal with E : finish _ _ _ _ _ _ = Ok (_, ?a, _) |- _ =>
    let X := fresh in pose proof (finish_ev _ _ _ _ _ _ _ _ E) as X; subst a end.

(* C02_no_deliver_before_check: a payload is produced only by `finish`, and only after the tag
   comparison (constant_time_bytes_eq / AEAD decrypt) succeeded on bytes bound to the current
   sequence number / IV *)
Lemma deliver_inv r buf p ev r' rest :
  read_message P FS ftake r buf = Done (p, ev, r') rest ->
  match p_mode r with
  | Plain => True
  | Classic c k =>
      0 < p_msz r ->
      exists size packet tag m',
        ev = EvMac (mac_input (p_seq r) size packet) tag /\
        constant_time_bytes_eq (mac_tag P k (p_msz r) (mac_input (p_seq r) size packet)) tag = true /\
        finish P r m' size packet ev = Ok (p, ev, r')
  | Etm c k =>
      exists size packet tag,
        ev = EvMac (mac_input (p_seq r) size packet) tag /\
        constant_time_bytes_eq (mac_tag P k (p_msz r) (mac_input (p_seq r) size packet)) tag = true /\
        finish P r (Etm (snd (c_dec P c packet)) k) size (fst (c_dec P c packet)) ev = Ok (p, ev, r')
  | Aead k iv =>
      exists aad ct pt iv',
        ev = EvAead iv aad ct /\ a_dec P k iv ct aad = Some pt /\ inc_iv iv = Ok iv' /\
        finish P r (Aead k iv') (be_decode aad) pt ev = Ok (p, ev, r')
  end.
Proof.
  intros H. unfold read_message, read_body, read_classic in H. cbv zeta in H.
  unfold rbind, rtake, rlift, rfail, rret in H.
  destruct (p_mode r) as [|c k|c k|k iv] eqn:Em.
  - exact I.
  - intros Hm. cbv beta iota in H. repeat inv_step H; cbv beta iota in H; repeat inv_step H; try lia.
    fin_ev. injection H as <- <- <-.
    do 4 eexists. split; [reflexivity|]. split; [|eassumption].
    match goal with E : negb _ = false |- _ => apply negb_false_iff in E; exact E end.
  - repeat inv_step H. fin_ev. injection H as <- <- <-.
    do 3 eexists. split; [reflexivity|]. split; [|eassumption].
    match goal with E : negb _ = false |- _ => apply negb_false_iff in E; exact E end.
  - repeat inv_step H. unfold bind in H. repeat inv_step H. fin_ev. injection H as <- <- <-.
    do 4 eexists. repeat split; eassumption || reflexivity.
Qed.

Lemma ftake_bytes n buf x rest : bytes_ok buf = true -> ftake n buf = Some (x, rest) -> bytes_ok x = true.
Proof.
  intros Hb H. apply ftake_inv in H as [-> _]. rewrite bytes_ok_app in Hb.
  now apply andb_true_iff in Hb as [Hx _].
Qed.

Lemma be4_range l : bytes_ok l = true -> 0 <= be_decode (firstn 4 l) < 2 ^ 32.
Proof.
  intros Hb. pose proof (be_decode_range (firstn 4 l) (bytes_ok_firstn 4 l Hb)) as R.
  assert (L : (length (firstn 4 l) <= 4)%nat) by (rewrite firstn_length; lia).
  assert (256 ^ Z.of_nat (length (firstn 4 l)) <= 256 ^ 4) by (apply Z.pow_le_mono_r; lia).
  change (256 ^ 4) with (2 ^ 32) in *. lia.
Qed.

(* encrypt-then-MAC: as deliver_inv, and the length field (read in the clear from a byte
   stream) is a 32-bit value *)
Lemma deliver_inv_etm r buf p ev r' rest c k :
  p_mode r = Etm c k -> bytes_ok buf = true ->
  read_message P FS ftake r buf = Done (p, ev, r') rest ->
  exists size packet tag,
    0 <= size < 2 ^ 32 /\
    ev = EvMac (mac_input (p_seq r) size packet) tag /\
    constant_time_bytes_eq (mac_tag P k (p_msz r) (mac_input (p_seq r) size packet)) tag = true /\
    finish P r (Etm (snd (c_dec P c packet)) k) size (fst (c_dec P c packet)) ev = Ok (p, ev, r').
Proof.
  intros Em Hb H. unfold read_message, read_body in H. cbv zeta in H.
  unfold rbind, rtake, rlift, rfail, rret in H. rewrite Em in H.
  repeat inv_step H. fin_ev. injection H as <- <- <-.
  do 3 eexists. split; cycle 1.
  - split; [reflexivity|]. split; [|eassumption].
    match goal with E : negb _ = false |- _ => apply negb_false_iff in E; exact E end.
  - apply be4_range. eapply ftake_bytes; eauto.
Qed.
End Inv.

Section Step.
Variable P : prims.
Notation FS := (list Z).

(* AEAD: in a given receiver state the authenticated (iv, aad, ciphertext) determines the delivered
   payload and the next state: a stream accepted with the sender's triple delivers the sender's message *)
Theorem aead_step r k iv T W p ev r' rest ph evh rh resth :
  p_mode r = Aead k iv ->
  read_message P FS ftake r T = Done (p, ev, r') rest ->
  read_message P FS ftake r W = Done (ph, evh, rh) resth ->
  ev = evh -> p = ph /\ r' = rh.
Proof.
  intros Em H1 H2 E. apply deliver_inv in H1. apply deliver_inv in H2. rewrite Em in H1, H2.
  destruct H1 as (aad & ct & pt & iv1 & E1 & D1 & I1 & F1).
  destruct H2 as (aad2 & ct2 & pt2 & iv2 & E2 & D2 & I2 & F2).
  rewrite E1 in F1, E. rewrite E2 in F2, E. injection E as <- <-. clear E1 E2. rewrite D1 in D2. injection D2 as <-.
  rewrite I1 in I2. injection I2 as <-. rewrite F1 in F2. injection F2 as <- <-. auto.
Qed.

Theorem etm_step r c k T W p ev r' rest ph evh rh resth :
  p_mode r = Etm c k -> bytes_ok T = true -> bytes_ok W = true ->
  read_message P FS ftake r T = Done (p, ev, r') rest ->
  read_message P FS ftake r W = Done (ph, evh, rh) resth ->
  ev = evh -> p = ph /\ r' = rh.
Proof.
  intros Em B1 B2 H1 H2 E.
  destruct (deliver_inv_etm P r T p ev r' rest c k Em B1 H1) as (sz & pk & tg & R1 & E1 & _ & F1).
  destruct (deliver_inv_etm P r W ph evh rh resth c k Em B2 H2) as (sz2 & pk2 & tg2 & R2 & E2 & _ & F2).
  rewrite E1 in F1, E. rewrite E2 in F2, E. pose proof (f_equal (fun e => match e with EvMac m _ => m | _ => [] end) E) as Em2.
  pose proof (f_equal (fun e => match e with EvMac _ t => t | _ => [] end) E) as Et2.
  cbv beta iota in Em2, Et2. subst tg2. clear E E1 E2. unfold mac_input in Em2.
  apply app_inv_head in Em2. apply app_inv_len in Em2 as [Es <-]; [|now rewrite !be_encode_length].
  assert (sz2 = sz).
  { apply (f_equal be_decode) in Es. rewrite !be4_roundtrip in Es by assumption. now symmetry. }
  subst sz2. unfold mac_input in F1, F2. rewrite F2 in F1. injection F1 as <- <-. auto.
Qed.
End Step.

(* ---- whole-stream theorem: delivered is a prefix of sent (ETM and AEAD) ------------------ *)
Section Prefix.
Variable P : prims.
Notation FS := (list Z).

Lemma finish_mode r m sz pk ev p ev' r' : finish P r m sz pk ev = Ok (p, ev', r') -> p_mode r' = m.
Proof.
  unfold finish. destruct pk as [|pad pk]; [discriminate|].
  destruct (match p_z r with
            | Some z => bind (z_decomp P z (py_slice1 (pad :: pk) (sz - pad))) (fun dz => Ok (fst dz, Some (snd dz)))
            | None => Ok (py_slice1 (pad :: pk) (sz - pad), None)
            end) as [pz|]; cbn [bind]; [|discriminate].
  destruct (((p_seq r + 1) mod 2 ^ 32 =? 0) && negb (p_kex r)); [discriminate|].
  destruct (fst pz); [discriminate|]. intros H. injection H as _ _ <-. reflexivity.
Qed.

Lemma nonce_delivered r T p ev r' rest :
  protected r -> read_message P FS ftake r T = Done (p, ev, r') rest ->
  ev_nonce ev = state_nonce r /\ protected r'.
Proof.
  intros Hp H. apply deliver_inv in H. unfold protected, state_nonce in *.
  destruct (p_mode r) as [|c k|c k|k iv]; try contradiction.
  - destruct H as (size & pk & tag & -> & _ & F). apply finish_mode in F. rewrite F. split; [|exact I].
    cbn [ev_nonce]. unfold mac_input. apply firstn_app_exact. now rewrite be_encode_length.
  - destruct H as (aad & ct & pt & iv' & -> & _ & _ & F). apply finish_mode in F. rewrite F. split; [reflexivity|exact I].
Qed.

Lemma step_protected r T W p ev r' rest ph evh rh resth :
  protected r -> bytes_ok T = true -> bytes_ok W = true ->
  read_message P FS ftake r T = Done (p, ev, r') rest ->
  read_message P FS ftake r W = Done (ph, evh, rh) resth ->
  ev = evh -> p = ph /\ r' = rh.
Proof.
  intros Hp B1 B2 H1 H2 E. unfold protected in Hp. destruct (p_mode r) as [|c k|c k|k iv] eqn:Em; try contradiction.
  - exact (etm_step P r c k T W p ev r' rest ph evh rh resth Em B1 B2 H1 H2 E).
  - exact (aead_step P r k iv T W p ev r' rest ph evh rh resth Em H1 H2 E).
Qed.

Lemma rest_bytes r T x rest :
  read_message P FS ftake r T = Done x rest -> bytes_ok T = true -> bytes_ok rest = true.
Proof.
  intros H B. destruct (mono_read_message P r _ _ _ H) as (c & -> & _). rewrite bytes_ok_app in B.
  now apply andb_true_iff in B as [_ B].
Qed.

Lemma log_nonces : forall fuel r W ps log fi rf sf,
  protected r -> read_many P FS ftake fuel r W = (ps, log, fi, rf, sf) ->
  forall e, In e log -> In (ev_nonce e) (honest_nonces P fuel r W).
Proof.
  induction fuel as [|f IH]; intros r W ps log fi rf sf Hp H e He.
  - cbn in H. injection H as _ <- _ _ _. destruct He.
  - cbn [read_many] in H. cbn [honest_nonces]. unfold read_message_flat.
    destruct (read_message P FS ftake r W) as [| x | [[p ev] r'] W'] eqn:E.
    + injection H as _ <- _ _ _. destruct He.
    + injection H as _ <- _ _ _. destruct He.
    + destruct (nonce_delivered r W p ev r' W' Hp E) as [Hn Hp'].
      destruct (read_many P FS ftake f r' W') as [[[[ps1 log1] fi1] rf1] sf1] eqn:E2.
      injection H as _ <- _ _ _. destruct He as [<- | He].
      * left. now symmetry.
      * right. eapply IH; eauto.
Qed.

Lemma prefix_core : forall fuelh r W done psh log fih rfh sfh,
  read_many P FS ftake fuelh r W = (psh, log, fih, rfh, sfh) ->
  NoDup (honest_nonces P fuelh r W) ->
  (forall e, In e done -> ~ In (ev_nonce e) (honest_nonces P fuelh r W)) ->
  protected r -> bytes_ok W = true ->
  forall fuel T ps acc fi rf sf, bytes_ok T = true ->
    read_many P FS ftake fuel r T = (ps, acc, fi, rf, sf) ->
    Forall (fun e => In e (done ++ log)) acc -> is_prefix ps psh.
Proof.
  induction fuelh as [|fh IH]; intros r W done psh log fih rfh sfh Hh Hnd Hdone Hp BW fuel T ps acc fi rf sf BT Ha Hacc.
  - (* the honest run delivered nothing more: any acceptance would reuse an old nonce *)
    cbn in Hh. injection Hh as <- <- _ _ _. cbn [honest_nonces] in Hdone.
    destruct fuel as [|f]; [cbn in Ha; injection Ha as <- _ _ _ _; exists []; reflexivity|].
    cbn [read_many] in Ha. destruct (read_message P FS ftake r T) as [| x | [[p ev] r'] T'] eqn:E.
    + injection Ha as <- _ _ _ _. exists []. reflexivity.
    + injection Ha as <- _ _ _ _. exists []. reflexivity.
    + destruct (nonce_delivered r T p ev r' T' Hp E) as [Hn _].
      destruct (read_many P FS ftake f r' T') as [[[[ps1 acc1] fi1] rf1] sf1].
      injection Ha as _ <- _ _ _. inversion Hacc as [|? ? Hin _]; subst. rewrite app_nil_r in Hin.
      exfalso. apply (Hdone ev Hin). left. now symmetry.
  - cbn [read_many] in Hh. cbn [honest_nonces] in Hnd, Hdone. unfold read_message_flat in Hnd, Hdone.
    destruct fuel as [|f]; [cbn in Ha; injection Ha as <- _ _ _ _; exists psh; reflexivity|].
    cbn [read_many] in Ha. destruct (read_message P FS ftake r T) as [| x | [[p ev] r'] T'] eqn:E.
    1,2: injection Ha as <- _ _ _ _; exists psh; reflexivity.
    destruct (nonce_delivered r T p ev r' T' Hp E) as [Hn Hp'].
    destruct (read_many P FS ftake f r' T') as [[[[ps1 acc1] fi1] rf1] sf1] eqn:Ea.
    injection Ha as <- <- _ _ _. inversion Hacc as [|? ? Hin Hacc']; subst.
    destruct (read_message P FS ftake r W) as [| x | [[ph evh] rh] Wh] eqn:Eh.
    + injection Hh as _ <- _ _ _. rewrite app_nil_r in Hin. exfalso. apply (Hdone ev Hin). left. now symmetry.
    + injection Hh as _ <- _ _ _. rewrite app_nil_r in Hin. exfalso. apply (Hdone ev Hin). left. now symmetry.
    + destruct (nonce_delivered r W ph evh rh Wh Hp Eh) as [Hnh Hph].
      destruct (read_many P FS ftake fh rh Wh) as [[[[psh1 log1] fih1] rfh1] sfh1] eqn:Eh2.
      injection Hh as <- <- _ _ _. inversion Hnd as [|? ? Hnotin Hnd']; subst.
      assert (Hev : ev = evh).
      { apply in_app_or in Hin as [Hin | [Hin | Hin]].
        - exfalso. apply (Hdone ev Hin). left. now symmetry.
        - now symmetry.
        - exfalso. apply Hnotin. rewrite <- Hn. eapply log_nonces; eauto. }
      destruct (step_protected r T W p ev r' T' ph evh rh Wh Hp BT BW E Eh Hev) as [-> ->].
      assert (Hpre : is_prefix ps1 psh1).
      { eapply (IH rh Wh (evh :: done) psh1 log1 fih1 rfh1 sfh1 Eh2 Hnd').
        - intros e [<- | He] Hc.
          + apply Hnotin. now rewrite <- Hnh.
          + apply (Hdone e He). now right.
        - exact Hph.
        - eapply rest_bytes; eauto.
        - eapply rest_bytes; eauto.
        - exact Ea.
        - eapply Forall_impl; [|exact Hacc']. intros e He. cbn beta in He.
          apply in_app_or in He as [He | [He | He]].
          + apply in_or_app. left. now right.
          + apply in_or_app. left. now left.
          + apply in_or_app. now right. }
      destruct Hpre as [t ->]. exists t. reflexivity.
Qed.
End Prefix.

Section PrefixThm.
Variable P : prims.
Variable cinv : Z -> cst P -> cst P -> Prop.
Variable zinv : zst P -> zst P -> Prop.
Hypothesis HP : prims_ok P cinv zinv.
Notation FS := (list Z).

Theorem prefix_thm ops s r ws s' :
  sync cinv zinv s r -> ops_ok cinv zinv ops -> all_msgs P ops -> send_ops P s ops = Ok (ws, s') ->
  protected r -> bytes_ok (concat ws) = true ->
  forall fuelh, (length ops < fuelh)%nat ->
  NoDup (honest_nonces P fuelh r (concat ws)) ->
  forall fuel T ps acc fi rf sf, bytes_ok T = true ->
    read_many P FS ftake fuel r T = (ps, acc, fi, rf, sf) ->
    authentic (sender_log P fuelh r (concat ws)) acc ->
    is_prefix ps (payloads P ops) /\ (fi = FNeed \/ fi = FFuel \/ exists e, fi = FErr e).
Proof.
  intros Hs Hok Hall Hsend Hp BW fuelh Hf Hnd fuel T ps acc fi rf sf BT Ha Hauth.
  destruct (read_many_prefix P cinv zinv HP ops s r ws s' [] Hs Hok Hall Hsend (or_introl eq_refl) fuelh Hf)
    as (evs & r' & Hrm & _).
  rewrite app_nil_r in Hrm. split.
  - assert (Hd : forall e, In e (@nil authev) -> ~ In (ev_nonce e) (honest_nonces P fuelh r (concat ws)))
      by (intros e []).
    assert (Hacc : Forall (fun e => In e ([] ++ evs)) acc).
    { unfold authentic, sender_log, read_many_flat in Hauth. rewrite Hrm in Hauth. exact Hauth. }
    exact (prefix_core P fuelh r (concat ws) [] _ _ _ _ _ Hrm Hnd Hd Hp BW fuel T ps acc fi rf sf BT Ha Hacc).
  - destruct fi; eauto.
Qed.
End PrefixThm.

(* non-vacuity of the distinctness hypothesis, on the toy primitives *)
Definition ex_cfg := Cfg 2 8 8 5 [1;2;3;4;5;6;7;8] [9;9] 0 [] false None.
Definition ex_wire : list Z :=
  concat (fst (fst (send_many (cfg_apply (init_state 0 true) ex_cfg) [([7;1;2], []); ([8], []); ([9;9], [])]))).
Lemma ex_nodup : NoDup (honest_nonces toyP 4 (cfg_apply (init_state 0 true) ex_cfg) ex_wire) /\
                 length (honest_nonces toyP 4 (cfg_apply (init_state 0 true) ex_cfg) ex_wire) = 4%nat.
Proof.
  vm_compute. split; [|reflexivity].
  repeat (constructor; [intros H; cbn in H; repeat (destruct H as [H|H]; [discriminate H|]); exact H |]).
  constructor.
Qed.

(* the MAC input is seq || the WHOLE packet: every byte of the plaintext packet (classic) or every
   byte on the wire before the tag (encrypt-then-MAC) is fed to the HMAC, nothing is left out *)
Lemma mac_covers_packet P s packet out m' :
  encrypt_packet P s packet = Ok (out, m') ->
  match p_mode s with
  | Classic c k =>
      out = fst (c_enc P c packet) ++ mac_tag P k (p_msz s) (be_encode 4 (p_seq s) ++ packet)
  | Etm c k =>
      out = (firstn 4 packet ++ fst (c_enc P c (skipn 4 packet))) ++
            mac_tag P k (p_msz s) (be_encode 4 (p_seq s) ++ (firstn 4 packet ++ fst (c_enc P c (skipn 4 packet))))
  | _ => True
  end.
Proof.
  unfold encrypt_packet. destruct (p_mode s) as [|c k|c k|k iv]; auto.
  - destruct (c_enc P c packet) as [o c']. intros H. injection H as <- _. reflexivity.
  - destruct (c_enc P c (skipn 4 packet)) as [o c']. intros H. injection H as <- _. reflexivity.
Qed.

(* ---- generated source facts (coq/Gen/C02_gen.v) ------------------------------------------------ *)
From PV Require Import C02_gen.

Lemma fold_xor_acc : forall a b res,
  fold_left (fun r xy => Z.lor r (Z.lxor (fst xy) (snd xy))) (combine a b) res = xor_acc res a b.
Proof.
  induction a as [|x a IH]; intros [|y b] res; cbn; try reflexivity. apply IH.
Qed.

Lemma source2_cteq : forall a b, g2_cteq a b = constant_time_bytes_eq a b.
Proof.
  intros a b. unfold g2_cteq, constant_time_bytes_eq, g2_cteq_acc, g2_cteq_cmp, g2_cteq_init, g2_cteq_final.
  now rewrite fold_xor_acc.
Qed.

Lemma source2_mac_layout : forall seq size packet,
  mac_input seq size packet =
  be_encode (Z.to_nat (nth 0 g2_mac_recv_fields 0)) seq ++ be_encode (Z.to_nat (nth 1 g2_mac_recv_fields 0)) size ++ packet
  /\ length g2_mac_recv_fields = 2%nat /\ g2_mac_send_fields = [4].
Proof. intros. repeat split; reflexivity. Qed.

(* position of the first / last occurrence of an event in the source order *)
Fixpoint first_pos (x : Z) (l : list Z) (i : Z) : Z :=
  match l with [] => -1 | y :: r => if y =? x then i else first_pos x r (i + 1) end.
Fixpoint last_pos (x : Z) (l : list Z) (i acc : Z) : Z :=
  match l with [] => acc | y :: r => last_pos x r (i + 1) (if y =? x then i else acc) end.
Definition present (x : Z) (l : list Z) : bool := 0 <=? first_pos x l 0.
Definition before (x y : Z) (l : list Z) : bool :=      (* every x precedes every y; both occur *)
  present x l && present y l && (last_pos x l 0 (-1) <? first_pos y l 0).

(* every tag check (1 ETM, 3 AEAD decrypt, 5 classic) precedes every use of the packet contents
   (6 payload slice, 7 decompress, 8 Message, 10 return); the ETM check precedes any decryption (2);
   the sequence number is stored (9) after the checks and before the return *)
Definition read_order_ok (l : list Z) : bool :=
  forallb (fun c => forallb (fun u => before c u l) [6; 7; 8; 9; 10]) [1; 3; 5] &&
  (last_pos 1 l 0 (-1) <? first_pos 2 l 0) && before 3 4 l && before 6 7 l && before 7 8 l && before 8 10 l.

Lemma source2_order : read_order_ok g2_read_order = true.
Proof. vm_compute. reflexivity. Qed.

(* classic (MAC-then-encrypt) path, single step: two deliveries from the same receiver state whose
   authenticated events coincide are `finish` applied to the SAME plaintext packet and tag; they can
   differ only in the cipher-context state carried on and in a multiple of 2^32 of the length field *)
Lemma classic_step_packet P r c k T W p ev r' rest ph evh rh resth :
  p_mode r = Classic c k -> 0 < p_msz r ->
  read_message P (list Z) ftake r T = Done (p, ev, r') rest ->
  read_message P (list Z) ftake r W = Done (ph, evh, rh) resth ->
  ev = evh ->
  exists size sizeh packet tag m1 m2,
    ev = EvMac (mac_input (p_seq r) size packet) tag /\ size mod 2 ^ 32 = sizeh mod 2 ^ 32 /\
    constant_time_bytes_eq (mac_tag P k (p_msz r) (mac_input (p_seq r) size packet)) tag = true /\
    finish P r m1 size packet ev = Ok (p, ev, r') /\ finish P r m2 sizeh packet ev = Ok (ph, ev, rh).
Proof.
  intros Em Hm H1 H2 E. apply deliver_inv in H1. apply deliver_inv in H2. rewrite Em in H1, H2.
  destruct (H1 Hm) as (sz & pk & tg & m1 & E1 & C1 & F1).
  destruct (H2 Hm) as (sz2 & pk2 & tg2 & m2 & E2 & _ & F2).
  rewrite E1 in F1, E. rewrite E2 in F2, E.
  pose proof (f_equal (fun e => match e with EvMac m _ => m | _ => [] end) E) as Em2.
  pose proof (f_equal (fun e => match e with EvMac _ t => t | _ => [] end) E) as Et2.
  cbv beta iota in Em2, Et2. subst tg2. unfold mac_input in Em2.
  apply app_inv_head in Em2. apply app_inv_len in Em2 as [Es <-]; [|now rewrite !be_encode_length].
  assert (Hs : sz mod 2 ^ 32 = sz2 mod 2 ^ 32).
  { apply (f_equal be_decode) in Es. rewrite !be_decode_encode_mod in Es. exact Es. }
  exists sz, sz2, pk, tg, m1, m2. rewrite E1. repeat split; try assumption.
  unfold mac_input in *. rewrite <- Es in F2. exact F2.
Qed.
