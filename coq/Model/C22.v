(* C22 -- channel EOF / CLOSE: per-channel labelled transition system at
   critical-section granularity.  Definitions only; proofs in Proofs/C22_proofs.v.

   Mirrors paramiko/channel.py: close, shutdown, _send (send / send_stderr), recv,
   _handle_eof, _handle_close, _request_failed, _window_adjust, _feed, _unlink,
   _send_eof, _close_internal, _set_closed, _check_add_window, _wait_for_send_window
   (timeout 0.0 = non-blocking, or timeout None = a writer that finds a zero window waits on
   out_buffer_cv until _window_adjust / _set_closed notify it), and the channel dispatch of
   paramiko/transport.py (Transport.run: `chan = self._channels.get(chanid)`;
   _unlink_channel).

   Granularity.  A thread is a list of operations.  One scheduler step of a thread is
   the code between two switch points, a switch point being
     - `self.lock.acquire()` of the channel lock,
     - a call of `transport._send_user_message(m)` (one wire message),
     - `out_buffer_cv.wait()` (releases the lock; the thread can only continue after a
       notify_all() and then re-acquires the lock),
     - an access to shared channel state made WITHOUT the lock before the first
       acquire of an operation (shutdown(0|2) writing eof_received, _unlink reading
       closed, recv reading the in-buffer, the transport's channel-map lookup).
   So an operation is: [unlocked pre-step]? ; critical section ; one step per message
   handed to _send_user_message -- AFTER the lock has been released, exactly as
   the Python code does.  The wire trace is the order of _send_user_message calls. *)
From Coq Require Import ZArith List Bool.
From PV Require Import Bytes Sched C22_gen.
Import ListNotations.
Open Scope Z_scope.

(* ---- wire messages of one channel ------------------------------------------ *)
Inductive msg := MEof | MClose | MData (n : Z) | MExt (n : Z) | MWa (n : Z).

Definition isEof (m : msg) : bool := match m with MEof => true | _ => false end.
Definition isClose (m : msg) : bool := match m with MClose => true | _ => false end.
Definition isData (m : msg) : bool := match m with MData _ | MExt _ => true | _ => false end.
Definition isEnd (m : msg) : bool := match m with MEof | MClose => true | _ => false end.

Fixpoint cnt (p : msg -> bool) (l : list msg) : nat :=
  match l with
  | [] => O
  | m :: r => ((if p m then 1 else 0) + cnt p r)%nat
  end.

(* no DATA / EXTENDED_DATA after an EOF or CLOSE ([ended]: one was already seen) *)
Fixpoint nda_aux (ended : bool) (l : list msg) : bool :=
  match l with
  | [] => true
  | m :: r => (negb (isData m) || negb ended) && nda_aux (ended || isEnd m) r
  end.
Definition no_data_after (l : list msg) : bool := nda_aux false l.

(* no EOF after CLOSE *)
Fixpoint nea_aux (closed_seen : bool) (l : list msg) : bool :=
  match l with
  | [] => true
  | m :: r => (negb (isEof m) || negb closed_seen) && nea_aux (closed_seen || isClose m) r
  end.
Definition no_eof_after_close (l : list msg) : bool := nea_aux false l.

(* ---- shared state of the channel ------------------------------------------- *)
Record st := mkSt {
  active : bool;        (* Channel.active *)
  closed : bool;        (* Channel.closed *)
  eof_sent : bool;      (* Channel.eof_sent *)
  eof_recv : bool;      (* Channel.eof_received *)
  in_map : bool;        (* transport._channels contains the channel *)
  pipe_closed : bool;   (* in_buffer._closed *)
  out_win : Z;          (* out_window_size *)
  max_pkt : Z;          (* out_max_packet_size *)
  inbuf : Z;            (* len(in_buffer._buffer) *)
  in_sofar : Z;         (* in_window_sofar *)
  in_thresh : Z;        (* in_window_threshold *)
  blocking : bool;      (* Channel.timeout is None (True) or 0.0 (False) *)
  nepoch : Z;           (* number of out_buffer_cv.notify_all() calls so far: a waiter that started
                           waiting at epoch e has been notified iff e < nepoch *)
  (* ghost fields, written only by the peer-CLOSE critical section, never read by the
     operational part: *)
  gotc : bool;          (* a peer CLOSE was handled while the channel was active and mapped *)
  gotr : bool           (* a peer CLOSE was handled *)
}.

Definition set_eof_sent (s : st) : st :=
  mkSt (active s) (closed s) (true) (eof_recv s) (in_map s) (pipe_closed s) (out_win s) (max_pkt s) (inbuf s) (in_sofar s) (in_thresh s) (blocking s) (nepoch s) (gotc s) (gotr s).
(* _set_closed: closed = True; in_buffer.close(); out_buffer_cv.notify_all() *)
Definition set_closed (s : st) : st :=
  mkSt (active s) (true) (eof_sent s) (eof_recv s) (in_map s) (true) (out_win s) (max_pkt s) (inbuf s) (in_sofar s) (in_thresh s) (blocking s) (nepoch s + 1) (gotc s) (gotr s).
Definition set_eof_recv (s : st) : st :=
  mkSt (active s) (closed s) (eof_sent s) (true) (in_map s) (pipe_closed s) (out_win s) (max_pkt s) (inbuf s) (in_sofar s) (in_thresh s) (blocking s) (nepoch s) (gotc s) (gotr s).
Definition set_pipe_closed (s : st) : st :=
  mkSt (active s) (closed s) (eof_sent s) (eof_recv s) (in_map s) (true) (out_win s) (max_pkt s) (inbuf s) (in_sofar s) (in_thresh s) (blocking s) (nepoch s) (gotc s) (gotr s).
Definition unmap (s : st) : st :=
  mkSt (active s) (closed s) (eof_sent s) (eof_recv s) (false) (pipe_closed s) (out_win s) (max_pkt s) (inbuf s) (in_sofar s) (in_thresh s) (blocking s) (nepoch s) (gotc s) (gotr s).
Definition set_out_win (s : st) (w : Z) : st :=
  mkSt (active s) (closed s) (eof_sent s) (eof_recv s) (in_map s) (pipe_closed s) (w) (max_pkt s) (inbuf s) (in_sofar s) (in_thresh s) (blocking s) (nepoch s) (gotc s) (gotr s).
(* _window_adjust: out_window_size += n; out_buffer_cv.notify_all() *)
Definition adjust_win (s : st) (n : Z) : st :=
  mkSt (active s) (closed s) (eof_sent s) (eof_recv s) (in_map s) (pipe_closed s) (out_win s + n) (max_pkt s) (inbuf s) (in_sofar s) (in_thresh s) (blocking s) (nepoch s + 1) (gotc s) (gotr s).
Definition set_inbuf (s : st) (n : Z) : st :=
  mkSt (active s) (closed s) (eof_sent s) (eof_recv s) (in_map s) (pipe_closed s) (out_win s) (max_pkt s) (n) (in_sofar s) (in_thresh s) (blocking s) (nepoch s) (gotc s) (gotr s).
Definition set_in_sofar (s : st) (n : Z) : st :=
  mkSt (active s) (closed s) (eof_sent s) (eof_recv s) (in_map s) (pipe_closed s) (out_win s) (max_pkt s) (inbuf s) (n) (in_thresh s) (blocking s) (nepoch s) (gotc s) (gotr s).
Definition set_ghost (s : st) (c r : bool) : st :=
  mkSt (active s) (closed s) (eof_sent s) (eof_recv s) (in_map s) (pipe_closed s) (out_win s) (max_pkt s) (inbuf s) (in_sofar s) (in_thresh s) (blocking s) (nepoch s) (c) (r).

(* ---- operations -------------------------------------------------------------- *)
Inductive op :=
  (* user calls *)
  | OClose                 (* Channel.close() *)
  | OShutdown (how : Z)    (* Channel.shutdown(how); shutdown_read = 0, shutdown_write = 1 *)
  | OSend (n : Z)          (* Channel.send(n bytes) *)
  | OSendErr (n : Z)       (* Channel.send_stderr(n bytes) *)
  | ORecv (n : Z)          (* Channel.recv(n) *)
  | OStdinClose            (* Channel.makefile_stdin().close(): flush (nothing buffered), then
                              shutdown_write() -- the alternative entry point to shutdown(1) *)
  (* peer messages, dispatched by the transport's run loop *)
  | OPeerEof | OPeerClose | OPeerFail | OPeerWa (n : Z) | OPeerData (n : Z)
  (* transport shutdown: chan._unlink() *)
  | OUnlink
  (* continuations: the critical section that follows an unlocked pre-step *)
  | KShutW | KRecv (out : Z) | KEof | KCloseH | KFail | KWa (n : Z) | KUnlink
  (* a writer inside out_buffer_cv.wait() in _wait_for_send_window: [ext] = send_stderr,
     [n] = requested size, [e] = notify epoch at which the wait started *)
  | KBlocked (ext : bool) (n : Z) (e : Z).

(* result of one step that is not an emission *)
Record out := mkO {
  o_st : st;             (* new shared state *)
  o_msgs : list msg;     (* messages to hand to _send_user_message after the lock is released *)
  o_k : list op;         (* continuation put in front of the thread's remaining operations *)
  o_res : list Z         (* result entries logged for the thread *)
}.

Definition r_ok (v : Z) : list Z := [0; v].
Definition r_exn (e : exn) : list Z := [1; exn_code e].

(* _send_eof (lock held) *)
Definition send_eof (s : st) : st * list msg :=
  if eof_sent s then (s, []) else (set_eof_sent s, [MEof]).

(* _close_internal (lock held): (None, None) when not active or already closed *)
Definition close_internal (s : st) : st * list msg :=
  if negb (active s) || closed s then (s, [])
  else let '(s1, m1) := send_eof s in (set_closed s1, m1 ++ [MClose]).

(* _wait_for_send_window, last part ("we have some window to squeeze into", after its
   closed/eof re-check) and the rest of _send *)
Definition mk_data (ext : bool) (n : Z) : msg := if ext then MExt n else MData n.
Definition reserve (ext : bool) (n : Z) (s : st) : out :=
  let size1 := if out_win s <? n then out_win s else n in
  let size := if max_pkt s - pkt_overhead <? size1 then max_pkt s - pkt_overhead else size1 in
  let s' := set_out_win s (out_win s - size) in
  if size =? 0 then mkO s' [] [] (r_ok 0)
  else mkO s' [mk_data ext size] [] (r_ok size).

(* _send (lock held part), for both send and send_stderr.  With timeout 0.0 a zero window
   raises socket.timeout; with timeout None the writer enters the wait loop: its first
   iteration re-tests closed/eof_sent (false here) and calls out_buffer_cv.wait(), which
   releases the lock -- the thread continues as KBlocked *)
Definition send_cs (ext : bool) (n : Z) (s : st) : out :=
  if closed s then mkO s [] [] (r_exn SocketErr)
  else if closed s || eof_sent s then mkO s [] [] (r_ok 0)
  else if out_win s =? 0 then
    if blocking s then mkO s [] [KBlocked ext n (nepoch s)] []
    else mkO s [] [] (r_exn SocketTimeout)
  else if closed s || eof_sent s then mkO s [] [] (r_ok 0)
  else reserve ext n s.

(* a notified waiter has re-acquired the lock inside wait():
     while self.out_window_size == 0:
         if self.closed or self.eof_sent: return 0
         self.out_buffer_cv.wait(timeout)
     if self.closed or self.eof_sent: return 0        <- the re-check after the loop
     ... reserve ...                                                                  *)
Definition wake_cs (ext : bool) (n : Z) (s : st) : out :=
  if out_win s =? 0 then
    if closed s || eof_sent s then mkO s [] [] (r_ok 0)
    else mkO s [] [KBlocked ext n (nepoch s)] []
  else if closed s || eof_sent s then mkO s [] [] (r_ok 0)
  else reserve ext n s.

(* a thread inside wait() can only continue after a notify_all() issued after it started waiting *)
Definition op_enabled (o : op) (s : st) : bool :=
  match o with KBlocked _ _ e => e <? nepoch s | _ => true end.

(* _check_add_window (whole function is one critical section) *)
Definition check_add_window (n : Z) (s : st) : st * Z :=
  if closed s || eof_recv s || negb (active s) then (s, 0)
  else
    let sofar := in_sofar s + n in
    if sofar <=? in_thresh s then (set_in_sofar s sofar, 0)
    else (set_in_sofar s 0, sofar).

Definition exec (o : op) (s : st) : out :=
  match o with
  | OClose =>
      (* the test in close() itself, then _close_internal *)
      if negb (active s) || closed s then mkO s [] [] (r_ok 0)
      else let '(s', ms) := close_internal s in mkO s' ms [] (r_ok 0)
  | OShutdown how =>
      if how =? 1 then
        let '(s', ms) := send_eof s in mkO s' ms [] (r_ok 0)
      else if how =? 0 then mkO (set_eof_recv s) [] [] (r_ok 0)
      else if how =? 2 then mkO (set_eof_recv s) [] [KShutW] []
      else mkO s [] [] (r_ok 0)
  | KShutW | OStdinClose => let '(s', ms) := send_eof s in mkO s' ms [] (r_ok 0)
  | OSend n => send_cs false n s
  | OSendErr n => send_cs true n s
  | KBlocked ext n _ => wake_cs ext n s
  | ORecv n =>
      (* in_buffer.read(n, 0.0) *)
      if inbuf s =? 0 then
        if pipe_closed s then mkO s [] [KRecv 0] [] else mkO s [] [] (r_exn SocketTimeout)
      else
        let got := if inbuf s <=? n then inbuf s else n in
        mkO (set_inbuf s (inbuf s - got)) [] [KRecv got] []
  | KRecv got =>
      let '(s', ack) := check_add_window got s in
      mkO s' (if 0 <? ack then [MWa ack] else []) [] (r_ok got)
  | OPeerEof => if in_map s then mkO s [] [KEof] [] else mkO s [] [] (r_ok 0)
  | KEof =>
      mkO (if eof_recv s then s else set_pipe_closed (set_eof_recv s)) [] [] (r_ok 0)
  | OPeerClose => if in_map s then mkO s [] [KCloseH] [] else mkO s [] [] (r_ok 0)
  | KCloseH =>
      let '(s', ms) := close_internal s in
      mkO (set_ghost (unmap s') (gotc s || (active s && in_map s)) true) ms [] (r_ok 0)
  | OPeerFail => if in_map s then mkO s [] [KFail] [] else mkO s [] [] (r_ok 0)
  | KFail => let '(s', ms) := close_internal s in mkO s' ms [] (r_ok 0)
  | OPeerWa n => if in_map s then mkO s [] [KWa n] [] else mkO s [] [] (r_ok 0)
  | KWa n => mkO (adjust_win s n) [] [] (r_ok 0)
  | OPeerData n =>
      (* _feed takes no channel lock: lookup and feed are one step *)
      if in_map s then mkO (set_inbuf s (inbuf s + n)) [] [] (r_ok 0) else mkO s [] [] (r_ok 0)
  | OUnlink => if closed s then mkO s [] [] (r_ok 0) else mkO s [] [KUnlink] []
  | KUnlink => mkO (unmap (set_closed s)) [] [] (r_ok 0)
  end.

(* ---- threads, configurations, scheduler ------------------------------------ *)
Record thread := mkT {
  pend : list msg;   (* messages produced under the lock, not yet handed to the transport *)
  ops : list op;     (* remaining operations *)
  res : list Z       (* results so far *)
}.

Record cfg := mkC {
  sh : st;
  thr : list thread;
  wire : list msg;   (* order of _send_user_message calls *)
  ltr : list msg     (* ghost: the same messages in the order of the critical sections *)
}.

Fixpoint upd {A} (i : nat) (x : A) (l : list A) : list A :=
  match l, i with
  | [], _ => []
  | _ :: r, O => x :: r
  | y :: r, S j => y :: upd j x r
  end.

Definition pending (c : cfg) : list msg := concat (map pend (thr c)).

(* one scheduler step of thread [tid]; None = the thread has nothing left to do or is blocked
   in out_buffer_cv.wait() and has not been notified *)
Definition cstep (c : cfg) (tid : nat) : option cfg :=
  match nth_error (thr c) tid with
  | None => None
  | Some t =>
      match pend t with
      | m :: r =>
          Some (mkC (sh c) (upd tid (mkT r (ops t) (res t)) (thr c)) (wire c ++ [m]) (ltr c))
      | [] =>
          match ops t with
          | [] => None
          | o :: r =>
              if negb (op_enabled o (sh c)) then None else
              let x := exec o (sh c) in
              Some (mkC (o_st x)
                        (upd tid (mkT (o_msgs x) (o_k x ++ r) (res t ++ o_res x)) (thr c))
                        (wire c) (ltr c ++ o_msgs x))
          end
      end
  end.

Definition crun (c : cfg) (s : list nat) : option cfg := run cstep c s.

(* a fresh channel: nothing sent yet, no ghost set *)
Definition init_st (s : st) : Prop :=
  closed s = false /\ eof_sent s = false /\ gotc s = false /\ gotr s = false.

Definition init_cfg (s : st) (progs : list (list op)) : cfg :=
  mkC s (map (fun p => mkT [] p []) progs) [] [].

Definition quiescent (c : cfg) : Prop := pending c = [].

(* thread [tid] is about to execute operation [o] (no emission pending) *)
Definition at_op (c : cfg) (tid : nat) (o : op) : Prop :=
  exists t r, nth_error (thr c) tid = Some t /\ pend t = [] /\ ops t = o :: r.

Definition is_user_op (o : op) : bool :=
  match o with
  | OClose | OShutdown _ | OSend _ | OSendErr _ | ORecv _ | OStdinClose | KShutW | KRecv _ => true
  | _ => false
  end.
Definition is_send_op (o : op) : bool :=
  match o with OSend _ | OSendErr _ => true | _ => false end.

(* ---- executable interface for the correspondence run ----------------------- *)
Definition enc_msg (m : msg) : list Z :=
  match m with
  (* message numbers, packet overhead, threshold divisor and the extended-data code come from
     Gen/C22_gen.v, regenerated from the source on every run *)
  | MEof => [msg_eof; 0; 0] | MClose => [msg_close; 0; 0] | MData n => [msg_data; n; 0]
  | MExt n => [msg_extended_data; n; ext_stderr_code] | MWa n => [msg_window_adjust; n; 0]
  end.
Definition b2z (b : bool) : Z := if b then 1 else 0.

(* [inwin] is the window passed to Channel._set_window: threshold = inwin // threshold_div *)
Definition mk_init (act blk : bool) (w p buf inwin : Z) : st :=
  mkSt act false false false true false w p buf 0 (inwin / threshold_div) blk 0 false false.

Definition enc_cfg (c : cfg) : list Z :=
  concat (map enc_msg (wire c)) ++ [-1]
  ++ concat (map (fun t => res t ++ [-2]) (thr c))
  ++ [-3; b2z (closed (sh c)); b2z (eof_sent (sh c)); b2z (eof_recv (sh c)); b2z (in_map (sh c));
      out_win (sh c); inbuf (sh c); in_sofar (sh c);
      Z.of_nat (length (pending c)); Z.of_nat (length (concat (map ops (thr c))))].

(* input: ((active, blocking, out_window, max_packet, in-buffer bytes, in window), programs, schedule) *)
Definition run_case (x : (bool * bool * Z * Z * Z * Z) * list (list op) * list Z) : list Z :=
  let '((act, blk, w, p, buf, th), progs, sched) := x in
  match crun (init_cfg (mk_init act blk w p buf th) progs)
             (map (fun t => Z.to_nat (Z.min (Z.max t 0) 64)) sched) with
  | None => [-99]
  | Some c => enc_cfg c
  end.

(* ---- enumeration of all complete schedules (same depth-first order as the harness:
        lowest enabled thread first), with a budget on the number of leaves ------------ *)
Definition is_some {A} (o : option A) : bool := match o with Some _ => true | None => false end.
Definition enabled (c : cfg) : list nat :=
  filter (fun t => is_some (cstep c t)) (seq 0 (length (thr c))).

Fixpoint enum (fuel : nat) (c : cfg) (acc : nat * list (list Z)) : nat * list (list Z) :=
  match fuel with
  | O => (fst acc, [-98] :: snd acc)
  | S f =>
      match enabled c with
      | [] => match fst acc with
              | O => acc
              | S b => (b, enc_cfg c :: snd acc)
              end
      | en =>
          fold_left (fun a t =>
                       match fst a with
                       | O => a
                       | S _ => match cstep c t with Some c' => enum f c' a | None => a end
                       end) en acc
      end
  end.

Fixpoint index_of (x : list Z) (l : list (list Z)) (i : Z) : option Z :=
  match l with
  | [] => None
  | y :: r => if zlist_eqb x y then Some i else index_of x r (i + 1)
  end.

(* distinct outcomes in order of first occurrence, and for every outcome its index *)
Fixpoint dedup (os seen : list (list Z)) (idx : list Z) : list (list Z) * list Z :=
  match os with
  | [] => (seen, rev idx)
  | o :: r =>
      match index_of o seen 0 with
      | Some i => dedup r seen (i :: idx)
      | None => dedup r (seen ++ [o]) (Z.of_nat (length seen) :: idx)
      end
  end.

(* run-length encoding (lossless) of the index sequence: [i; n] = index i repeated n times *)
Fixpoint rle (cur n : Z) (l : list Z) : list Z :=
  match l with
  | [] => [cur; n]
  | x :: r => if x =? cur then rle cur (n + 1) r else cur :: n :: rle x 1 r
  end.
Definition rle_list (l : list Z) : list Z :=
  match l with [] => [] | x :: r => rle x 1 r end.

(* input: (initial state, programs, leaf budget); output: run-length encoded outcome index of
   every complete schedule in depth-first order, -9, the distinct outcomes each followed by -8 *)
Definition run_set (x : (bool * bool * Z * Z * Z * Z) * list (list op) * Z) : list Z :=
  let '((act, blk, w, p, buf, th), progs, cap) := x in
  let r := enum 200 (init_cfg (mk_init act blk w p buf th) progs)
                (Z.to_nat (Z.min (Z.max cap 0) 20000), []) in
  let '(seen, idx) := dedup (rev (snd r)) [] [] in
  rle_list idx ++ [-9] ++ concat (map (fun o => o ++ [-8]) seen).

(* one entry point for the correspondence run: a whole schedule tree or one schedule *)
Inductive cinput :=
  | CSet (x : (bool * bool * Z * Z * Z * Z) * list (list op) * Z)
  | CWalk (x : (bool * bool * Z * Z * Z * Z) * list (list op) * list Z).
Definition run_any (i : cinput) : list Z :=
  match i with CSet x => run_set x | CWalk x => run_case x end.

(* the witness of the known finding: thread 0 = send(5), thread 1 = close();
   send reserves under the lock, close runs completely, then send emits *)
Definition witness_progs : list (list op) := [[OSend 5]; [OClose]].
Definition witness_sched : list nat := [0; 1; 1; 1; 0]%nat.
Definition witness_init : st := mk_init true false 100 1000 0 100.
(* a blocked writer: zero window, timeout None *)
Definition blocked_init : st := mk_init true true 0 1000 0 100.
