"""Translator for C43: reads the acceptance thresholds of ModulusPack._parse_modulus from the AST of
paramiko/primes.py and KexGex's min/max/preferred bits from the live class, and emits
coq/Gen/C43_gen.v.  Fail-closed: any shape it does not recognise raises."""
import ast
import importlib
import os
import sys


def _const(node):
    if isinstance(node, ast.Constant) and isinstance(node.value, int) and not isinstance(node.value, bool):
        return node.value
    raise ValueError("expected an integer literal, got %s" % ast.dump(node))


def _cmp(node, name, op):
    """`name <op> CONST` -> CONST"""
    if (isinstance(node, ast.Compare) and isinstance(node.left, ast.Name) and node.left.id == name
            and len(node.ops) == 1 and isinstance(node.ops[0], op)):
        return _const(node.comparators[0])
    raise ValueError("expected `%s %s <int>`, got %s" % (name, op.__name__, ast.dump(node)))


def generate(repo):
    src = open(os.path.join(repo, "paramiko", "primes.py")).read()
    tree = ast.parse(src)
    fn = None
    for n in ast.walk(tree):
        if isinstance(n, ast.FunctionDef) and n.name == "_parse_modulus":
            fn = n
    if fn is None:
        raise ValueError("_parse_modulus not found")
    ifs = [s for s in fn.body if isinstance(s, ast.If)]
    if len(ifs) != 4:
        raise ValueError("_parse_modulus: expected 4 top-level if statements, found %d" % len(ifs))
    weak, gen0, wrong, newkey = ifs
    # if mod_type < A or tests < B or (tests & C and tests < D and tries < E): discard; return
    t = weak.test
    if not (isinstance(t, ast.BoolOp) and isinstance(t.op, ast.Or) and len(t.values) == 3):
        raise ValueError("weak-modulus test: expected `a or b or (c and d and e)`")
    min_type = _cmp(t.values[0], "mod_type", ast.Lt)
    min_tests = _cmp(t.values[1], "tests", ast.Lt)
    a = t.values[2]
    if not (isinstance(a, ast.BoolOp) and isinstance(a.op, ast.And) and len(a.values) == 3):
        raise ValueError("weak-modulus test: third disjunct is not a 3-way `and`")
    b = a.values[0]
    if not (isinstance(b, ast.BinOp) and isinstance(b.op, ast.BitAnd) and isinstance(b.left, ast.Name)
            and b.left.id == "tests"):
        raise ValueError("expected `tests & <int>`")
    mr_bit = _const(b.right)
    mr_tests_below = _cmp(a.values[1], "tests", ast.Lt)
    mr_min_tries = _cmp(a.values[2], "tries", ast.Lt)
    if not (isinstance(weak.body[-1], ast.Return) and weak.body[-1].value is None and not weak.orelse):
        raise ValueError("weak-modulus branch does not end in a bare return")
    # if generator == 0: generator = G
    if _cmp(gen0.test, "generator", ast.Eq) != 0:
        raise ValueError("expected `generator == 0`")
    asg = gen0.body
    if not (len(asg) == 1 and isinstance(asg[0], ast.Assign) and isinstance(asg[0].targets[0], ast.Name)
            and asg[0].targets[0].id == "generator" and not gen0.orelse):
        raise ValueError("expected `generator = <int>`")
    default_generator = _const(asg[0].value)
    # if (bl != size) and (bl != size + K): discard; return
    w = wrong.test
    if not (isinstance(w, ast.BoolOp) and isinstance(w.op, ast.And) and len(w.values) == 2):
        raise ValueError("bit-length test: expected `(bl != size) and (bl != size + k)`")
    c0, c1 = w.values
    ok0 = (isinstance(c0, ast.Compare) and isinstance(c0.left, ast.Name) and c0.left.id == "bl"
           and len(c0.ops) == 1 and isinstance(c0.ops[0], ast.NotEq)
           and isinstance(c0.comparators[0], ast.Name) and c0.comparators[0].id == "size")
    ok1 = (isinstance(c1, ast.Compare) and isinstance(c1.left, ast.Name) and c1.left.id == "bl"
           and len(c1.ops) == 1 and isinstance(c1.ops[0], ast.NotEq)
           and isinstance(c1.comparators[0], ast.BinOp) and isinstance(c1.comparators[0].op, ast.Add)
           and isinstance(c1.comparators[0].left, ast.Name) and c1.comparators[0].left.id == "size")
    if not (ok0 and ok1):
        raise ValueError("bit-length test has an unexpected shape")
    len_slack = _const(c1.comparators[0].right)
    if not (isinstance(wrong.body[-1], ast.Return) and wrong.body[-1].value is None and not wrong.orelse):
        raise ValueError("bit-length branch does not end in a bare return")

    if repo not in sys.path:
        sys.path.insert(0, repo)
    kg = importlib.import_module("paramiko.kex_gex")
    if os.path.realpath(os.path.dirname(kg.__file__)) != os.path.realpath(os.path.join(repo, "paramiko")):
        raise RuntimeError("paramiko.kex_gex imported from %s, not from %s" % (kg.__file__, repo))
    lim = {}
    for cls in (kg.KexGex, kg.KexGexSHA256):
        for attr in ("min_bits", "max_bits", "preferred_bits"):
            v = getattr(cls, attr)
            if isinstance(v, bool) or not isinstance(v, int):
                raise TypeError("%s.%s is not an int" % (cls.__name__, attr))
            if lim.setdefault(attr, v) != v:
                raise ValueError("KexGex and KexGexSHA256 disagree on %s" % attr)
    d = [("min_type", min_type), ("min_tests", min_tests), ("mr_bit", mr_bit), ("mr_tests_below", mr_tests_below),
         ("mr_min_tries", mr_min_tries), ("default_generator", default_generator), ("len_slack", len_slack),
         ("gex_min_bits", lim["min_bits"]), ("gex_max_bits", lim["max_bits"]),
         ("gex_preferred_bits", lim["preferred_bits"])]
    text = ["(* GENERATED by gen/c43.py from paramiko/primes.py (_parse_modulus) and paramiko/kex_gex.py -- do not edit *)",
            "From PV Require Import Bytes.", "Open Scope Z_scope.",
            "(* discard when: mod_type < min_type or tests < min_tests or",
            "   (tests & mr_bit and tests < mr_tests_below and tries < mr_min_tries);",
            "   generator 0 becomes default_generator; bit length must be size or size + len_slack *)"]
    for k, v in d:
        text.append("Definition %s : Z := %s." % (k, ("(%d)" % v) if v < 0 else "%d" % v))
    return {"C43_gen.v": "\n".join(text) + "\n"}
