"""C16 — a server pins one username per connection and caps failed attempts.

Proof: coq/Props/C16_props.v over coq/Model/C14.v (shared server-side auth model) + coq/Model/C16.v.
Tie: the direct-drive differential run of harness/c14.py (real AuthHandler, stub transport, scripted
ServerInterface) on brute-force style request sequences, plus real loopback transports for the
failure limit.  Search oracle: the three statements directly over the recorded callbacks, DISCONNECT
messages, close() calls and the authenticated flag.
"""
import struct
import threading
import time

import c14
from c14 import s_, sends, case_repr

PID = "C16"
GENS = c14.GENS
LEVEL_TEXT = ("Machine-checked proof (Coq, induction over request lists) over the shared executable model of the "
              "server side of auth_handler.py that a request for a username other than the pinned one, or for a "
              "service other than ssh-connection, sends DISCONNECT, closes the transport, consults no callback and "
              "authenticates nobody; that the failure counter equals the number of USERAUTH_FAILURE(partial=false) "
              "messages sent; and that once ten of them are on the wire the transport is closed and no later "
              "request produces any output (no callback, no credential evaluation).  Tied to the source by a "
              "differential run of the model (vm_compute) against the real AuthHandler every run.")
LEVEL_NOTE = ("Trusted: Coq kernel + vm_compute; hand-written model validated by the correspondence run; the failure "
              "limit and the disconnect reason codes are regenerated from the source each run (gen/c14.py, which also "
              "checks fail-closed that _parse_newkeys creates the server AuthHandler only when there is none; re-key "
              "histories on real transports check the same dynamically); 'closed "
              "transport processes nothing' rests on Transport.run's `while self.active` (checked on real loopback "
              "transports by the oracle, not proved); callbacks are oracles; usernames compared as valid UTF-8.")
TECHNIQUE = "Coq proof (invariant + induction over request lists) + vm_compute differential correspondence"


def c16_oracle(ctx, sid, steps, recs):
    counted = 0
    limit_step = None
    pinned = None           # username of the first request that got past the service check (tracked by the oracle itself)
    for i, rec in enumerate(recs):
        tr = rec["trace"]
        info = rec["info"]
        b = rec["before"]
        snd = sends(tr)
        cbs = [ev for ev in tr if ev[0] in ("cb", "info")]
        closed = any(ev[0] == "close" for ev in tr)
        if limit_step is not None and any(ev[0] == "cb" for ev in tr):
            ctx.fail("callback-after-ten-failures", "a credential callback was invoked after the tenth counted failure",
                     case=case_repr(sid, steps[:i + 1]), expected="no callback", observed=repr(tr))
        if rec["ptype"] == 50 and tr and not b["authed"]:
            user = info["user"].decode("utf-8")
            if info["service"] != b"ssh-connection":
                good = (not cbs and closed and snd and snd[0][:5] == b"\x01\x00\x00\x00\x07"
                        and not rec["after"]["authed"])
                if not good:
                    ctx.fail("service-not-rejected", "a userauth request for a service other than ssh-connection was "
                             "not answered by DISCONNECT(service not available) + close without callbacks",
                             case=case_repr(sid, steps[:i + 1]), expected="DISCONNECT 7, close, no callbacks",
                             observed=repr(tr))
            elif pinned is None:
                pinned = user
            elif pinned != user:
                good = (not cbs and closed and snd and snd[0][:5] == b"\x01\x00\x00\x00\x0e"
                        and not rec["after"]["authed"] and rec["after"]["user"] == pinned)
                if not good:
                    ctx.fail("username-change-not-rejected", "a request for a different username than the pinned one "
                             "was not answered by DISCONNECT(no more auth methods) + close without callbacks",
                             case=case_repr(sid, steps[:i + 1]), expected="DISCONNECT 14, close, no callbacks",
                             observed=repr(tr))
        n = sum(1 for m in snd if m[:1] == b"\x33" and m[-1:] == b"\x00")
        if n and limit_step is None and counted + n >= 10:
            limit_step = i
            if not closed or not any(m[:5] == b"\x01\x00\x00\x00\x0e" for m in snd):
                ctx.fail("ten-failures-no-disconnect", "the tenth failed attempt did not disconnect the client",
                         case=case_repr(sid, steps[:i + 1]), expected="DISCONNECT 14 + close", observed=repr(tr))
        elif n == 0 or counted + n < 10:
            if limit_step is None and closed and any(m[:5] == b"\x01\x00\x00\x00\x0e" for m in snd) and n \
                    and rec["after"]["fails"] < 10 and info.get("kind") in ("password", "none"):
                ctx.fail("disconnect-before-ten-failures", "the server disconnected for too many failures before the tenth",
                         case=case_repr(sid, steps[:i + 1]), expected="connection open", observed=repr(tr))
        counted += n
        if rec["after"]["fails"] != counted and tr:
            ctx.fail("counter-differs-from-wire", "auth_fail_count differs from the number of USERAUTH_FAILURE "
                     "(partial=false) messages sent", case=case_repr(sid, steps[:i + 1]), expected=counted,
                     observed=rec["after"]["fails"])


def ungated_sequences(ctx, n):
    """Keep delivering after close() (no run-loop gate): the handlers themselves must have closed the transport
    at the tenth failure; any later callback shows a limit that is too high."""
    World, _, _ = c14.make_world()
    holder = {}
    with c14.gss_patch(holder):
        for _ in range(n):
            k = ctx.rng.randrange(10, 14)
            env = {"res": 2, "gss": False, "mechok": True, "tok": 1, "micok": True, "kexctx": False, "banner": False}
            payload = s_(b"alice") + s_(b"ssh-connection") + s_(b"password") + b"\x00" + s_(b"pw")
            steps = [(50, payload, env, None, {}) for _ in range(k)]
            w = World(b"SID")
            holder["world"] = w
            closes_at = None
            for i, st in enumerate(steps):
                tr = w.deliver(*st[:3], gate=False)
                if closes_at is None and any(ev[0] == "close" for ev in tr):
                    closes_at = i + 1
            ctx.count(("ungated", k), kind="ungated-bruteforce")
            if closes_at != 10:
                ctx.fail("ten-failures-no-disconnect" if (closes_at or 99) > 10 else "disconnect-before-ten-failures",
                         "ten failed passwords must close the transport at exactly the tenth failure",
                         case=case_repr(b"SID", steps), expected=10, observed=closes_at)


def _req(user, method, extra=b""):
    return s_(user) + s_(b"ssh-connection") + s_(method) + extra


def cap_witness(ctx):
    """Fifteen failures through every route that can count one (direct drive, real AuthHandler, run-loop gate ON and
    OFF): the tenth counted failure must close the transport in the same step and nothing is evaluated afterwards."""
    World, _, _ = c14.make_world()
    holder = {}
    base = {"res": 2, "gss": True, "mechok": True, "tok": 2, "micok": True, "kexctx": True, "banner": False,
            "keyok": True, "bits": c14.toy_bits(b"key1")}
    pw = (50, _req(b"alice", b"password", b"\x00" + s_(b"pw")), base)
    change = (50, _req(b"alice", b"password", b"\x01" + s_(b"pw") + s_(b"new")), base)
    none = (50, _req(b"alice", b"none"), base)
    badsig = (50, _req(b"alice", b"publickey", b"\x01" + s_(b"toy-a") + s_(b"key1") + s_(s_(b"toy-a") + s_(b"zzzz"))),
              dict(base, res=0))
    kbd_fail = (50, _req(b"alice", b"keyboard-interactive", s_(b"") + s_(b"")), base)
    kbd_query = (50, _req(b"alice", b"keyboard-interactive", s_(b"") + s_(b"")), dict(base, res=3))
    resp = (61, struct.pack(">I", 1) + s_(b"wrong"), base)
    keyex = (50, _req(b"alice", b"gssapi-keyex", s_(b"mic")), base)
    routes = {"password": [pw] * 15, "password-change-request": [change] * 15, "none": [none] * 15,
              "publickey-bad-signature": [badsig] * 15, "keyboard-interactive-request": [kbd_fail] * 15,
              "keyboard-interactive-responses": [kbd_query] + [resp] * 15,
              "gssapi-keyex-rejected": [keyex] * 15,
              "mixed": [pw, kbd_query, resp, none, resp, badsig, keyex, resp, change, resp, resp, pw, resp, none, pw],
              "nine-requests-then-responses": [pw] * 9 + [kbd_query] + [resp] * 6}
    with c14.gss_patch(holder):
        for name, hist in sorted(routes.items()):
            for gate in (True, False):
                steps = [(p, pl, env, None, {}) for (p, pl, env) in hist]
                w = World(b"SID-c")
                holder["world"] = w
                counted, tenth, closed_at, late = 0, None, None, 0
                for i, st in enumerate(steps):
                    tr = w.deliver(*st[:3], gate=gate)
                    if tenth is not None and gate:      # (without the gate the handlers are called on purpose)
                        late += sum(1 for ev in tr if ev[0] == "cb")
                    counted += sum(1 for m in sends(tr) if m[:1] == b"\x33" and m[-1:] == b"\x00")
                    if tenth is None and counted >= 10:
                        tenth = i
                    if closed_at is None and any(ev[0] == "close" for ev in tr):
                        closed_at = i
                ctx.count(("cap-witness", name, gate), kind="cap-witness")
                if tenth is None or closed_at != tenth or late:
                    ctx.fail("ten-failures-no-disconnect:" + name,
                             "route %s (%s run-loop gate): tenth counted failure in step %r, transport closed in step %r, "
                             "%d credential callbacks afterwards" % (name, "with" if gate else "without", tenth, closed_at, late),
                             case=case_repr(b"SID-c", steps), expected="closed in the step of the tenth failure, nothing after",
                             observed={"tenth": tenth, "closed_at": closed_at, "late_callbacks": late})
                    break


def pin_witness(ctx):
    """Every kind of first contact -- including those that do not end in a USERAUTH_FAILURE (PK_OK query, pending
    keyboard-interactive, pending gssapi-with-mic) -- pins the username: a second request under another name is
    answered by DISCONNECT + close, no callback, nobody authenticated."""
    World, _, _ = c14.make_world()
    holder = {}
    base = {"res": 0, "gss": True, "mechok": True, "tok": 2, "micok": True, "kexctx": True, "banner": False,
            "keyok": True, "bits": c14.toy_bits(b"key1")}
    firsts = {"publickey-query(PK_OK)": (50, _req(b"alice", b"publickey", b"\x00" + s_(b"toy-a") + s_(b"key1")), base),
              "keyboard-interactive-pending": (50, _req(b"alice", b"keyboard-interactive", s_(b"") + s_(b"")), dict(base, res=3)),
              "gssapi-with-mic-pending": (50, _req(b"alice", b"gssapi-with-mic", struct.pack(">I", 1) + s_(b"\x06\x09mech")), base),
              "failed-password": (50, _req(b"alice", b"password", b"\x00" + s_(b"pw")), dict(base, res=2)),
              "partial-none": (50, _req(b"alice", b"none"), dict(base, res=1)),
              "rejected-publickey-query": (50, _req(b"alice", b"publickey", b"\x00" + s_(b"toy-a") + s_(b"key1")), dict(base, res=2))}
    seconds = {"password": (50, _req(b"bob", b"password", b"\x00" + s_(b"pw")), base),
               "none": (50, _req(b"bob", b"none"), base),
               "publickey-query": (50, _req(b"bob", b"publickey", b"\x00" + s_(b"toy-a") + s_(b"key1")), base)}
    with c14.gss_patch(holder):
        for fname, first in sorted(firsts.items()):
            for sname, second in sorted(seconds.items()):
                steps = [(first[0], first[1], first[2], None, {}), (second[0], second[1], second[2], None, {})]
                w = World(b"SID-n")
                holder["world"] = w
                w.deliver(*steps[0][:3])
                tr = list(w.deliver(*steps[1][:3]))
                ctx.count(("pin-witness", fname, sname), kind="pin-witness")
                cbs = [ev for ev in tr if ev[0] in ("cb", "info")]
                snd = sends(tr)
                good = (not cbs and any(ev[0] == "close" for ev in tr) and snd
                        and snd[0][:5] == b"\x01\x00\x00\x00\x0e" and not w.handler.authenticated)
                if not good:
                    ctx.fail("username-change-not-rejected:" + fname,
                             "first contact %s as alice, then %s as bob: not answered by DISCONNECT(no more auth methods) "
                             "+ close without callbacks" % (fname, sname), case=case_repr(b"SID-n", steps),
                             expected="DISCONNECT 14, close, no callbacks", observed=repr(tr))
                    break


def loopback_bruteforce(ctx, n):
    """Real server Transport + real client: after ten failed passwords the server evaluates nothing more."""
    import paramiko
    from _loop import LoopSocket
    import os
    key = paramiko.RSAKey.from_private_key_file(os.path.join(ctx.repo, "tests", "_support", "rsa.key"))

    class Srv(paramiko.ServerInterface):
        def __init__(self):
            self.calls = []

        def check_auth_password(self, username, password):
            self.calls.append((username, password))
            return paramiko.AUTH_FAILED

        def get_allowed_auths(self, username):
            return "password"

    for rep in range(n):
        sa, sb = LoopSocket(), LoopSocket()
        sa.link(sb)
        tc, ts = paramiko.Transport(sa), paramiko.Transport(sb)
        srv = Srv()
        try:
            ts.add_server_key(key)
            ts.start_server(threading.Event(), srv)
            tc.start_client(timeout=10)
            attempts = 0
            for i in range(13):
                try:
                    tc.auth_password("alice", "pw%d" % i)
                except paramiko.AuthenticationException:
                    attempts += 1
                except paramiko.SSHException:
                    break
                except EOFError:
                    break
            deadline = time.time() + 3
            while ts.is_active() and time.time() < deadline:
                time.sleep(0.01)
            ctx.count(("loopback-brute", rep), kind="loopback-bruteforce")
            if len(srv.calls) != 10 or ts.is_active() or ts.is_authenticated():
                ctx.fail("ten-failures-no-disconnect" if len(srv.calls) > 10 or ts.is_active()
                         else "disconnect-before-ten-failures",
                         "a real server transport must evaluate exactly ten failed passwords and then be closed",
                         case={"loopback": "13 failed passwords"}, expected="10 callbacks, transport closed",
                         observed={"callbacks": len(srv.calls), "active": ts.is_active()})
        finally:
            tc.close()
            ts.close()


def loopback_rekey(ctx, n):
    """Real server + real client with client-initiated re-keys (KEXINIT .. NEWKEYS) in the middle of
    authentication: the pinned username and the failure counter must survive every re-key."""
    import paramiko
    from _loop import LoopSocket
    import os
    key = paramiko.RSAKey.from_private_key_file(os.path.join(ctx.repo, "tests", "_support", "rsa.key"))
    rng = ctx.rng
    import logging
    lg = logging.getLogger("paramiko")
    if not lg.handlers:
        lg.addHandler(logging.NullHandler())
    lg.propagate = False

    class Srv(paramiko.ServerInterface):
        def __init__(self):
            self.calls = []

        def check_auth_password(self, username, password):
            self.calls.append(username)
            return paramiko.AUTH_FAILED

        def get_allowed_auths(self, username):
            return "password"

    def attempt(tc, user, pw):
        try:
            tc.auth_password(user, pw)
            return "ok"
        except paramiko.AuthenticationException:
            return "failed"
        except (paramiko.SSHException, EOFError):
            return "closed"

    def rekey(tc, ts):
        try:
            tc.renegotiate_keys()
        except Exception:
            return False
        deadline = time.time() + 5
        while ts.in_kex and ts.is_active() and time.time() < deadline:
            time.sleep(0.005)
        return True

    for rep in range(n):
        scenario = ["cap", "pin"][rep % 2]
        sa, sb = LoopSocket(), LoopSocket()
        sa.link(sb)
        tc, ts = paramiko.Transport(sa), paramiko.Transport(sb)
        srv = Srv()
        try:
            ts.add_server_key(key)
            ts.start_server(threading.Event(), srv)
            tc.start_client(timeout=10)
            hist = []
            if scenario == "cap":
                cuts = sorted(rng.sample(range(1, 10), rng.choice([1, 2])))
                for i in range(13):
                    if i in cuts:
                        before = (ts.auth_handler.auth_username, ts.auth_handler.auth_fail_count)
                        hist.append("rekey")
                        if rekey(tc, ts):
                            after = (getattr(ts.auth_handler, "auth_username", None),
                                     getattr(ts.auth_handler, "auth_fail_count", None))
                            if after != before:
                                ctx.fail("rekey-resets-auth-state", "a re-key during authentication changed the server's "
                                         "pinned username / failure count from %r to %r" % (before, after),
                                         case={"loopback": hist}, expected=before, observed=after)
                    r = attempt(tc, "alice", "pw%d" % i)
                    hist.append("password alice -> " + r)
                    if r == "closed":
                        break
                deadline = time.time() + 3
                while ts.is_active() and time.time() < deadline:
                    time.sleep(0.01)
                if len(srv.calls) != 10 or ts.is_active():
                    ctx.fail("ten-failures-no-disconnect" if len(srv.calls) > 10 or ts.is_active()
                             else "disconnect-before-ten-failures",
                             "with re-keys between the attempts a real server must still evaluate exactly ten failed "
                             "passwords and then be closed", case={"loopback": hist},
                             expected="10 callbacks, transport closed",
                             observed={"callbacks": len(srv.calls), "active": ts.is_active()})
            else:
                k = rng.randrange(1, 4)
                for i in range(k):
                    hist.append("password alice -> " + attempt(tc, "alice", "pw%d" % i))
                hist.append("rekey")
                rekey(tc, ts)
                hist.append("password bob -> " + attempt(tc, "bob", "pw"))
                deadline = time.time() + 3
                while ts.is_active() and time.time() < deadline:
                    time.sleep(0.01)
                if "bob" in srv.calls or ts.is_active() or ts.is_authenticated():
                    ctx.fail("username-change-not-rejected", "after a re-key a request for a different username than "
                             "the pinned one was evaluated / did not end the connection",
                             case={"loopback": hist}, expected="no callback for bob, transport closed",
                             observed={"callbacks": srv.calls, "active": ts.is_active()})
            ctx.count(("loopback-rekey", scenario, tuple(hist)), kind="loopback-rekey-" + scenario)
        finally:
            tc.close()
            ts.close()


def run(ctx):
    ctx.rule = ("seeded generator (random.Random('C16-<seed>')): request sequences of harness/c14.py in the "
                "profiles brute (10-18 mostly failing requests for one user), mixed and lenient, with username / "
                "service switches at random points; plus 10-13 failed passwords delivered without the run-loop "
                "gate, and real loopback transports attempting 13 failed passwords, with and without client-initiated re-keys between the attempts (cap) and before a username switch (pin); a step counts when the "
                "handler was reached and is distinct by (message, oracle, state)")
    ctx.trusted += ["shared model coq/Model/C14.v is hand-written; tied to auth_handler.py by this differential run",
                    "Transport.run stops dispatching once active is False (observed on real transports, not proved)",
                    "the server AuthHandler is created once (Transport._parse_newkeys: only when auth_handler is None); "
                    "the model has one handler per connection -- checked by re-key histories on real transports"]
    ctx.assumptions += ["usernames / services are valid UTF-8 (byte equality = str equality)"]
    ctx.prove(GENS)
    scale = 6 if ctx.thorough else 1
    c14.gss_witness(ctx)        # the shared auth model is of the repaired gssapi paths: name the input if they regress
    cap_witness(ctx)
    pin_witness(ctx)
    c14.run_sequences(ctx, 140 * scale, c16_oracle, "seq", profiles=["brute", "brute", "mixed", "lenient"])
    ungated_sequences(ctx, 6 * scale)
    loopback_bruteforce(ctx, 2 if not ctx.thorough else 5)
    loopback_rekey(ctx, 4 if not ctx.thorough else 12)


def replay(ctx, rep):
    case = rep.get("case") or {}
    if "loopback" in case:
        loopback_bruteforce(ctx, 1)
        return loopback_rekey(ctx, 4)
    if str(rep.get("key", "")).startswith("gssapi-"):
        return c14.replay(ctx, rep)
    if "steps" not in case:
        return run(ctx)
    World, _, _ = c14.make_world()
    holder = {}
    sid = bytes.fromhex(case["sid"]["hex"])
    steps = []
    for s in case["steps"]:
        env = dict(s["env"])
        if isinstance(env.get("bits"), dict):
            env["bits"] = bytes.fromhex(env["bits"]["hex"])
        steps.append((s["ptype"], bytes.fromhex(s["payload"]["hex"]), env, None,
                      {}))
    # rebuild the info the oracle needs from the payloads
    from paramiko.message import Message
    full = []
    for (p, pl, env, _, _) in steps:
        info = {"kind": "?"}
        if p == 50:
            m = Message(pl)
            info = {"user": m.get_binary(), "service": m.get_binary(), "kind": m.get_text()}
        full.append((p, pl, env, None, info))
    with c14.gss_patch(holder):
        gate = rep["key"] != "ten-failures-no-disconnect" or len(full) < 11
        canon, recs, w = c14.drive(World, holder, sid, full, gate=gate)
        for r in recs:
            ctx.count(("replay", r["ptype"], repr(r["trace"])), kind="replay")
        if not gate:
            closes = [i + 1 for i, r in enumerate(recs) if any(ev[0] == "close" for ev in r["trace"])]
            if (closes or [99])[0] != 10:
                ctx.fail(rep["key"], rep["what"], case=case, expected=10, observed=closes[:1])
        else:
            c16_oracle(ctx, sid, full, recs)
