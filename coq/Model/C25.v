(* C25 — model of paramiko/channel.py: Channel.sendall / sendall_stderr, send / send_stderr,
   _send, _wait_for_send_window, and the state changes other threads / the peer can make
   between and during those calls (window adjust, close, peer CLOSE, transport loss,
   shutdown_write, peer EOF).  Definitions only; proofs are in Proofs/C25_proofs.v.

   The code modelled is the REPAIRED sendall (fixes/C25-sendall-spins-after-shutdown-write.diff):
       while s:
           sent = self.send(s)
           if sent == 0: raise socket.error("Socket is closed")
           s = s[sent:]
   sendall_v0 below is the loop as it was before the repair (kept only to state why the repair
   is needed: C25_unrepaired_loop_diverges).

   Environment.  The channel is active (after _set_remote_channel).  One `round` per call of
   send: the events that happen before send takes the channel lock, and the wake-ups of
   out_buffer_cv.wait (each: an optional event applied while the sender sleeps, and the time
   that passed).  When the wake-ups run out the sender stays asleep for good in blocking mode
   (outcome Blocked: waiting for the peer, not looping) and times out in timed mode. *)
From PV Require Import Bytes.
Open Scope Z_scope.

Record chan := mkChan {
  closed : bool;            (* self.closed *)
  eof_sent : bool;          (* self.eof_sent *)
  window : Z;               (* self.out_window_size *)
  maxpkt : Z;               (* self.out_max_packet_size *)
  timeout : option Z        (* self.timeout: None blocking, Some 0 non-blocking, Some t timed *)
}.

Inductive ev :=
  | EvAdjust (n : Z)        (* _window_adjust: out_window_size += n; notify_all *)
  | EvClose                 (* close(): _close_internal *)
  | EvPeerClose             (* _handle_close: _close_internal *)
  | EvUnlink                (* _unlink (transport lost): _set_closed only *)
  | EvShutWrite             (* shutdown_write / shutdown(1|2): _send_eof *)
  | EvPeerEof               (* _handle_eof: eof_received only; nothing send looks at *)
  | EvBoth (a b : ev).      (* two things happen, in this order, within one sleep of the sender / before one send *)

Definition close_internal (c : chan) : chan :=
  (* if not self.active or self.closed: return; _send_eof(); _set_closed() *)
  if closed c then c else mkChan true true (window c) (maxpkt c) (timeout c).

Fixpoint apply_ev (e : ev) (c : chan) : chan :=
  match e with
  | EvAdjust n => mkChan (closed c) (eof_sent c) (window c + n) (maxpkt c) (timeout c)
  | EvClose => close_internal c
  | EvPeerClose => close_internal c
  | EvUnlink => if closed c then c else mkChan true (eof_sent c) (window c) (maxpkt c) (timeout c)
  | EvShutWrite => mkChan (closed c) true (window c) (maxpkt c) (timeout c)
  | EvPeerEof => c
  | EvBoth a b => apply_ev b (apply_ev a c)
  end.

Definition apply_evs (es : list ev) (c : chan) : chan := fold_left (fun c e => apply_ev e c) es c.

Definition wake := (option ev * Z)%type.      (* what happened while asleep, seconds elapsed *)
Definition round := (list ev * list wake)%type.

Definition dead (c : chan) : bool := closed c || eof_sent c.

(* ---- _wait_for_send_window: the inner loop --------------------------------------------
   timeout = self.timeout
   while self.out_window_size == 0:
       if self.closed or self.eof_sent: return 0
       then = time.time(); self.out_buffer_cv.wait(timeout)
       if timeout is not None:
           timeout -= time.time() - then
           if timeout <= 0.0: raise socket.timeout()                                      *)
Inductive lres := LOpen (c : chan) | LZero (c : chan) | LRaise (e : exn) (c : chan) | LBlocked (c : chan).

Fixpoint wait_loop (c : chan) (t : option Z) (wakes : list wake) : lres :=
  if window c =? 0 then
    if dead c then LZero c
    else match wakes with
         | [] => match t with
                 | None => LBlocked c                      (* never woken again *)
                 | Some _ => LRaise SocketTimeout c        (* cv.wait(timeout) runs out *)
                 end
         | (e, dt) :: r =>
             let c' := match e with Some e => apply_ev e c | None => c end in
             match t with
             | None => wait_loop c' None r
             | Some tv => if tv - dt <=? 0 then LRaise SocketTimeout c'
                          else wait_loop c' (Some (tv - dt)) r
             end
         end
  else LOpen c.

Inductive wres := WSize (n : Z) (c : chan) | WRaise (e : exn) (c : chan) | WBlocked (c : chan).

Definition take_window (c : chan) (size : Z) : wres :=
  (* we have some window to squeeze into *)
  if dead c then WSize 0 c
  else
    let size1 := if window c <? size then window c else size in
    let size2 := if maxpkt c - 64 <? size1 then maxpkt c - 64 else size1 in
    WSize size2 (mkChan (closed c) (eof_sent c) (window c - size2) (maxpkt c) (timeout c)).

Definition wait_for_send_window (c : chan) (size : Z) (wakes : list wake) : wres :=
  if dead c then WSize 0 c
  else if window c =? 0 then
    match timeout c with
    | Some 0 => WRaise SocketTimeout c                   (* if self.timeout == 0.0 *)
    | t => match wait_loop c t wakes with
           | LOpen c' => take_window c' size
           | LZero c' => WSize 0 c'
           | LRaise e c' => WRaise e c'
           | LBlocked c' => WBlocked c'
           end
    end
  else take_window c size.

(* ---- _send / send / send_stderr ------------------------------------------------------- *)
(* a message handed to transport._send_user_message: (message type, payload) *)
Definition msg := (Z * list Z)%type.
Definition MSG_CHANNEL_DATA : Z := 94.
Definition MSG_CHANNEL_EXTENDED_DATA : Z := 95.

Inductive sres :=
  | SRet (n : Z) (out : option msg) (c : chan)   (* returned n, after emitting out *)
  | SRaise (e : exn) (c : chan)
  | SBlocked (c : chan).

Definition send (stderr : bool) (c0 : chan) (s : list Z) (r : round) : sres :=
  let c := apply_evs (fst r) c0 in                         (* other threads, before the lock *)
  if closed c then SRaise SocketErr c                      (* "Socket is closed" *)
  else match wait_for_send_window c (Z.of_nat (length s)) (snd r) with
       | WRaise e c' => SRaise e c'
       | WBlocked c' => SBlocked c'
       | WSize n c' =>
           if n =? 0 then SRet 0 None c'                   (* eof or similar *)
           else SRet n (Some (if stderr then MSG_CHANNEL_EXTENDED_DATA else MSG_CHANNEL_DATA,
                              firstn (Z.to_nat n) s)) c'   (* m.add_string(s[:size]) *)
       end.

(* ---- sendall / sendall_stderr --------------------------------------------------------- *)
Inductive outcome := Done | Raised (e : exn) | Blocked | Fuel.

Record final := mkFinal {
  f_out : outcome;
  f_chan : chan;
  f_trace : list msg;       (* messages handed to the transport, in order *)
  f_rest : list Z           (* the part of the data not handed over *)
}.

Fixpoint sendall (fuel : nat) (stderr : bool) (c : chan) (s : list Z) (rounds : list round)
         (tr : list msg) : final :=
  match s with
  | [] => mkFinal Done c tr []                             (* while s: ... return None *)
  | _ :: _ =>
      match fuel with
      | O => mkFinal Fuel c tr s
      | S f =>
          match send stderr c s (hd ([], []) rounds) with
          | SRaise e c' => mkFinal (Raised e) c' tr s
          | SBlocked c' => mkFinal Blocked c' tr s
          | SRet n out c' =>
              let tr' := match out with Some m => tr ++ [m] | None => tr end in
              if n =? 0 then mkFinal (Raised SocketErr) c' tr' s       (* the repair *)
              else sendall f stderr c' (skipn (Z.to_nat n) s) (tl rounds) tr'   (* s = s[sent:] *)
          end
      end
  end.

(* the loop before the repair: no test of `sent` *)
Fixpoint sendall_v0 (fuel : nat) (stderr : bool) (c : chan) (s : list Z) (rounds : list round)
         (tr : list msg) : final :=
  match s with
  | [] => mkFinal Done c tr []
  | _ :: _ =>
      match fuel with
      | O => mkFinal Fuel c tr s
      | S f =>
          match send stderr c s (hd ([], []) rounds) with
          | SRaise e c' => mkFinal (Raised e) c' tr s
          | SBlocked c' => mkFinal Blocked c' tr s
          | SRet n out c' =>
              sendall_v0 f stderr c' (skipn (Z.to_nat n) s) (tl rounds)
                         (match out with Some m => tr ++ [m] | None => tr end)
          end
      end
  end.

Definition payload (tr : list msg) : list Z := flat_map snd tr.

(* ---- canonical encoding for the correspondence run ------------------------------------ *)
Definition outcome_code (o : outcome) : Z :=
  match o with Done => 0 | Raised e => exn_code e | Blocked => 98 | Fuel => 99 end.
Definition b2z (b : bool) : Z := if b then 1 else 0.

Definition enc_msg (m : msg) : list Z := fst m :: Z.of_nat (length (snd m)) :: snd m.

(* input: ((stderr, channel), (data, rounds)); fuel = len data, which C25_terminates shows
   is always enough *)
Definition run_sendall (x : (bool * chan) * (list Z * list round)) : list Z :=
  let '((stderr, c), (s, rounds)) := x in
  let f := sendall (length s) stderr c s rounds [] in
  outcome_code (f_out f) :: b2z (closed (f_chan f)) :: b2z (eof_sent (f_chan f))
    :: window (f_chan f) :: Z.of_nat (length (f_trace f)) :: flat_map enc_msg (f_trace f)
    ++ (-1) :: f_rest f.

(* one call of send (the documented "returns 0 when the stream is closed" behaviour) *)
Definition run_send (x : (bool * chan) * (list Z * round)) : list Z :=
  let '((stderr, c), (s, r)) := x in
  match send stderr c s r with
  | SRet n out c' => 0 :: n :: b2z (closed c') :: b2z (eof_sent c') :: window c'
                       :: match out with Some m => enc_msg m | None => [] end
  | SRaise e c' => [exn_code e; b2z (closed c'); b2z (eof_sent c'); window c']
  | SBlocked c' => [98; b2z (closed c'); b2z (eof_sent c'); window c']
  end.

(* ---- well-formedness used by the termination theorem ---------------------------------- *)
(* window adjustments are uint32 (m.get_int()); out_max_packet_size went through
   Transport._sanitize_packet_size (>= 4096), so max - 64 > 0 *)
Fixpoint ev_ok (e : ev) : bool :=
  match e with EvAdjust n => 0 <=? n | EvBoth a b => ev_ok a && ev_ok b | _ => true end.
Definition wake_ok (w : wake) : bool := match fst w with Some e => ev_ok e | None => true end.
Definition round_ok (r : round) : bool := forallb ev_ok (fst r) && forallb wake_ok (snd r).
Definition chan_ok (c : chan) : bool := (0 <=? window c) && (64 <? maxpkt c).
Definition kind (stderr : bool) : Z := if stderr then MSG_CHANNEL_EXTENDED_DATA else MSG_CHANNEL_DATA.
