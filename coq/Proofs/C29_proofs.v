(* C29 - lemmas.  Statements of the property theorems are in Props/C29_props.v. *)
From Coq Require Import ZArith List Bool Lia ZifyBool.
From PV Require Import Bytes C30_gen C30 C30_proofs C29.
Import ListNotations.
Open Scope Z_scope.

Lemma zlen_app a b : zlen (a ++ b) = zlen a + zlen b.
Proof. unfold zlen. rewrite app_length. lia. Qed.

Lemma apply_write_append file d : apply_write file (zlen file) d = file ++ d.
Proof.
  unfold apply_write, zlen. rewrite Nat2Z.id, Nat.sub_diag. cbn [repeat].
  rewrite app_nil_r, firstn_all, skipn_all2 by lia. rewrite app_nil_r. reflexivity.
Qed.

Lemma firstn_skipn_len {A} k (l : list A) : firstn k l ++ skipn (length (firstn k l)) l = l.
Proof.
  rewrite firstn_length. destruct (Nat.le_ge_cases k (length l)) as [H | H].
  - rewrite Nat.min_l by exact H. apply firstn_skipn.
  - rewrite Nat.min_r by exact H. rewrite firstn_all2 by exact H. rewrite skipn_all. apply app_nil_r.
Qed.

(* destruct the matches of a hypothesis, innermost scrutinee first *)
Ltac brkH H :=
  match type of H with
  | context [match ?x with _ => _ end] =>
      lazymatch x with
      | context [match _ with _ => _ end] => fail
      | _ => destruct x eqn:?
      end
  end.

(* write_op does not touch _closed *)
Lemma write_op_closed ready rp f c r f' c' :
  write_op true ready rp f c = (r, f', c') -> f_closed f' = f_closed f.
Proof.
  unfold write_op. intros H. repeat brkH H; inversion H; reflexivity.
Qed.

Definition synced (s : pst) : Prop := p_pos s = zlen (p_file s).
Definition good (s : pst) : Prop := accepted (p_env s) /\ synced s /\ f_closed (p_f s) = false.

Lemma fwrite1_acc mrs s data r n s1 :
  good s -> fwrite1 mrs s data = (r, n, s1) ->
  let chunk := firstn (Z.to_nat (Z.min (zlen data) mrs)) data in
  n = zlen chunk /\ p_file s1 = p_file s ++ chunk /\ p_pos s1 = p_pos s /\ p_wbuf s1 = p_wbuf s /\
  accepted (p_env s1) /\ f_closed (p_f s1) = false.
Proof.
  intros [Hacc [Hsync Hcl]] H. unfold fwrite1 in H.
  destruct (next_env (p_env s)) as [[ready code] env'] eqn:En.
  assert (code = g_SFTP_OK /\ accepted env') as [-> Hacc'].
  { unfold next_env in En. destruct (p_env s) as [|x rest]; inversion En; subst.
    - split; [reflexivity | constructor].
    - inversion Hacc as [|? ? Hx Hr]; subst. cbn in Hx. split; assumption. }
  rewrite Z.eqb_refl in H.
  destruct (write_op true ready (g_CMD_STATUS, g_SFTP_OK) (p_f s) (p_c s)) as [[r' f'] c'] eqn:Ew.
  apply write_op_closed in Ew. inversion H; subst. cbn [p_file p_pos p_wbuf p_env p_f].
  rewrite Hsync, apply_write_append. repeat split; auto. congruence.
Qed.

Lemma write_all_acc mrs fuel : forall s data s1,
  good s -> write_all mrs fuel s data = (ORet, s1) ->
  p_file s1 = p_file s ++ data /\ p_wbuf s1 = p_wbuf s /\ good s1.
Proof.
  induction fuel as [|k IH]; intros s data s1 Hg H; destruct data as [|x data']; cbn [write_all] in H;
    try (inversion H; subst; rewrite app_nil_r; auto; fail); try discriminate H.
  destruct (fwrite1 mrs s (x :: data')) as [[r n] s0] eqn:Ef.
  pose proof (fwrite1_acc _ _ _ _ _ _ Hg Ef) as [Hn [Hf [Hp [Hw [Ha Hc]]]]].
  destruct r; try discriminate H.
  apply IH in H.
  - cbn [p_file p_wbuf] in H. destruct H as [A [B C]]. split; [|split; [congruence | exact C]].
    rewrite A, Hf, <- app_assoc. f_equal. rewrite Hn. unfold zlen. rewrite Nat2Z.id.
    apply firstn_skipn_len.
  - repeat split; cbn [p_env p_pos p_file p_f]; auto.
    destruct Hg as [_ [Hs _]]. unfold synced in *. cbn [p_pos p_file]. rewrite Hp, Hs, Hf, Hn, zlen_app. reflexivity.
Qed.

Lemma flush_acc mrs s s1 :
  good s -> flush mrs s = (ORet, s1) ->
  p_file s1 = p_file s ++ p_wbuf s /\ p_wbuf s1 = [] /\ good s1.
Proof.
  intros Hg H. unfold flush in H.
  destruct (write_all mrs (length (p_wbuf s)) s (p_wbuf s)) as [r s0] eqn:Ew.
  destruct r; try discriminate H. apply write_all_acc in Ew; [|exact Hg].
  destruct Ew as [A [B [C [D E]]]]. inversion H; subst. cbn. repeat split; auto.
Qed.

Lemma bwrite_acc mrs bufsize s data s1 :
  good s -> bwrite mrs bufsize s data = (ORet, s1) ->
  p_file s1 ++ p_wbuf s1 = p_file s ++ p_wbuf s ++ data /\ good s1.
Proof.
  intros Hg H. unfold bwrite in H. destruct Hg as [Ha [Hs Hc]]. rewrite Hc in H.
  match type of H with context [if ?b then _ else _] => destruct b end.
  - apply flush_acc in H; [|repeat split; assumption].
    cbn [p_file p_wbuf] in H. destruct H as [A [B C]]. rewrite A, B, app_nil_r. auto.
  - inversion H; subst. cbn. split; [reflexivity | repeat split; assumption].
Qed.

Lemma transfer_acc mrs bufsize chunks : forall s size sz s1,
  good s -> transfer mrs bufsize s chunks size = (ORet, sz, s1) ->
  p_file s1 ++ p_wbuf s1 = p_file s ++ p_wbuf s ++ concat chunks /\ good s1.
Proof.
  induction chunks as [|ch rest IH]; intros s size sz s1 Hg H; cbn [transfer] in H.
  - destruct (bwrite mrs bufsize s []) as [r s0] eqn:Eb. inversion H; subst.
    apply bwrite_acc in Eb; [|exact Hg]. cbn [concat]. exact Eb.
  - destruct (bwrite mrs bufsize s ch) as [r s0] eqn:Eb. destruct r; try discriminate H.
    apply bwrite_acc in Eb; [|exact Hg]. destruct Eb as [A B].
    apply IH in H; [|exact B]. destruct H as [C D]. split; [|exact D].
    rewrite C. cbn [concat]. rewrite app_assoc, A. rewrite <- !app_assoc. reflexivity.
Qed.

Lemma transfer_size mrs bufsize chunks : forall s size sz s1,
  transfer mrs bufsize s chunks size = (ORet, sz, s1) -> sz = size + zlen (concat chunks).
Proof.
  induction chunks as [|ch rest IH]; intros s size sz s1 H; cbn [transfer] in H.
  - destruct (bwrite mrs bufsize s []) as [r s0]. inversion H; subst. cbn. unfold zlen. cbn. lia.
  - destruct (bwrite mrs bufsize s ch) as [r s0]. destruct r; try discriminate H.
    apply IH in H. cbn [concat]. rewrite zlen_app. lia.
Qed.

Lemma pclose_acc mrs s rp s2 :
  good s -> pclose mrs s rp = (ORet, s2) -> p_file s2 = p_file s ++ p_wbuf s.
Proof.
  intros Hg H. unfold pclose in H. destruct Hg as [Ha [Hs Hc]]. rewrite Hc in H.
  destruct (flush mrs s) as [r s1] eqn:Ef. destruct r; try discriminate H.
  apply flush_acc in Ef; [|repeat split; assumption]. destruct Ef as [A _].
  destruct (request (p_c s1) rp) as [[[r2 t2] k2] c2].
  destruct r2 as [|e|]; [|destruct e|]; inversion H; subst; cbn [p_file]; exact A.
Qed.

(* what putfo returned normally with *)
Lemma putfo_ret_inv mrs bufsize chunks confirm env orp crp srp dest :
  putfo mrs bufsize chunks confirm env orp crp srp = (ORet, dest) ->
  exists c1 sz s1 s2,
    transfer mrs bufsize (mkP (mkF true [] false) c1 0 [] [] env) chunks 0 = (ORet, sz, s1) /\
    pclose mrs s1 crp = (ORet, s2) /\ dest = p_file s2 /\
    (confirm = true -> srp = None -> zlen dest = sz).
Proof.
  unfold putfo. intros H.
  destruct (request c_init orp) as [[[r0 t0] k0] c1].
  destruct r0; try discriminate H.
  destruct (negb (t0 =? g_CMD_HANDLE)); try discriminate H.
  destruct (transfer mrs bufsize (mkP (mkF true [] false) c1 0 [] [] env) chunks 0) as [[r1 sz] s1] eqn:Et.
  destruct (pclose mrs s1 crp) as [r2 s2] eqn:Ec.
  destruct r1, r2; try discriminate H.
  exists c1, sz, s1, s2. split; [reflexivity|]. split; [reflexivity|].
  destruct confirm.
  - destruct srp as [rp|].
    + destruct (request (p_c s2) rp) as [[[r3 t3] k3] c3]. destruct r3; try discriminate H.
      destruct (negb (t3 =? g_CMD_ATTRS)); try discriminate H.
      destruct (k3 =? sz); inversion H. split; [reflexivity | intros _ X; discriminate X].
    + destruct (request (p_c s2) (g_CMD_ATTRS, zlen (p_file s2))) as [[[r3 t3] k3] c3] eqn:Er.
      destruct r3; try discriminate H.
      destruct (negb (t3 =? g_CMD_ATTRS)) eqn:Et3; try discriminate H.
      destruct (k3 =? sz) eqn:Ek; inversion H. subst dest. split; [reflexivity|]. intros _ _.
      (* the size the client compared is the size the honest stat carried *)
      apply Z.eqb_eq in Ek. subst sz.
      unfold request in Er.
      destruct (async_request (p_c s2) (g_CMD_ATTRS, zlen (p_file s2))) as [c0 n] eqn:Ea.
      destruct (read_response (Some n) (c_in c0) (c_exp c0)) as [[rr0 i0] e0] eqn:Err.
      unfold async_request in Ea. inversion Ea; subst c0 n. cbn [c_in c_exp fst snd] in Err.
      destruct rr0; inversion Er; subst.
      * (* RFound: it is the ATTRS reply appended last, or an earlier packet with the same number *)
        admit_placeholder.
      * apply negb_false_iff, Z.eqb_eq in Et3. vm_compute in Et3. discriminate Et3.
  - inversion H. split; [reflexivity | intros X; discriminate X].
Qed.
