"""C38 translator: parse schemas of every message handler + the `except` ladder of Transport.run
-> coq/Gen/C38_gen.v.   Pure AST (never imports the tree), fail-closed.

Handlers = values of every dict literal whose keys are all `MSG_*` names (transport.py,
auth_handler.py), `self._handler_table[MSG_X] = self.Y` assignments, every `self._parse_*(m)` call
inside Transport.run and inside each kex engine's `parse_next`.

Schema of a handler `f(self, m)`: the ordered list of consuming `Message.get_*` calls made on `m`
along the straight-line prefix of the body, in evaluation order, up to (not including) the first
statement whose control flow depends on peer data.  Followed through `self.X(m)` calls (inlined),
`if <param with constant default>` / `isinstance(m, bytes)` tests (decided statically) and `if`
statements that do not touch `m` (state guards: transparent).  `for _ in range(<u32 read from m>)`
loops whose body is straight-line become `IRepeat body guard`, where `guard` is the divisor `d` of a
preceding `if count > len(m.get_remainder()) // d: raise SSHException(...)` (None when absent).

Ladder = the `except` clauses of the inner try of Transport.run, in order: caught class and whether
the clause stores the caught object itself in `self.saved_exception` (`wrapped` = it stores something
else: a call to SSHException(...)).
"""
import ast
import os

GETTERS = {
    "get_byte": "GByte", "get_boolean": "GBool", "get_int": "GInt", "get_int64": "GInt64",
    "get_mpint": "GMpint", "get_string": "GString", "get_binary": "GString", "get_text": "GText",
    "get_list": "GList", "get_adaptive_int": "GAdaptive",
}
NONCONSUMING = {"get_remainder", "get_so_far", "asbytes"}
FILES = ["transport.py", "auth_handler.py", "channel.py", "kex_curve25519.py", "kex_ecdh_nist.py",
         "kex_gex.py", "kex_group1.py", "kex_group14.py", "kex_group16.py", "kex_gss.py"]


class Fail(RuntimeError):
    pass


class Tree:
    def __init__(self, repo):
        self.classes = {}      # (file, class) -> ClassDef
        self.bases = {}
        self.mods = {}
        for f in FILES:
            p = os.path.join(repo, "paramiko", f)
            if not os.path.exists(p):
                if f.startswith("kex_group1") and f != "kex_group1.py":
                    continue
                raise Fail("missing " + p)
            mod = ast.parse(open(p).read())
            self.mods[f] = mod
            for node in mod.body:
                if isinstance(node, ast.ClassDef):
                    self.classes[(f, node.name)] = node
                    self.bases[(f, node.name)] = [b.id for b in node.bases if isinstance(b, ast.Name)]

    def find_class(self, name, prefer_file=None):
        hits = [k for k in self.classes if k[1] == name]
        if prefer_file and (prefer_file, name) in self.classes:
            return (prefer_file, name)
        if len(hits) == 1:
            return hits[0]
        return None

    def method(self, ckey, name):
        """Resolve method `name` on class ckey or its bases (any scanned file)."""
        seen = set()
        todo = [ckey]
        while todo:
            k = todo.pop(0)
            if k in seen or k not in self.classes:
                continue
            seen.add(k)
            for n in self.classes[k].body:
                if isinstance(n, ast.FunctionDef) and n.name == name:
                    return k, n
            for b in self.bases[k]:
                bk = self.find_class(b, k[0])
                if bk:
                    todo.append(bk)
        return None, None


def ordered(node):
    """Sub-nodes in (approximate) evaluation order, post-order for calls."""
    if isinstance(node, ast.Call):
        yield from ordered(node.func)
        for a in node.args:
            yield from ordered(a)
        for k in node.keywords:
            yield from ordered(k.value)
        yield node
        return
    if isinstance(node, (ast.Lambda, ast.ListComp, ast.SetComp, ast.DictComp, ast.GeneratorExp)):
        yield node
        return
    if isinstance(node, ast.Assign):
        yield from ordered(node.value)
        for t in node.targets:
            yield from ordered(t)
        yield node
        return
    for ch in ast.iter_child_nodes(node):
        yield from ordered(ch)
    yield node


def mentions(node, m):
    return any(isinstance(n, ast.Name) and n.id == m for n in ast.walk(node))


class Walk:
    def __init__(self, tree, ckey, fn, depth=0, static_args=None):
        self.t = tree
        self.ckey = ckey
        self.fn = fn
        self.depth = depth
        if depth > 6:
            raise Fail("inlining too deep at %s.%s" % (ckey, fn.name))
        args = fn.args.args
        if len(args) < 2:
            raise Fail("%s.%s: handler without message parameter" % (ckey, fn.name))
        self.m = args[1].arg
        # parameters with constant defaults, not supplied by the caller
        self.static = {}
        defaults = fn.args.defaults
        for a, d in zip(args[len(args) - len(defaults):], defaults):
            if isinstance(d, ast.Constant) and a.arg != self.m:
                self.static[a.arg] = d.value
        self.items = []          # ("get", G) | ("bytes", n) | ("repeat", [getters], guard)
        self.bound = {}          # name -> index in items
        self.guards = {}         # count name -> divisor
        self.tainted = set()     # names / attribute chains computed from the peer message
        self.loops_ok = set()    # For nodes turned into IRepeat
        self.complete = True     # False when the walk stopped at a data-dependent statement
        self.stopped = False
        self.where = "%s:%s.%s" % (ckey[0], ckey[1], fn.name)

    # -- classification of one expression / simple statement ---------------
    def simple(self, node):
        """Process gets in evaluation order; returns False when m escaped (stop after it)."""
        m = self.m
        ok = True
        consumed_receivers = set()
        for n in ordered(node):
            if isinstance(n, (ast.Lambda, ast.ListComp, ast.SetComp, ast.DictComp, ast.GeneratorExp)):
                if mentions(n, m):
                    raise Fail("%s: message used inside a comprehension/lambda (line %d)" % (self.where, n.lineno))
                continue
            if isinstance(n, ast.Call):
                f = n.func
                if isinstance(f, ast.Attribute) and isinstance(f.value, ast.Name) and f.value.id == m:
                    consumed_receivers.add(id(f.value))
                    if f.attr in GETTERS:
                        if n.args or n.keywords:
                            raise Fail("%s: %s with arguments" % (self.where, f.attr))
                        self.items.append(("get", GETTERS[f.attr]))
                    elif f.attr == "get_bytes":
                        if len(n.args) != 1 or not isinstance(n.args[0], ast.Constant) or not isinstance(n.args[0].value, int):
                            raise Fail("%s: get_bytes with a non-constant size" % self.where)
                        self.items.append(("bytes", n.args[0].value))
                    elif f.attr in NONCONSUMING:
                        pass
                    else:
                        raise Fail("%s: unknown Message method %s (line %d)" % (self.where, f.attr, n.lineno))
                    continue
                # m passed on to self.X(...)
                pos = [a for a in n.args if isinstance(a, ast.Name) and a.id == m]
                if pos:
                    for a in pos:
                        consumed_receivers.add(id(a))
                    if (isinstance(f, ast.Attribute) and isinstance(f.value, ast.Name) and f.value.id == "self"
                            and len(n.args) == 1 and not n.keywords):
                        k, sub = self.t.method(self.ckey, f.attr)
                        if sub is None:
                            raise Fail("%s: cannot resolve self.%s" % (self.where, f.attr))
                        w = Walk(self.t, k, sub, self.depth + 1)
                        w.run()
                        base = len(self.items)
                        self.items += w.items
                        if not w.complete:
                            self.complete = False
                            ok = False
                    else:
                        ok = False     # escapes to code we do not follow
        # any other mention of m (assignment of m itself, attribute reads like m.seqno are fine)
        for n in ast.walk(node):
            if isinstance(n, ast.Name) and n.id == m and id(n) not in consumed_receivers:
                if isinstance(n.ctx, ast.Store):
                    self.rebound = True
        for n in ast.walk(node):
            if isinstance(n, ast.Attribute) and isinstance(n.value, ast.Name) and n.value.id == m:
                consumed_receivers.add(id(n.value))
        for n in ast.walk(node):
            if isinstance(n, ast.Name) and n.id == m and isinstance(n.ctx, ast.Load) and id(n) not in consumed_receivers:
                ok = False             # e.g. `self.global_response = m`, isinstance(m, ...)
        return ok

    def touches(self, stmts, terminal=False):
        """Does any statement (recursively) use the peer message before rebinding it?"""
        m = self.m
        terminal = terminal or (bool(stmts) and isinstance(stmts[-1], (ast.Return, ast.Raise)))
        return self._touches(stmts, terminal)

    def _touches(self, stmts, terminal):
        m = self.m
        for s in stmts:
            if isinstance(s, ast.Assign) and any(isinstance(t, ast.Name) and t.id == m for t in s.targets):
                if mentions(s.value, m):
                    return True
                if not terminal:
                    # rebinding that may flow to the join point: nothing after it is attributed to the peer message
                    self.ambiguous = True
                return False
            if isinstance(s, ast.For) and isinstance(s.target, ast.Name) and s.target.id == m:
                if mentions(s.iter, m):
                    return True
                continue
            if isinstance(s, (ast.If, ast.While)):
                if mentions(s.test, m) or self.touches(s.body, terminal) or self.touches(s.orelse, terminal):
                    return True
            elif isinstance(s, ast.For):
                if mentions(s.iter, m) or self.touches(s.body, terminal) or self.touches(s.orelse, terminal):
                    return True
            elif isinstance(s, ast.Try):
                if self.touches(s.body, terminal) or self.touches(s.orelse, terminal) or self.touches(s.finalbody, terminal) \
                        or any(self.touches(h.body, terminal) for h in s.handlers):
                    return True
            elif isinstance(s, ast.With):
                if any(mentions(i.context_expr, m) for i in s.items) or self.touches(s.body, terminal):
                    return True
            elif mentions(s, m):
                return True
        return False

    def static_test(self, test):
        """True/False when decidable without data, else None."""
        if isinstance(test, ast.Name) and test.id in self.static:
            return bool(self.static[test.id])
        if (isinstance(test, ast.Call) and isinstance(test.func, ast.Name) and test.func.id == "isinstance"
                and len(test.args) == 2 and isinstance(test.args[0], ast.Name) and test.args[0].id == self.m
                and isinstance(test.args[1], ast.Name) and test.args[1].id in ("bytes", "str")):
            return False      # handlers are invoked from the tables with a Message
        return None

    def guard_of(self, s):
        """`if n > len(m.get_remainder()) // d: raise SSHException(..)` -> (n, d)."""
        if not (isinstance(s, ast.If) and not s.orelse and len(s.body) == 1 and isinstance(s.body[0], ast.Raise)):
            return None
        exc = s.body[0].exc
        if not (isinstance(exc, ast.Call) and isinstance(exc.func, ast.Name) and exc.func.id == "SSHException"):
            return None
        t = s.test
        if not (isinstance(t, ast.Compare) and len(t.ops) == 1 and isinstance(t.ops[0], ast.Gt)
                and isinstance(t.left, ast.Name)):
            return None
        r = t.comparators[0]
        if not (isinstance(r, ast.BinOp) and isinstance(r.op, ast.FloorDiv) and isinstance(r.right, ast.Constant)
                and isinstance(r.right.value, int) and r.right.value >= 1):
            return None
        ln = r.left
        if not (isinstance(ln, ast.Call) and isinstance(ln.func, ast.Name) and ln.func.id == "len" and len(ln.args) == 1):
            return None
        g = ln.args[0]
        if not (isinstance(g, ast.Call) and isinstance(g.func, ast.Attribute) and g.func.attr == "get_remainder"
                and isinstance(g.func.value, ast.Name) and g.func.value.id == self.m and not g.args):
            return None
        return t.left.id, r.right.value

    def is_tainted(self, node):
        for n in ast.walk(node):
            if isinstance(n, ast.Name) and (n.id == self.m or n.id in self.tainted):
                return True
            if isinstance(n, ast.Attribute) and ast.unparse(n) in self.tainted:
                return True
        return False

    def taint_targets(self, s):
        if isinstance(s, ast.Assign):
            value, targets = s.value, s.targets
        elif isinstance(s, (ast.AugAssign, ast.AnnAssign)) and s.value is not None:
            value, targets = s.value, [s.target]
        else:
            return
        if not self.is_tainted(value):
            return
        for t in targets:
            for n in ast.walk(t):
                if isinstance(n, ast.Name) and isinstance(n.ctx, ast.Store):
                    self.tainted.add(n.id)
                elif isinstance(n, ast.Attribute) and isinstance(n.ctx, ast.Store):
                    self.tainted.add(ast.unparse(n))

    def stop(self, complete):
        self.stopped = True
        self.complete = self.complete and complete

    def block(self, stmts):
        for s in stmts:
            if self.stopped:
                return
            self.stmt(s)

    def stmt(self, s):
        m = self.m
        if getattr(self, "ambiguous", False) and mentions(s, m):
            return self.stop(False)
        if isinstance(s, ast.If):
            st = self.static_test(s.test)
            if st is True:
                return self.block(s.body)
            if st is False:
                return self.block(s.orelse)
            g = self.guard_of(s)
            if g is not None:
                self.guards[g[0]] = g[1]
                return
            if self.is_tainted(s.test):
                if mentions(s.test, m):
                    self.simple(s.test)      # gets evaluated by the test itself belong to the prefix
                return self.stop(False)      # control flow depends on peer data
            if not (mentions(s.test, m) or self.touches(s.body) or self.touches(s.orelse)):
                return                       # state guard: transparent
            if mentions(s.test, m):
                self.simple(s.test)          # gets evaluated by the test itself belong to the prefix
            return self.stop(False)
        if isinstance(s, ast.For):
            if not (mentions(s.iter, m) or self.touches(s.body)) and not (
                    isinstance(s.iter, ast.Call) and isinstance(s.iter.func, ast.Name) and s.iter.func.id == "range"
                    and s.iter.args and isinstance(s.iter.args[0], ast.Name) and s.iter.args[0].id in self.bound):
                if self.is_tainted(s.iter) or any(self.is_tainted(x) for x in ast.walk(s) if isinstance(x, (ast.If, ast.While))):
                    return self.stop(False)
                return
            it = s.iter
            if not (isinstance(it, ast.Call) and isinstance(it.func, ast.Name) and it.func.id == "range"
                    and len(it.args) == 1 and not s.orelse):
                return self.stop(False)
            a = it.args[0]
            if isinstance(a, ast.Name):
                idx = self.bound.get(a.id)
                if idx is None or idx != len(self.items) - 1 or self.items[idx] != ("get", "GInt"):
                    return self.stop(False)
                self.items.pop()
                guard = self.guards.get(a.id)
            else:
                before = len(self.items)
                self.simple(a)
                if self.items[before:] != [("get", "GInt")]:
                    return self.stop(False)
                self.items.pop()
                guard = None
            sub = Walk(self.t, self.ckey, self.fn, self.depth + 1)
            sub.block(s.body)
            if sub.stopped or not sub.complete or any(i[0] != "get" for i in sub.items):
                raise Fail("%s: loop body over a peer count is not straight-line (line %d)" % (self.where, s.lineno))
            self.items.append(("repeat", [i[1] for i in sub.items], guard))
            self.loops_ok.add(id(s))
            return
        if isinstance(s, (ast.While, ast.Try, ast.With)):
            if isinstance(s, ast.While):
                t = mentions(s.test, m) or self.touches(s.body)
            elif isinstance(s, ast.Try):
                t = self.touches(s.body) or self.touches(s.orelse) or self.touches(s.finalbody) \
                    or any(self.touches(h.body) for h in s.handlers)
            else:
                t = self.touches(s.body)
            if t or any(self.is_tainted(x.test) for x in ast.walk(s) if isinstance(x, (ast.If, ast.While))):
                return self.stop(False)
            return
        if isinstance(s, (ast.Return, ast.Raise)):
            ok = self.simple(s) if mentions(s, m) else True
            return self.stop(ok)
        if isinstance(s, (ast.FunctionDef, ast.ClassDef)):
            if mentions(s, m):
                raise Fail("%s: nested definition uses the message" % self.where)
            return
        # simple statement
        if isinstance(s, ast.Assign) and any(isinstance(t, ast.Name) and t.id == m for t in s.targets):
            if mentions(s.value, m):
                self.simple(s.value)
            return self.stop(True)           # m no longer the peer message
        self.taint_targets(s)
        if not mentions(s, m):
            return
        before = len(self.items)
        ok = self.simple(s)
        if (isinstance(s, ast.Assign) and len(s.targets) == 1 and isinstance(s.targets[0], ast.Name)
                and len(self.items) == before + 1 and isinstance(s.value, ast.Call)
                and isinstance(s.value.func, ast.Attribute) and isinstance(s.value.func.value, ast.Name)
                and s.value.func.value.id == m):
            self.bound[s.targets[0].id] = before
        if not ok:
            self.stop(False)

    def run(self):
        self.block(self.fn.body)
        return self

    def check_loops(self):
        """Fail closed on any loop that reads the peer message and was not turned into an IRepeat:
        it would silently become part of the unmodelled remainder, whose termination the theorem assumes."""
        m = self.m
        stores = [x.lineno for x in ast.walk(self.fn)
                  if isinstance(x, ast.Name) and x.id == m and isinstance(x.ctx, ast.Store)]
        for n in ast.walk(self.fn):
            if isinstance(n, (ast.For, ast.While)) and id(n) not in self.loops_ok:
                if any(ln <= n.end_lineno for ln in stores):
                    continue            # m was rebound before / inside the loop: not the peer's handler argument
                if isinstance(n, ast.For) and isinstance(n.target, ast.Name) and n.target.id == m:
                    continue            # `for m in msgs`: m is no longer the peer message
                reads = [c for b in n.body for c in ast.walk(b)
                         if isinstance(c, ast.Call) and isinstance(c.func, ast.Attribute)
                         and isinstance(c.func.value, ast.Name) and c.func.value.id == m
                         and (c.func.attr in GETTERS or c.func.attr == "get_bytes")]
                if reads:
                    raise Fail("%s: loop at line %d reads the peer message but is not of the recognised form "
                               "`n = m.get_int(); if n > len(m.get_remainder()) // d: raise SSHException(..); "
                               "for _ in range(n): <straight-line reads>`" % (self.where, n.lineno))


# -- handler inventory ---------------------------------------------------------

def _is_msg_table(d):
    return (isinstance(d, ast.Dict) and d.keys and all(isinstance(k, ast.Name) and k.id.startswith("MSG_") for k in d.keys))


def inventory(tree):
    """-> list of (msgname, (file, class), method) in deterministic order, deduplicated by target."""
    found = []
    for f in ("transport.py", "auth_handler.py"):
        for (ff, cname), cdef in sorted(tree.classes.items()):
            if ff != f:
                continue
            for node in ast.walk(cdef):
                if _is_msg_table(node):
                    for k, v in zip(node.keys, node.values):
                        if isinstance(v, ast.Attribute) and isinstance(v.value, ast.Name):
                            owner = (f, cname) if v.value.id == "self" else tree.find_class(v.value.id)
                            if owner is None:
                                raise Fail("handler table value %s.%s: unknown class" % (v.value.id, v.attr))
                            found.append((k.id, owner, v.attr))
                        elif isinstance(v, ast.Name):
                            found.append((k.id, (f, cname), v.id))
                        else:
                            raise Fail("handler table in %s.%s has a value that is not a method reference" % (f, cname))
                if (isinstance(node, ast.Assign) and len(node.targets) == 1 and isinstance(node.targets[0], ast.Subscript)
                        and isinstance(node.targets[0].value, ast.Attribute) and node.targets[0].value.attr == "_handler_table"):
                    sl = node.targets[0].slice
                    v = node.value
                    if not (isinstance(sl, ast.Name) and isinstance(v, ast.Attribute) and isinstance(v.value, ast.Name)
                            and v.value.id == "self"):
                        raise Fail("unrecognised _handler_table[...] assignment in %s.%s" % (f, cname))
                    found.append((sl.id, (f, cname), v.attr))
    # Transport.run special cases + kex engines' parse_next
    _, run = tree.method(("transport.py", "Transport"), "run")
    if run is None:
        raise Fail("Transport.run not found")
    for n in ast.walk(run):
        if (isinstance(n, ast.Call) and isinstance(n.func, ast.Attribute) and isinstance(n.func.value, ast.Name)
                and n.func.value.id == "self" and n.func.attr.startswith("_parse_")):
            found.append(("run", ("transport.py", "Transport"), n.func.attr))
    for (f, cname), cdef in sorted(tree.classes.items()):
        if not f.startswith("kex_"):
            continue
        for fn in cdef.body:
            if isinstance(fn, ast.FunctionDef) and fn.name == "parse_next":
                for n in ast.walk(fn):
                    if (isinstance(n, ast.Call) and isinstance(n.func, ast.Attribute) and isinstance(n.func.value, ast.Name)
                            and n.func.value.id == "self" and n.func.attr.startswith("_parse_")):
                        found.append(("kex", (f, cname), n.func.attr))
    out = []
    seen = set()
    for msg, owner, meth in found:
        k, fn = tree.method(owner, meth)
        if fn is None:
            raise Fail("handler %s.%s not found" % (owner, meth))
        key = (k, meth)
        if key in seen:
            continue
        seen.add(key)
        out.append((msg, k, meth, fn))
    if len(out) < 40:
        raise Fail("only %d handlers found; the inventory rules no longer match the source" % len(out))
    return out


# -- the except ladder ---------------------------------------------------------

CLASSES = {"SSHException": "CSSH", "EOFError": "CEOF", "socket.error": "CSocket", "OSError": "CSocket",
           "Exception": "CAny"}


def ladder(tree):
    _, run = tree.method(("transport.py", "Transport"), "run")
    outer = [s for s in run.body if isinstance(s, ast.Try)]
    if len(outer) != 1:
        raise Fail("Transport.run: expected one outer try")
    inner = [s for s in outer[0].body if isinstance(s, ast.Try)]
    if len(inner) != 1 or not inner[0].handlers:
        raise Fail("Transport.run: expected one inner try with handlers")
    res = []
    for h in inner[0].handlers:
        if h.type is None:
            cls = "Exception"
        else:
            cls = ast.unparse(h.type)
        if cls not in CLASSES:
            raise Fail("Transport.run: unknown caught class %s" % cls)
        saves = [n for n in ast.walk(h) if isinstance(n, ast.Assign) and len(n.targets) == 1
                 and isinstance(n.targets[0], ast.Attribute) and n.targets[0].attr == "saved_exception"]
        if len(saves) != 1:
            raise Fail("Transport.run: `except %s` stores saved_exception %d times" % (cls, len(saves)))
        v = saves[0].value
        if isinstance(v, ast.Name) and v.id == h.name:
            wrapped = False
        else:
            # whatever is stored must be built by calling SSHException (possibly via a local name)
            def builds_ssh(x):
                return isinstance(x, ast.Call) and isinstance(x.func, ast.Name) and x.func.id == "SSHException"
            okv = builds_ssh(v)
            if isinstance(v, ast.Name):
                # every binding of that local name inside the clause must be SSHException(...)
                binds = [n for n in ast.walk(h) if isinstance(n, (ast.Assign, ast.AugAssign, ast.AnnAssign, ast.NamedExpr))
                         and any(isinstance(x, ast.Name) and x.id == v.id and isinstance(x.ctx, ast.Store)
                                 for x in ast.walk(n))]
                okv = bool(binds) and all(isinstance(n, ast.Assign) and len(n.targets) == 1
                                          and isinstance(n.targets[0], ast.Name) and builds_ssh(n.value) for n in binds)
            if not okv:
                raise Fail("Transport.run: `except %s` stores something that is neither the caught object nor SSHException(...)" % cls)
            wrapped = True
        # a clause that re-raises or returns would bypass the cleanup below it
        if any(isinstance(n, (ast.Raise, ast.Return)) for n in ast.walk(h)):
            raise Fail("Transport.run: `except %s` raises/returns" % cls)
        res.append((CLASSES[cls], wrapped))
    return res


# -- caller-thread paths -------------------------------------------------------
# (1) session guards: public Transport methods that start with
#     `if <bool expr over self.active / self.initial_kex_done>: raise SSHException(..)`
# (2) sites that decode bytes as text (`u(..)`, `.decode(..)` without an error policy, get_text,
#     get_list) in functions reachable from the public API without going through run():
#     nothing catches a UnicodeDecodeError there on the application's behalf.

API_FILES = ["transport.py", "auth_handler.py", "channel.py", "client.py", "packet.py"]
API_CLASSES = {"Transport", "ServiceRequestingTransport", "SSHClient", "Channel", "AuthHandler", "AuthOnlyHandler"}
UNICODE_CATCHERS = {"UnicodeError", "UnicodeDecodeError", "ValueError", "Exception", "BaseException"}
SSH_RAISES = {"SSHException", "AuthenticationException", "BadAuthenticationType", "IncompatiblePeer"}


def _guard_expr(test):
    """Python bool expr over self.active / self.initial_kex_done -> Coq expr over (active kex_done)."""
    if isinstance(test, ast.BoolOp):
        op = " || " if isinstance(test.op, ast.Or) else " && "
        return "(" + op.join(_guard_expr(v) for v in test.values) + ")"
    if isinstance(test, ast.UnaryOp) and isinstance(test.op, ast.Not):
        return "(negb %s)" % _guard_expr(test.operand)
    if isinstance(test, ast.Attribute) and isinstance(test.value, ast.Name) and test.value.id == "self":
        if test.attr == "active":
            return "active"
        if test.attr == "initial_kex_done":
            return "kex_done"
    raise Fail("session guard: unrecognised test " + ast.unparse(test))


def session_guards(repo):
    mod = ast.parse(open(os.path.join(repo, "paramiko", "transport.py")).read())
    out = []
    for c in mod.body:
        if not (isinstance(c, ast.ClassDef) and c.name in ("Transport", "ServiceRequestingTransport")):
            continue
        for fn in c.body:
            if not isinstance(fn, ast.FunctionDef):
                continue
            for s in fn.body:
                if isinstance(s, ast.Expr) and isinstance(s.value, ast.Constant):
                    continue          # docstring
                mentions_kex = any(isinstance(n, ast.Attribute) and n.attr == "initial_kex_done" for n in ast.walk(s))
                if isinstance(s, ast.If) and mentions_kex and len(s.body) == 1 and isinstance(s.body[0], ast.Raise):
                    exc = s.body[0].exc
                    if not (isinstance(exc, ast.Call) and isinstance(exc.func, ast.Name) and exc.func.id in SSH_RAISES):
                        raise Fail("%s.%s: session guard does not raise an SSHException" % (c.name, fn.name))
                    out.append(("%s.%s" % (c.name, fn.name), _guard_expr(s.test)))
                break
    names = [n for n, _ in out]
    for need in ("Transport.get_remote_server_key", "Transport.auth_password", "Transport.auth_publickey"):
        if need not in names:
            raise Fail("no session guard found at the top of %s" % need)
    return out


def _functions(repo):
    """-> {name: [(file, class, FunctionDef)]} over API_FILES."""
    idx = {}
    for f in API_FILES:
        mod = ast.parse(open(os.path.join(repo, "paramiko", f)).read())
        for c in mod.body:
            if isinstance(c, ast.ClassDef):
                for fn in c.body:
                    if isinstance(fn, ast.FunctionDef):
                        idx.setdefault(fn.name, []).append((f, c.name, fn))
            elif isinstance(c, ast.FunctionDef):
                idx.setdefault(c.name, []).append((f, "", c))
    return idx


def _callees(fn):
    out = set()
    for n in ast.walk(fn):
        if isinstance(n, ast.Call):
            if isinstance(n.func, ast.Attribute):
                out.add(n.func.attr)
            elif isinstance(n.func, ast.Name):
                out.add(n.func.id)
    return out


def _decode_sites(fn):
    """Calls inside fn that decode bytes as text and can raise UnicodeDecodeError; with `guarded`."""
    parents = {}
    for n in ast.walk(fn):
        for ch in ast.iter_child_nodes(n):
            parents[id(ch)] = n
    sites = []
    for n in ast.walk(fn):
        if not isinstance(n, ast.Call):
            continue
        f = n.func
        kind = None
        if isinstance(f, ast.Name) and f.id == "u":
            kind = "u"
        elif isinstance(f, ast.Attribute) and f.attr in ("get_text", "get_list"):
            kind = f.attr
        elif isinstance(f, ast.Attribute) and f.attr == "decode":
            if len(n.args) >= 2 or any(k.arg == "errors" for k in n.keywords):
                continue                  # explicit error policy (replace / ignore): cannot raise
            kind = "decode"
        if kind is None:
            continue
        guarded = False
        cur = n
        while id(cur) in parents:
            par = parents[id(cur)]
            if isinstance(par, ast.Try) and any(cur is b for b in par.body):
                for h in par.handlers:
                    names = []
                    if h.type is None:
                        names = ["BaseException"]
                    elif isinstance(h.type, ast.Tuple):
                        names = [ast.unparse(e).split(".")[-1] for e in h.type.elts]
                    else:
                        names = [ast.unparse(h.type).split(".")[-1]]
                    if not any(x in UNICODE_CATCHERS for x in names):
                        continue
                    bad = False
                    for r in ast.walk(h):
                        if isinstance(r, ast.Raise):
                            if r.exc is None:
                                bad = True
                            elif not (isinstance(r.exc, ast.Call) and isinstance(r.exc.func, ast.Name)
                                      and r.exc.func.id in SSH_RAISES):
                                bad = True
                    if not bad:
                        guarded = True
                    break
            cur = par
        sites.append((kind, n.lineno, guarded))
    return sites


def caller_sites(repo, handler_keys):
    """Decode sites reachable from the public API on the caller's thread."""
    idx = _functions(repo)
    roots = []
    for name, lst in idx.items():
        for f, c, fn in lst:
            if c in API_CLASSES and not name.startswith("_") and name != "run":
                roots.append((f, c, fn))
    seen = {}
    todo = list(roots)
    while todo:
        f, c, fn = todo.pop()
        k = (f, c, fn.name)
        if k in seen:
            continue
        seen[k] = fn
        for callee in _callees(fn):
            if callee in ("run", "start"):
                continue                  # the transport thread: covered by the ladder of run()
            for g in idx.get(callee, []):
                if (g[0], g[1], g[2].name) in handler_keys:
                    continue              # message handlers are only invoked by run()
                todo.append(g)
    out = []
    for (f, c, name), fn in sorted(seen.items()):
        for kind, line, guarded in _decode_sites(fn):
            out.append({"file": f, "cls": c, "func": name, "kind": kind, "line": line, "guarded": guarded})
    return out


# (3) attributes the transport thread clears vs attributes caller-thread code dereferences:
#     a public method doing `self.auth_handler.wait_for_response(..)` after run() ended must not find
#     None there (AttributeError instead of the saved SSHException).

def thread_clears(repo, tree, handler_fns):
    """Attribute names X with `self.X = None` / `del self.X` in code run by the transport thread
    (Transport.run, the message handlers of the transport classes and what they call on self),
    plus anything assigned in run()'s shutdown epilogue (after the except ladder)."""
    _, run = tree.method(("transport.py", "Transport"), "run")
    fns = {id(run): run}
    todo = [run] + [fn for (k, fn) in handler_fns if k[0] == "transport.py"]
    while todo:
        fn = todo.pop()
        if id(fn) in fns and fn is not run:
            continue
        fns[id(fn)] = fn
        for n in ast.walk(fn):
            if (isinstance(n, ast.Call) and isinstance(n.func, ast.Attribute) and isinstance(n.func.value, ast.Name)
                    and n.func.value.id == "self"):
                for ck in (("transport.py", "Transport"), ("transport.py", "ServiceRequestingTransport")):
                    k, g = tree.method(ck, n.func.attr)
                    if g is not None and id(g) not in fns and g.name not in ("run",):
                        todo.append(g)
    out = set()

    def self_attr(t):
        return t.attr if isinstance(t, ast.Attribute) and isinstance(t.value, ast.Name) and t.value.id == "self" else None
    for fn in fns.values():
        for n in ast.walk(fn):
            if isinstance(n, ast.Assign) and isinstance(n.value, ast.Constant) and n.value.value is None:
                for t in n.targets:
                    for x in (t.elts if isinstance(t, ast.Tuple) else [t]):
                        if self_attr(x):
                            out.add(self_attr(x))
            elif isinstance(n, ast.Delete):
                for t in n.targets:
                    if self_attr(t):
                        out.add(self_attr(t))
    # epilogue of run(): everything after the inner try inside the outer try
    outer = [s_ for s_ in run.body if isinstance(s_, ast.Try)][0]
    seen_inner = False
    for s_ in outer.body:
        if isinstance(s_, ast.Try) and not seen_inner:
            seen_inner = True
            continue
        if seen_inner:
            for n in ast.walk(s_):
                if isinstance(n, (ast.Assign, ast.AugAssign)):
                    for t in (n.targets if isinstance(n, ast.Assign) else [n.target]):
                        if self_attr(t) and not (isinstance(n, ast.Assign) and isinstance(n.value, ast.Constant)
                                                 and isinstance(n.value.value, bool)):
                            out.add(self_attr(t))
    return sorted(out)


def caller_derefs(repo, handler_keys):
    """Attributes A used as `self.A.x`, `self.A[..]` or `self.A(..)` in transport methods that the
    application can reach on its own thread."""
    idx = _functions(repo)
    roots = [(f, c, fn) for name, lst in idx.items() for f, c, fn in lst
             if c in API_CLASSES and not name.startswith("_") and name != "run"]
    seen = {}
    todo = list(roots)
    while todo:
        f, c, fn = todo.pop()
        k = (f, c, fn.name)
        if k in seen:
            continue
        seen[k] = fn
        for callee in _callees(fn):
            if callee in ("run", "start"):
                continue
            for g in idx.get(callee, []):
                if (g[0], g[1], g[2].name) in handler_keys:
                    continue
                todo.append(g)
    out = set()
    for (f, c, name), fn in seen.items():
        if f != "transport.py" or c not in ("Transport", "ServiceRequestingTransport"):
            continue
        for n in ast.walk(fn):
            base = None
            if isinstance(n, ast.Attribute):
                base = n.value
            elif isinstance(n, ast.Subscript):
                base = n.value
            if isinstance(base, ast.Attribute) and isinstance(base.value, ast.Name) and base.value.id == "self":
                out.add(base.attr)
    return sorted(out)


# (4) what _parse_ext_info stores for later use on the caller's thread: the value kept in
#     `extensions[name]` must be exactly what one get_string / get_binary call returned (bytes), so
#     that `u(server_extensions.get(k, b""))` can only fail with UnicodeDecodeError.

def ext_info_store(tree):
    _, fn = tree.method(("transport.py", "Transport"), "_parse_ext_info")
    if fn is None:
        raise Fail("Transport._parse_ext_info not found")
    m = fn.args.args[1].arg
    bound = {}
    stores = []
    for n in ast.walk(fn):
        if isinstance(n, ast.Assign) and len(n.targets) == 1:
            t, v = n.targets[0], n.value
            if (isinstance(t, ast.Name) and isinstance(v, ast.Call) and isinstance(v.func, ast.Attribute)
                    and isinstance(v.func.value, ast.Name) and v.func.value.id == m and v.func.attr in GETTERS):
                bound.setdefault(t.id, []).append(GETTERS[v.func.attr])
            elif isinstance(t, ast.Name):
                bound.setdefault(t.id, []).append(None)          # some other binding
            if isinstance(t, ast.Subscript) and isinstance(t.value, ast.Name) and t.value.id == "extensions":
                stores.append(v)
    if len(stores) != 1:
        raise Fail("_parse_ext_info: expected exactly one `extensions[...] = ...`, found %d" % len(stores))
    v = stores[0]
    if not isinstance(v, ast.Name) or bound.get(v.id) not in (["GString"],):
        raise Fail("_parse_ext_info stores `%s`, not the bytes returned by one get_string/get_binary call"
                   % ast.unparse(v))
    # server_extensions must be (re)bound only to that dict or a literal dict of str -> str/bytes
    return "GString"


def extract(repo, lenient=False):
    """lenient: used by the harness when the strict extraction failed, so that its oracle can still run."""
    tree = Tree(repo)
    hs = []
    problems = []
    for i, (msg, k, meth, fn) in enumerate(inventory(tree)):
        try:
            w = Walk(tree, k, fn).run()
            w.check_loops()
        except Fail as e:
            if not lenient:
                raise
            problems.append(str(e))
            continue
        hs.append({"id": i, "msg": msg, "file": k[0], "cls": k[1], "method": meth,
                   "items": w.items, "complete": w.complete})
    try:
        lad = ladder(tree)
    except Fail as e:
        if not lenient:
            raise
        problems.append(str(e))
        lad = None
    hkeys = {(k[0], k[1], meth) for (msg, k, meth, fn) in inventory(tree)}
    try:
        guards = session_guards(repo)
    except Fail as e:
        if not lenient:
            raise
        problems.append(str(e))
        guards = None
    try:
        sites = caller_sites(repo, hkeys)
    except Fail as e:
        if not lenient:
            raise
        problems.append(str(e))
        sites = None
    try:
        clears = thread_clears(repo, tree, [(k, fn) for (msg, k, meth, fn) in inventory(tree)])
        derefs = caller_derefs(repo, hkeys)
    except Fail as e:
        if not lenient:
            raise
        problems.append(str(e))
        clears = derefs = None
    try:
        ext_store = ext_info_store(tree)
    except Fail as e:
        if not lenient:
            raise
        problems.append(str(e))
        ext_store = None
    return {"handlers": hs, "ladder": lad, "problems": problems, "guards": guards, "sites": sites,
            "clears": clears, "derefs": derefs, "ext_store": ext_store}


def _ascii(name):
    return "[" + "; ".join(str(b) for b in name.encode()) + "]"


def _item(i):
    if i[0] == "get":
        return "IGet %s" % i[1]
    if i[0] == "bytes":
        return "IGet (GBytes %d)" % i[1]
    g = "None" if i[2] is None else "(Some %d)" % i[2]
    return "IRepeat [%s] %s" % ("; ".join(i[1]), g)


def generate(repo):
    ex = extract(repo)
    out = ["(* GENERATED by gen/c38.py from the working tree - do not edit *)",
           "From PV Require Import Bytes C38.", "Open Scope Z_scope.", "",
           "Definition handlers : list handler := ["]
    rows = []
    for h in ex["handlers"]:
        rows.append("  (* %d %s %s:%s.%s *)\n  mkH %d [%s] %s" % (
            h["id"], h["msg"], h["file"], h["cls"], h["method"], h["id"],
            "; ".join(_item(i) for i in h["items"]), "true" if h["complete"] else "false"))
    out.append(";\n".join(rows))
    out.append("].")
    out.append("")
    out.append("(* except clauses of Transport.run, in order: (caught class, stores SSHException(...) instead of the caught object) *)")
    out.append("Definition ladder : list (cclass * bool) := [%s]." % "; ".join(
        "(%s, %s)" % (c, "true" if w else "false") for c, w in ex["ladder"]))
    out.append("")
    out.append("(* `if <test>: raise SSHException` at the top of public Transport methods, as a function of")
    out.append("   (self.active, self.initial_kex_done): true = raises *)")
    out.append("Definition session_guards : list (list Z * (bool -> bool -> bool)) := [")
    out.append(";\n".join("  (* %s *) (%s, fun active kex_done => %s)" % (n, _ascii(n), e) for n, e in ex["guards"]))
    out.append("].")
    out.append("")
    out.append("(* text decoding of stored peer data on the caller's thread: (function, guarded by a try that turns")
    out.append("   UnicodeDecodeError into an SSHException) *)")
    out.append("Definition caller_sites : list (list Z * bool) := [")
    out.append(";\n".join("  (* %s:%d %s.%s %s *) (%s, %s)" % (x["file"], x["line"], x["cls"], x["func"], x["kind"],
                                                              _ascii(x["func"]), "true" if x["guarded"] else "false")
                          for x in ex["sites"]))
    out.append("].")
    out.append("")
    out.append("(* attributes of the transport that the transport thread sets to None / deletes / reassigns while")
    out.append("   shutting down: %s *)" % ", ".join(ex["clears"]))
    out.append("Definition thread_clears : list (list Z) := [%s]." % "; ".join(_ascii(x) for x in ex["clears"]))
    out.append("(* attributes dereferenced (self.A.x / self.A[..]) by transport methods reachable on the caller's thread: %s *)"
               % ", ".join(ex["derefs"]))
    out.append("Definition caller_derefs : list (list Z) := [%s]." % "; ".join(_ascii(x) for x in ex["derefs"]))
    out.append("")
    out.append("(* the getter whose result _parse_ext_info stores unchanged in server_extensions[name] *)")
    out.append("Definition ext_info_store : getter := %s." % ex["ext_store"])
    out.append("")
    out.append("Definition run_handler (c : Z * list Z) : list Z := run_parse_in handlers c.")
    out.append("Definition run_ladder (raw : Z) : list Z := run_surface_in ladder raw.")
    out.append("Definition run_getexc (raw : Z) : list Z := run_getexc_in ladder raw.")
    out.append("Definition run_start (raw : Z) : list Z := run_start_in ladder raw.")
    out.append("Definition run_auth (raw : Z) : list Z := run_auth_in ladder raw.")
    out.append("Definition run_api (c : Z * Z) : list Z := run_api_in ladder c.")
    out.append("Definition run_guard (c : list Z * (Z * Z)) : list Z := run_guard_in session_guards c.")
    return {"C38_gen.v": "\n".join(out) + "\n"}


if __name__ == "__main__":
    import sys
    print(generate(sys.argv[1] if len(sys.argv) > 1 else "/repo")["C38_gen.v"])
