(* C43 -- model of paramiko/primes.py (ModulusPack._parse_modulus, read_file, get_modulus)
   and of the request normalisation in paramiko/kex_gex.py (_parse_kexdh_gex_request,
   _parse_kexdh_gex_request_old).  Definitions only.

   A moduli-file line is modelled after Python's line.split() / int() have run: either
   [Bad] (blank, comment, wrong field count, non-numeric field: read_file skips it) or
   [Line] with the seven fields minus the timestamp.  The random pick inside one size
   (_roll_random) is the input [r]. *)
From PV Require Import Bytes C43_gen.
Open Scope Z_scope.

Inductive fline :=
  | Bad
  | Line (mod_type tests tries size generator modulus : Z).

(* util.bit_length = int.bit_length *)
Definition bit_length (n : Z) : Z := if n =? 0 then 0 else Z.log2 (Z.abs n) + 1.

Definition entry := (Z * Z)%type.        (* (generator, modulus) *)

(* the first rejection test of _parse_modulus, thresholds from Gen/C43_gen.v (read from the source):
   mod_type < 2 or tests < 4 or (tests & 4 and tests < 8 and tries < 100) *)
Definition weak (mod_type tests tries : Z) : bool :=
  (mod_type <? min_type) || (tests <? min_tests)
  || (negb (Z.land tests mr_bit =? 0) && (tests <? mr_tests_below) && (tries <? mr_min_tries)).

(* the second: (bl != size) and (bl != size + 1) *)
Definition wrong_length (size bl : Z) : bool := negb (bl =? size) && negb (bl =? size + len_slack).

(* _parse_modulus: Some (bl, (generator, modulus)) when the line is stored in pack[bl] *)
Definition parse_modulus (l : fline) : option (Z * entry) :=
  match l with
  | Bad => None
  | Line mod_type tests tries size generator modulus =>
      if weak mod_type tests tries then None
      else
        let generator := if generator =? 0 then default_generator else generator in
        let bl := bit_length modulus in
        if wrong_length size bl then None
        else Some (bl, (generator, modulus))
  end.

(* self.pack : dict bits -> list of entries, as an association list in insertion order *)
Definition pack := list (Z * list entry).

Fixpoint pack_add (p : pack) (bl : Z) (e : entry) : pack :=
  match p with
  | [] => [(bl, [e])]
  | (k, es) :: r => if k =? bl then (k, es ++ [e]) :: r else (k, es) :: pack_add r bl e
  end.

Fixpoint pack_get (p : pack) (bl : Z) : list entry :=
  match p with
  | [] => []
  | (k, es) :: r => if k =? bl then es else pack_get r bl
  end.

Definition pack_sizes (p : pack) : list Z := map fst p.

Definition read_step (p : pack) (l : fline) : pack :=
  match parse_modulus l with
  | Some (bl, e) => pack_add p bl e
  | None => p
  end.

Definition read_file (ls : list fline) : pack := fold_left read_step ls [].

(* sorted(): insertion sort *)
Fixpoint insert (x : Z) (l : list Z) : list Z :=
  match l with
  | [] => [x]
  | y :: r => if x <=? y then x :: l else y :: insert x r
  end.
Fixpoint sort (l : list Z) : list Z :=
  match l with
  | [] => []
  | x :: r => insert x (sort r)
  end.

(* first loop of get_modulus.  [hm] = the loop also tests b >= min (the repaired code);
   hm = false is the code before the repair *)
Definition scan1_step (hm : bool) (mn prefer mx : Z) (good b : Z) : Z :=
  if (prefer <=? b) && (negb hm || (mn <=? b)) && (b <=? mx) && ((b <? good) || (good =? -1))
  then b else good.
Definition scan1 (hm : bool) (mn prefer mx : Z) (bitsizes : list Z) : Z :=
  fold_left (scan1_step hm mn prefer mx) bitsizes (-1).

(* second loop *)
Definition scan2_step (mn mx : Z) (good b : Z) : Z :=
  if (mn <=? b) && (b <=? mx) && (good <? b) then b else good.
Definition scan2 (mn mx : Z) (bitsizes : list Z) (good : Z) : Z :=
  fold_left (scan2_step mn mx) bitsizes good.

(* the size chosen, given bitsizes = sorted(self.pack.keys()), non-empty *)
Definition choose_size (hm : bool) (bitsizes : list Z) (mn prefer mx : Z) : Z :=
  let good := scan1 hm mn prefer mx bitsizes in
  let good := if good =? -1 then scan2 mn mx bitsizes good else good in
  if good =? -1 then
    let g0 := hd 0 bitsizes in
    if g0 <? mn then last bitsizes 0 else g0
  else good.

Definition get_modulus_size_gen (hm : bool) (sizes : list Z) (mn prefer mx : Z) : Z :=
  choose_size hm (sort sizes) mn prefer mx.

(* the code as repaired (fixes/C43-first-scan-honours-min.diff) *)
Definition get_modulus_size := get_modulus_size_gen true.
(* the code before the repair *)
Definition get_modulus_size_v0 := get_modulus_size_gen false.

Definition get_modulus_gen (hm : bool) (p : pack) (mn prefer mx r : Z) : result entry :=
  match pack_sizes p with
  | [] => Raise SSHExc
  | _ =>
      let good := get_modulus_size_gen hm (pack_sizes p) mn prefer mx in
      let es := pack_get p good in
      (* n = _roll_random(len(es)); the harness pins it to r mod len *)
      match nth_error es (Z.to_nat (r mod Z.of_nat (length es))) with
      | Some e => Ok e
      | None => Raise IndexErr
      end
  end.
Definition get_modulus := get_modulus_gen true.

(* ---- kex_gex.py: request normalisation ---------------------------------- *)
(* smin / smax = KexGex.min_bits / max_bits; the live values are gex_min_bits / gex_max_bits of
   Gen/C43_gen.v *)
Definition clamp_pref (smin smax prefer : Z) : Z :=
  let p := if smax <? prefer then smax else prefer in
  if p <? smin then smin else p.

Definition normalise_request (smin smax mn prefer mx : Z) : Z * Z * Z :=
  let p := clamp_pref smin smax prefer in
  let mn' := if p <? mn then p else mn in
  let mx' := if mx <? p then p else mx in
  (mn', p, mx').

Definition normalise_request_old (smin smax prefer : Z) : Z * Z * Z :=
  (smin, clamp_pref smin smax prefer, smax).

Definition gex_serve (p : pack) (smin smax mn prefer mx r : Z) : result entry :=
  let '(a, b, c) := normalise_request smin smax mn prefer mx in get_modulus p a b c r.

(* with the class attributes of the source *)
Definition gex_serve_live (p : pack) (mn prefer mx r : Z) : result entry :=
  gex_serve p gex_min_bits gex_max_bits mn prefer mx r.

(* ---- canonical outputs for the correspondence run ------------------------ *)
Definition canon_entry (e : entry) : list Z :=
  [fst e; bit_length (snd e); snd e mod 2 ^ 64].

Definition dump_pack (p : pack) : list Z :=
  flat_map (fun k => k :: Z.of_nat (length (pack_get p k)) :: flat_map canon_entry (pack_get p k))
           (sort (pack_sizes p)).

Definition canon_served (r : result entry) : list Z :=
  match r with Ok e => 0 :: canon_entry e | Raise x => [exn_code x] end.

(* (file lines, (min, prefer, max), r) -> served entry, then the whole pack *)
Definition run_limits (_ : Z) : list Z := [gex_min_bits; gex_max_bits; gex_preferred_bits].

Definition run_get (c : list fline * (Z * Z * Z) * Z) : list Z :=
  let '(ls, (mn, prefer, mx), r) := c in
  let p := read_file ls in
  canon_served (get_modulus p mn prefer mx r) ++ [-1] ++ dump_pack p.

(* (file lines, old_style, (min, prefer, max), r) -> normalised request, served entry;
   the server limits are the generated gex_min_bits / gex_max_bits *)
Definition run_gex (c : list fline * bool * (Z * Z * Z) * Z) : list Z :=
  let '(ls, old, (mn, prefer, mx), r) := c in
  let smin := gex_min_bits in let smax := gex_max_bits in
  let p := read_file ls in
  let '(a, b, c') := if old then normalise_request_old smin smax prefer
                     else normalise_request smin smax mn prefer mx in
  [a; b; c'] ++ canon_served (get_modulus p a b c' r).
