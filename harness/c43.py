"""C43 — group-exchange modulus selection honours the client's size range.

Proof: coq/Props/C43_props.v over coq/Model/C43.v.
Tie: differential run of the model (vm_compute) against the real paramiko.primes.ModulusPack
(read_file on generated moduli files, get_modulus with _roll_random pinned) and against
KexGex._parse_kexdh_gex_request / _request_old over a stub transport.
Search oracle: the property statement evaluated directly on the real objects.
"""
import os
import re
import shutil
import tempfile

from common import coq, Raw

PID = "C43"
GENS = ["c43"]
LEVEL_TEXT = ("Machine-checked proof (Coq, closed under the global context) over a model of ModulusPack "
              "(_parse_modulus acceptance, read_file, get_modulus: both scans and the fallback) that for every "
              "request (min, preferred, max) - inverted and inconsistent ones included - the size served is the "
              "smallest in-range size >= preferred if one exists, else the largest in-range size, else the "
              "documented nearest-end fallback; that the entry returned is always the (generator, modulus) of a "
              "file line that passed the type/tests/tries/bit-length requirements; and that KexGex hands "
              "get_modulus a consistent request, unchanged when the client's request is consistent and within "
              "the server's limits. The acceptance thresholds and the KexGex limits in the model are regenerated from "
              "the source (gen/c43.py); the model is tied to primes.py / kex_gex.py by a differential run every time, "
              "over files with every line-terminator / final-newline layout.")
LEVEL_NOTE = ("Trusted: Coq kernel + vm_compute; hand-written model coq/Model/C43.v validated by the "
              "correspondence run; translator gen/c43.py (AST of _parse_modulus, fail-closed); Python's "
              "str.split/int (the model gets one parsed line per line of the file, from an independent "
              "universal-newline split of the file content by the harness; unparsable lines are Bad); the random pick inside one size (_roll_random) is an input. "
              "For inconsistent client requests (preferred outside [min, max]) or a preferred size outside the "
              "server's limits KexGex deliberately rewrites the request (source comment); the property is "
              "claimed there relative to the rewritten request only (C43_gex_widens_inconsistent_request).")
TECHNIQUE = ("Coq proof (fold invariants over the two scans, insertion-sort lemmas) over thresholds generated from "
             "the source + vm_compute differential correspondence")

REAL_SIZES = [512, 768, 1023, 1024, 1025, 1536, 2047, 2048, 3072, 4096, 6144, 8191, 8192, 8193, 10000]


# ---------------------------------------------------------------- generators
def gen_line(rng, real):
    """Returns (text_line, model_line) ; model_line is 'Bad' or ('Line', ...)."""
    kind = rng.choices(["valid", "weak-type", "weak-tests", "weak-tries", "wrong-length", "malformed", "random"],
                       [50, 7, 7, 8, 10, 8, 10])[0]
    if kind == "malformed":
        t = rng.choice(["", "   ", "# 20200101 2 6 100 2047 2 ff", "20200101 2 6 100 15 2",
                        "20200101 2 6 100 15 2 a001 extra", "20200101 2 x 100 15 2 a001",
                        "20200101 2 6 100 15 2 zz", "20200101 2.0 6 100 15 2 a001", "#", "\t#x"])
        return t, "Bad", kind
    if real:
        bl = rng.choice(REAL_SIZES)
        c = rng.getrandbits(40)
        if rng.random() < 0.5:
            modulus, mraw = 2 ** (bl - 1) + c, Raw("(2^%d+%d)" % (bl - 1, c))
        else:
            modulus, mraw = 2 ** bl - 1 - c, Raw("(2^%d-1-%d)" % (bl, c))
    else:
        bl = rng.choice([rng.randrange(1, 12), rng.randrange(1, 70), rng.randrange(60, 70)])
        modulus = (1 << (bl - 1)) | rng.getrandbits(bl - 1) if bl > 1 else 1
        mraw = modulus
    mod_type, tests, tries = 2, rng.choice([4 | 2, 8, 12, 6, 14, 9]), rng.choice([100, 100, 150, 0, 99])
    if tests & 4 and tests < 8:
        tries = rng.choice([100, 101, 500])
    size = bl - 1 if rng.random() < 0.7 else bl
    gen = rng.choice([2, 2, 5, 0, 3])
    if kind == "weak-type":
        mod_type = rng.choice([0, 1, -1])
    elif kind == "weak-tests":
        tests = rng.choice([0, 1, 2, 3, -4])
    elif kind == "weak-tries":
        tests, tries = rng.choice([4, 5, 6, 7]), rng.choice([0, 50, 99])
    elif kind == "wrong-length":
        size = bl + rng.choice([1, 2, -2, -3, 10, -bl])
    elif kind == "random":
        mod_type = rng.choice([0, 1, 2, 3, 5])
        tests = rng.randrange(0, 17)
        tries = rng.choice([0, 1, 99, 100, 101, 1000])
        size = bl + rng.choice([-2, -1, 0, 1])
    text = "%s %d %d %d %d %d %x" % (rng.choice(["20200101000000", "0"]), mod_type, tests, tries, size, gen, modulus)
    if rng.random() < 0.1:
        text = "  " + text.replace(" ", "\t ", 1) + "  "
    return text, ("Line", mod_type, tests, tries, size, gen, mraw), kind


def gen_file(rng, real):
    n = rng.choice([0, 1, 2, 3, 5, 8, 12]) if rng.random() < 0.3 else rng.randrange(2, 11)
    return [gen_line(rng, real) for _ in range(n)]


def gen_request(rng, sizes, real, u32):
    lo, hi = (0, 2 ** 32 - 1) if u32 else (-5, 2 ** 33)
    pool = sorted(set(sizes)) or ([1024, 2048] if real else [8, 16])

    def near():
        m = rng.randrange(6)
        if m == 0:
            v = rng.choice(pool) + rng.choice([-1, 0, 1])
        elif m == 1:
            v = rng.randrange(min(pool) - 3, max(pool) + 4)
        elif m == 2:
            v = rng.choice(pool)
        elif m == 3:
            v = rng.choice([0, 1, 1023, 1024, 1025, 2048, 8191, 8192, 8193, 2 ** 32 - 1, lo, hi])
        else:
            v = rng.randrange(0, 2 * max(pool) + 2)
        return max(lo, min(hi, v))

    a, b, c = near(), near(), near()
    shape = rng.randrange(10)
    if shape < 5:
        a, b, c = sorted([a, b, c])                   # consistent
    elif shape == 5:
        a, b, c = sorted([a, b, c], reverse=True)     # fully inverted
    elif shape == 6:
        lo3 = sorted([a, b, c])
        a, b, c = lo3[1], lo3[0], lo3[2]              # prefer < min <= max
    elif shape == 7:
        lo3 = sorted([a, b, c])
        a, b, c = lo3[0], lo3[2], lo3[1]              # min <= max < prefer
    return a, b, c


# ---------------------------------------------------------------- reference (the property statement)
def ref_parse(text):
    """Independent reading of a moduli line: None when not storable, else (bits, generator, modulus)."""
    t = text.strip()
    if not t or t[0] == "#":
        return None
    f = t.split()
    if len(f) != 7:
        return None
    try:
        mod_type, tests, tries, size, gen = (int(x) for x in f[1:6])
        modulus = int(f[6], 16)
    except ValueError:
        return None
    if mod_type < 2 or tests < 4:
        return None                       # not a safe prime / only sieved
    if (tests & 4) and tests < 8 and tries < 100:
        return None                       # too few Miller-Rabin rounds
    bl = modulus.bit_length()
    if bl not in (size, size + 1):
        return None
    return bl, (gen or 2), modulus


def ref_size(sizes, mn, prefer, mx):
    """The statement: smallest in-range size >= preferred, else largest in-range; None if no in-range size."""
    inr = [s for s in sizes if mn <= s <= mx]
    if not inr:
        return None
    ge = [s for s in inr if s >= prefer]
    return min(ge) if ge else max(inr)


def canon_entry(e):
    g, p = e
    return [g, p.bit_length(), p % 2 ** 64]


def dump_pack(mp):
    out = []
    for k in sorted(mp.pack):
        out += [k, len(mp.pack[k])]
        for e in mp.pack[k]:
            out += canon_entry(e)
    return out


class Pinned:
    """Pins paramiko.primes._roll_random to r mod n for the duration."""

    def __init__(self, r):
        self.r = r

    def __enter__(self):
        import paramiko.primes as P
        self.P, self.old = P, P._roll_random
        P._roll_random = lambda n: self.r % n

    def __exit__(self, *a):
        self.P._roll_random = self.old


def layout_file(rng, texts):
    """Join the line texts into file content: LF / CRLF / CR / mixed terminators, with or without a
    final newline, with blank / whitespace / comment lines at the end."""
    mode = rng.choice(["lf", "lf", "lf", "crlf", "mixed", "cr"])

    def sep():
        if mode == "mixed":
            return rng.choice(["\n", "\r\n", "\n", "\r"])
        return {"lf": "\n", "crlf": "\r\n", "cr": "\r"}[mode]

    body = ""
    for i, t in enumerate(texts):
        body += t + (sep() if i < len(texts) - 1 else "")
    end = rng.choice(["", "", "", "1", "1", "1", "2", "1# end of file", "1#end1", "  ", "1   ", "1\t1", "11# c"])
    tail = "".join(sep() if ch == "1" else (sep() + sep() if ch == "2" else ch) for ch in end)
    if not texts:
        return rng.choice(["", tail, "# only a comment", "#x" + tail])
    return body + tail


def split_lines(content):
    """Independent reading of 'the lines of the file' (universal newlines)."""
    return re.split("\r\n|\r|\n", content)


def ending_kind(content):
    if not content:
        return "file-empty"
    if content[-1] not in "\r\n":
        last = content.split("\n")[-1].split("\r")[-1].strip()
        return "file-no-final-newline" + ("-comment-or-blank" if (not last or last[0] == "#") else "")
    return "file-crlf" if "\r" in content else "file-lf"


def load_pack(tmpdir, content):
    from paramiko.primes import ModulusPack
    path = os.path.join(tmpdir, "moduli")
    with open(path, "w", newline="") as f:      # newline="": write the terminators exactly as generated
        f.write(content)
    mp = ModulusPack()
    mp.read_file(path)
    return mp


class StubTransport:
    server_mode = True

    def __init__(self, pack):
        self.pack = pack
        self.sent = []
        self.expect = None

    def _get_modulus_pack(self):
        return self.pack

    def _send_message(self, m):
        self.sent.append(m.asbytes())

    def _expect_packet(self, *t):
        self.expect = t

    def _log(self, *a):
        pass


def drive_gex(mp, old, req, r):
    """Returns (normalised triple, served entry or None, exception-class-name or None, sent bytes)."""
    from paramiko.kex_gex import KexGex, KexGexSHA256
    from paramiko.message import Message
    from paramiko.ssh_exception import SSHException
    cls = KexGexSHA256 if (r & 1) else KexGex
    t = StubTransport(mp)
    k = cls(t)
    m = Message()
    if old:
        m.add_int(req[1])
    else:
        m.add_int(req[0])
        m.add_int(req[1])
        m.add_int(req[2])
    m.rewind()
    try:
        with Pinned(r):
            k.parse_next(30 if old else 34, m)
    except Exception as x:      # noqa - anything but an offered group is "no offer"
        return (k.min_bits, k.preferred_bits, k.max_bits), None, type(x).__name__, t.sent
    return (k.min_bits, k.preferred_bits, k.max_bits), (k.g, k.p), None, t.sent


# ---------------------------------------------------------------- checks on one case
def write_file(tmpdir, content):
    path = os.path.join(tmpdir, "moduli")
    with open(path, "w", newline="") as f:
        f.write(content)
    return path


def judge_direct(ctx, case, mp, content, req, e, exc=None, keyprefix=""):
    """The property on one get_modulus result e (None = it raised) for the file `content` last loaded into mp."""
    accepted = [x for x in (ref_parse(t) for t in split_lines(content)) if x is not None]
    sizes = sorted({a[0] for a in accepted})
    held = sorted((k, g, p) for k, v in mp.pack.items() for g, p in v)
    if held != sorted(accepted):
        missing = [a for a in accepted if a not in held]
        ctx.fail(keyprefix + ("acceptance-line-lost" if missing else "acceptance"),
                 "the pack does not hold exactly the lines of the file meeting the primality-test / bit-length "
                 "requirements (%d acceptable line(s) missing, %d unacceptable stored)"
                 % (len(missing), len([h for h in held if h not in accepted])),
                 case=case, expected=[[a[0], a[1], a[2] % 2 ** 64] for a in sorted(accepted)],
                 observed=[[a[0], a[1], a[2] % 2 ** 64] for a in held])
    if e is None:
        if accepted:
            ctx.fail(keyprefix + "no-offer", "get_modulus raised although the file has an acceptable group",
                     case=case, observed=exc)
        return [1 if exc in (None, "SSHException") else 98] + [-1] + dump_pack(mp), sizes
    if (e[1].bit_length(), e[0], e[1]) not in accepted:
        ctx.fail(keyprefix + "rejected-line-offered", "get_modulus returned a group that is not an accepted line "
                 "of the file", case=case, observed=canon_entry(e))
    want = ref_size(sizes, *req)
    got = e[1].bit_length()
    if want is not None and got != want:
        key = "first-scan-ignores-min" if req[0] > req[1] and got < req[0] else "size-selection"
        ctx.fail(keyprefix + key, "an in-range size exists but get_modulus served size %d instead of %d" % (got, want),
                 case=case, expected=want, observed=got)
    return [0] + canon_entry(e) + [-1] + dump_pack(mp), sizes


def call_get(mp, req, r):
    try:
        with Pinned(r):
            return mp.get_modulus(*req), None
    except Exception as x:      # noqa - anything but a returned group is "no offer"
        return None, type(x).__name__


def interleave(callA, callB, rA, rB):
    """Deterministic two-thread schedule: the calling thread runs callA(); when it reaches
    primes._roll_random (after its size selection, before its pick) it waits while a second thread runs the
    whole of callB(); then it continues.  Returns (resultA, resultB, B_ran_inside)."""
    import threading
    import paramiko.primes as P
    old = P._roll_random
    me = threading.current_thread()
    st = {"switched": False, "tb": None, "B": (None, "not-run")}

    def run_b():
        try:
            st["B"] = (callB(), None)
        except Exception as x:      # noqa
            st["B"] = (None, type(x).__name__)

    def roll(n):
        if threading.current_thread() is me:
            if not st["switched"]:
                st["switched"] = True
                st["tb"] = threading.Thread(target=run_b, daemon=True)
                st["tb"].start()
                st["tb"].join(5.0)
                st["inside"] = not st["tb"].is_alive()
            return rA % n
        return rB % n

    P._roll_random = roll
    try:
        try:
            resA = (callA(), None)
        except Exception as x:      # noqa
            resA = (None, type(x).__name__)
        if st["tb"] is None:
            run_b()                 # A never reached the switch point: plain sequence
        else:
            st["tb"].join(10.0)
    finally:
        P._roll_random = old
    return resA, st["B"], st.get("inside", False)


def run_pack_session(ctx, tmpdir, session, inter=None):
    """session: [(content, [(req, r), ...]), ...] executed on ONE ModulusPack (read_file, then the gets);
    inter = (reqA, rA, reqB, rB): finally two overlapping get_modulus calls on the same pack.
    Returns [(content, req, r, canonical output, sizes)] for every get."""
    from paramiko.primes import ModulusPack
    mp = ModulusPack()
    hist, results = [], []
    content = ""
    mp2 = None
    for step in session:
        content, gets = step[0], step[1]
        other = step[2] if len(step) > 2 else None
        mp.read_file(write_file(tmpdir, content))
        hist.append([content, []] + ([other] if other is not None else []))
        if other is not None:
            # a SECOND live ModulusPack in the process reads another file (or fails to open one) after
            # ours was loaded; ours must be unaffected
            if mp2 is None:
                mp2 = ModulusPack()
            try:
                mp2.read_file(os.path.join(tmpdir, "no-such-file") if other == "<missing>"
                              else write_file(tmpdir, other))
            except (IOError, OSError):
                pass
        for req, r in gets:
            hist[-1][1].append([list(req), r])
            case = {"path": "direct", "session": [[h[0], [list(g) for g in h[1]]] + h[2:] for h in hist]}
            if other is not None:
                case["note2"] = "a second ModulusPack object read %s after this one was loaded" % (
                    "a missing file" if other == "<missing>" else "another file")
            if len(hist) > 1 or len(hist[-1][1]) > 1:
                case["note"] = "same ModulusPack object: file %d, get_modulus call %d on it" % (len(hist), len(hist[-1][1]))
            e, exc = call_get(mp, req, r)
            out, sizes = judge_direct(ctx, case, mp, content, req, e, exc,
                                      keyprefix="two-packs-" if other is not None else "")
            results.append((content, req, r, out, sizes))
        if other not in (None, "<missing>") and gets:
            # ... and the second pack serves its own file
            req, r = gets[0]
            e, exc = call_get(mp2, req, r)
            out2, sizes2 = judge_direct(ctx, dict(case, note3="this get_modulus is on the SECOND pack (its own file)"),
                                        mp2, other, req, e, exc, keyprefix="two-packs-second-")
            results.append((other, req, r, out2, sizes2))
    if inter is not None:
        reqA, rA, reqB, rB = inter
        case = {"path": "direct", "session": [[h[0], [list(g) for g in h[1]]] + h[2:] for h in hist],
                "interleave": [list(reqA), rA, list(reqB), rB],
                "note": "two overlapping get_modulus calls on the shared pack: A selects, B runs completely, A picks"}
        (eA, xA), (eB, xB), _inside = interleave(lambda: mp.get_modulus(*reqA), lambda: mp.get_modulus(*reqB), rA, rB)
        outA, sizes = judge_direct(ctx, case, mp, content, reqA, eA, xA, keyprefix="interleaved-")
        outB, _ = judge_direct(ctx, case, mp, content, reqB, eB, xB, keyprefix="interleaved-")
        results.append((content, reqA, rA, outA, sizes))
        results.append((content, reqB, rB, outB, sizes))
    return results


def check_direct(ctx, tmpdir, content, req, r):
    """One file, one request, fresh pack."""
    res = run_pack_session(ctx, tmpdir, [(content, [(req, r)])])[0]
    return res[3], res[4]


def check_gex(ctx, tmpdir, content, old, req, r, limits, mp=None, history=None):
    """mp given: the server's (shared) pack object, already used by the requests in `history`."""
    if mp is None:
        mp = load_pack(tmpdir, content)
    accepted = [x for x in (ref_parse(t) for t in split_lines(content)) if x is not None]
    sizes = sorted({a[0] for a in accepted})
    case = {"path": "gex-old" if old else "gex", "content": content, "req": list(req), "r": r}
    if history:
        case["history"] = [[bool(o), list(q), rr] for o, q, rr in history]
        case["note"] = "key exchange number %d served from the same ModulusPack object" % (len(history) + 1)
    norm, e, exc, sent = drive_gex(mp, old, req, r)
    if e is None:
        if accepted:
            ctx.fail("no-offer", "KexGex raised although the file has an acceptable group", case=case, observed=exc)
        return list(norm) + [1 if exc == "SSHException" else 98]
    from paramiko.message import Message
    ok = False
    if len(sent) == 1:
        m = Message(sent[0])
        ok = m.get_byte() == b"\x1f" and m.get_mpint() == e[1] and m.get_mpint() == e[0]
    if not ok:
        ctx.fail("gex-group-message", "KEXDH_GEX_GROUP does not carry the chosen (p, g)", case=case,
                 observed=[s.hex()[:80] for s in sent])
    if (e[1].bit_length(), e[0], e[1]) not in accepted:
        ctx.fail("rejected-line-offered", "KexGex offered a group that is not an accepted line of the file",
                 case=case, observed=canon_entry(e))
    smin, smax = limits
    mn, prefer, mx = (smin, req[1], smax) if old else req
    if mn <= prefer <= mx and smin <= prefer <= smax:
        want = ref_size(sizes, mn, prefer, mx)
        if want is not None and e[1].bit_length() != want:
            ctx.fail("gex-consistent-request", "consistent request within the server's limits served size %d "
                     "instead of %d" % (e[1].bit_length(), want), case=case, expected=want,
                     observed=e[1].bit_length())
    return list(norm) + [0] + canon_entry(e)


def check_gex_interleaved(ctx, tmpdir, content, reqA, rA, reqB, rB, limits):
    """Two server-side key exchanges (two transports, two KexGex objects) sharing ONE ModulusPack, overlapping
    as in `interleave`.  reqA / reqB are consistent requests within the server's limits."""
    from paramiko.kex_gex import KexGex
    from paramiko.message import Message
    mp = load_pack(tmpdir, content)
    accepted = [x for x in (ref_parse(t) for t in split_lines(content)) if x is not None]
    sizes = sorted({a[0] for a in accepted})

    def mk(req):
        k = KexGex(StubTransport(mp))
        m = Message()
        for v in req:
            m.add_int(v)
        m.rewind()
        return k, (lambda: k.parse_next(34, m))

    kA, cA = mk(reqA)
    kB, cB = mk(reqB)
    (_a, xA), (_b, xB), _inside = interleave(cA, cB, rA, rB)
    case = {"path": "gex-interleaved", "content": content, "reqA": list(reqA), "rA": rA, "reqB": list(reqB), "rB": rB,
            "note": "two overlapping key exchanges served from one shared ModulusPack"}
    for who, k, req, x in (("A", kA, reqA, xA), ("B", kB, reqB, xB)):
        if x is not None or k.p is None:
            if accepted:
                ctx.fail("interleaved-no-offer", "key exchange %s raised although the file has an acceptable group" % who,
                         case=case, observed=x)
            continue
        if (k.p.bit_length(), k.g, k.p) not in accepted:
            ctx.fail("interleaved-rejected-line-offered", "key exchange %s was offered a group that is not an accepted "
                     "line of the file" % who, case=case, observed=canon_entry((k.g, k.p)))
        want = ref_size(sizes, *req)
        if want is not None and k.p.bit_length() != want:
            ctx.fail("interleaved-gex-consistent-request", "key exchange %s (consistent request) was served size %d "
                     "instead of %d" % (who, k.p.bit_length(), want), case=case, expected=want, observed=k.p.bit_length())


def check_server_moduli(ctx, tmpdir, content, other, req, limits):
    """End to end through the public server entry point: Transport.load_server_moduli(file), then another
    ModulusPack in the process reads `other`, then a key exchange is served from the transport's pack."""
    from paramiko import Transport
    from paramiko.primes import ModulusPack
    saved = Transport._modulus_pack
    try:
        ok = Transport.load_server_moduli(write_file(tmpdir, content))
        pack = Transport._modulus_pack
        p2 = ModulusPack()
        try:
            p2.read_file(os.path.join(tmpdir, "no-such-file") if other == "<missing>" else write_file(tmpdir, other))
        except (IOError, OSError):
            pass
        accepted = [x for x in (ref_parse(t) for t in split_lines(content)) if x is not None]
        sizes = sorted({a[0] for a in accepted})
        case = {"path": "server-moduli", "content": content, "other": other, "req": list(req)}
        if not ok or pack is None:
            if accepted:
                ctx.fail("server-moduli-not-loaded", "Transport.load_server_moduli did not load an acceptable file", case=case)
            return
        norm, e, exc, sent = drive_gex(pack, False, req, 0)
        if e is None:
            if accepted:
                ctx.fail("two-packs-no-offer", "the server raised although its moduli file has an acceptable group",
                         case=case, observed=exc)
            return
        if (e[1].bit_length(), e[0], e[1]) not in accepted:
            ctx.fail("two-packs-rejected-line-offered", "the server offered a group that is not in its own moduli file "
                     "(another ModulusPack object read a different file)", case=case, observed=canon_entry(e))
        want = ref_size(sizes, *req)
        if (want is not None and req[0] <= req[1] <= req[2] and limits[0] <= req[1] <= limits[1]
                and e[1].bit_length() != want):
            ctx.fail("two-packs-gex-consistent-request", "served size %d instead of %d" % (e[1].bit_length(), want),
                     case=case, expected=want, observed=e[1].bit_length())
    finally:
        Transport._modulus_pack = saved


def model_of_text(piece):
    """Model line for a piece of the file the generator did not produce as such (independent parse)."""
    t = piece.strip()
    if not t or t[0] == "#":
        return "Bad"
    f = t.split()
    if len(f) != 7:
        return "Bad"
    try:
        vals = [int(x) for x in f[1:6]] + [int(f[6], 16)]
    except ValueError:
        return "Bad"
    return ("Line",) + tuple(vals)


def model_lines(lines, content):
    """The model's input: one fline per line of the file *content* (independent split); the generator's
    compact rendering (2^k+c for large moduli) is reused when the piece is a generated line."""
    known = {t.strip(): ml for t, ml, _ in lines}
    out = []
    for piece in split_lines(content):
        ml = known.get(piece.strip())
        if ml is None:
            ml = model_of_text(piece)
        out.append("Bad" if ml == "Bad" else coq(ml))
    return "[" + ";".join(out) + "]"


def guarded_model(ctx, *a, **k):
    """The oracle must not depend on the model / translator: a failing model run is recorded, not raised."""
    try:
        return ctx.model_mismatches(*a, **k)
    except Exception as e:      # noqa
        ctx.corr_broken.append({"what": "model evaluation failed", "error": str(e)[-1500:]})
        return []


def run(ctx):
    rng = ctx.rng
    scale = 4 if ctx.thorough else 1
    ctx.rule = ("seeded generator (random.Random('C43-<seed>')): moduli files of 0..12 lines, LF/CRLF/CR/mixed terminators, "
                "with and without a final newline, blank/comment lines at the end (valid lines, each "
                "rejection reason, malformed text, random fields) at toy bit sizes 1..70 and at real sizes "
                "512..10000; requests near the sizes present: consistent, inverted, prefer<min, prefer>max, "
                "arbitrary; direct ModulusPack.get_modulus and KexGex new/old style requests (u32 fields); every "
                "pack object is driven through sessions (1..3 files loaded one after the other, 1..3 requests "
                "each; 1..3 key exchanges per pack) and through a deterministic two-thread overlap (A selects, B "
                "runs completely at A's _roll_random, A picks) directly and via two KexGex objects sharing a pack; "
                "a SECOND live ModulusPack reading another (or a missing) file after the first was loaded, also end "
                "to end via Transport.load_server_moduli + KexGex. "
                "A case is non-trivial when distinct and the file has at least one accepted line")
    ctx.trusted += ["model coq/Model/C43.v is hand-written; tied to paramiko/primes.py and kex_gex.py by this "
                    "differential run (vm_compute of the model's own definitions)",
                    "str.split / int() parsing of a moduli line is outside the model (the model gets one parsed "
                    "fline per line of the file, obtained by an independent universal-newline split of the "
                    "file content; unparsable lines are Bad)",
                    "_roll_random is pinned to r mod n in the harness process"]
    ctx.assumptions += ["KexGex path: property claimed for consistent requests (min <= preferred <= max) whose "
                        "preferred size lies within the server's limits; other requests are rewritten by design"]
    ctx.prove(GENS)
    from paramiko.kex_gex import KexGex
    limits = (KexGex.min_bits, KexGex.max_bits)
    tmpdir = tempfile.mkdtemp(prefix="verif-c43-")
    try:
        # the recorded witness first
        w = ["0 2 6 100 2047 2 %x" % (2 ** 2047 + 5), "0 2 6 100 4095 2 %x" % (2 ** 4095 + 7)]
        check_direct(ctx, tmpdir, "\n".join(w) + "\n", (4096, 2048, 8192), 0)
        ctx.count(("witness",), kind="direct-witness")
        # a file without a final newline whose last line is the only right answer
        check_direct(ctx, tmpdir, "\n".join(w), (1024, 4096, 8192), 0)
        check_gex(ctx, tmpdir, "\r\n".join(w), False, (1024, 4096, 8192), 0, limits)
        ctx.count(("witness-no-final-newline",), kind="direct-witness")

        # two files loaded one after the other into ONE pack; two overlapping requests on a shared pack
        f2 = "0 2 6 100 3071 2 %x\n" % (2 ** 3071 + 9)
        run_pack_session(ctx, tmpdir, [("\n".join(w) + "\n", [((1024, 2048, 8192), 0)]), (f2, [((1024, 3072, 8192), 0)]),
                                       ("\n".join(w) + "\n", [((1024, 4096, 8192), 0)])],
                         inter=((1024, 2048, 8192), 0, (1024, 4096, 8192), 0))
        check_gex_interleaved(ctx, tmpdir, "\n".join(w) + "\n", (1024, 2048, 8192), 0, (1024, 4096, 8192), 0, limits)
        # two live packs: ours, then a second one reads another file / fails to open one
        run_pack_session(ctx, tmpdir, [("\n".join(w) + "\n", [((1024, 2048, 8192), 0)], f2),
                                       ("\n".join(w) + "\n", [((1024, 4096, 8192), 0)], "<missing>")])
        check_server_moduli(ctx, tmpdir, "\n".join(w) + "\n", f2, (1024, 2048, 8192), limits)
        ctx.count(("witness-session",), kind="direct-witness")

        # ---- 1. direct ModulusPack: sessions on one pack object (1..3 files, 1..3 requests each, then
        #         sometimes two overlapping requests) ----------------------------------------------
        cases = []
        target = 300 * scale
        while len(cases) < target:
            real = rng.random() < 0.3
            session, lines_of = [], {}
            for _f in range(rng.choice([1, 1, 2, 3])):
                lines = gen_file(rng, real)
                texts = [t for t, _, _ in lines]
                content = layout_file(rng, texts)
                lines_of[content] = lines_of.get(content, []) + lines
                sizes0 = sorted({a[0] for a in (ref_parse(t) for t in texts) if a})
                gets = []
                for _g in range(rng.choice([1, 1, 2, 3])):
                    req = gen_request(rng, sizes0, real, u32=False)
                    if sizes0 and rng.random() < 0.3:      # make the last accepted line the only right answer
                        last = [a for a in (ref_parse(t) for t in texts) if a][-1][0]
                        req = (rng.choice([0, last - 1, last]), last, rng.choice([last, last + 1, 2 ** 20]))
                    gets.append((req, rng.randrange(0, 50)))
                if rng.random() < 0.3:
                    o_lines = gen_file(rng, real)
                    other = layout_file(rng, [t for t, _, _ in o_lines]) if rng.random() < 0.8 else "<missing>"
                    if other != "<missing>":
                        lines_of[other] = lines_of.get(other, []) + o_lines
                    session.append((content, gets, other))
                else:
                    session.append((content, gets))
                ctx.dist[ending_kind(content)] = ctx.dist.get(ending_kind(content), 0) + 1
                for _, _, k in lines:
                    ctx.dist["line-" + k] = ctx.dist.get("line-" + k, 0) + 1
            inter = None
            if len(sizes0) >= 2 and rng.random() < 0.5:
                sa, sb = rng.sample(sizes0, 2)
                inter = ((0, sa, sa), rng.randrange(50), (0, sb, sb), rng.randrange(50))
            res = run_pack_session(ctx, tmpdir, session, inter=inter)
            ngets = sum(len(st[1]) + (1 if len(st) > 2 and st[2] != "<missing>" and st[1] else 0) for st in session)
            for i, (content, req, r, out, sizes) in enumerate(res):
                cases.append((lines_of[content], req, r, out, content))
                shape = ("consistent" if req[0] <= req[1] <= req[2] else "inverted" if req[0] > req[2]
                         else "pref<min" if req[1] < req[0] else "pref>max")
                kind = "direct-interleaved" if i >= ngets else ("direct-" + shape + ("" if i == 0 else "-reused-pack"))
                ctx.count(("direct", content, req, r, i), nontrivial=bool(sizes), kind=kind)
        bad = guarded_model(
            ctx, "run_get", "(list fline * (Z * Z * Z) * Z)",
            [("(%s, %s, %s)" % (model_lines(l, c), coq(tuple(req)), coq(r)), out) for l, req, r, out, c in cases])
        for i in bad[:3]:
            ctx.disagree("ModulusPack.read_file/get_modulus differs from the model",
                         case={"content": cases[i][4], "req": cases[i][1], "r": cases[i][2]},
                         impl=cases[i][3])
        ctx.sample({"direct": {"lines": [t[:60] for t, _, _ in cases[0][0]], "req": cases[0][1], "r": cases[0][2],
                               "impl": cases[0][3]}})

        # ---- 2. through KexGex: 1..3 key exchanges served from one pack object ---------------------
        cases = []
        target = 200 * scale
        while len(cases) < target:
            real = rng.random() < 0.8
            lines = gen_file(rng, real)
            texts = [t for t, _, _ in lines]
            content = layout_file(rng, texts)
            sizes0 = sorted({a[0] for a in (ref_parse(t) for t in texts) if a})
            mp = load_pack(tmpdir, content)
            history = []
            for _k in range(rng.choice([1, 1, 2, 3])):
                req = gen_request(rng, sizes0, real, u32=True)
                old = rng.random() < 0.25
                r = rng.randrange(0, 50)
                out = check_gex(ctx, tmpdir, content, old, req, r, limits, mp=mp, history=history)
                history.append((old, req, r))
                cases.append((lines, old, req, r, out, content))
                ctx.count(("gex", content, old, req, r, len(history)), nontrivial=bool(sizes0),
                          kind=("gex-old" if old else
                                ("gex-consistent" if req[0] <= req[1] <= req[2] and limits[0] <= req[1] <= limits[1]
                                 else "gex-rewritten")) + ("" if len(history) == 1 else "-reused-pack"))
            if rng.random() < 0.25:
                o_texts = [t for t, _, _ in gen_file(rng, real)]
                check_server_moduli(ctx, tmpdir, content, layout_file(rng, o_texts) if rng.random() < 0.8 else "<missing>",
                                    gen_request(rng, sizes0, real, u32=True), limits)
                ctx.count(("server-moduli", content), nontrivial=bool(sizes0), kind="gex-server-moduli-two-packs")
            inl = [x for x in sizes0 if limits[0] <= x <= limits[1]]
            if len(inl) >= 2 and rng.random() < 0.5:
                sa, sb = rng.sample(inl, 2)
                check_gex_interleaved(ctx, tmpdir, content, (limits[0], sa, sa), rng.randrange(50),
                                      (limits[0], sb, sb), rng.randrange(50), limits)
                ctx.count(("gex-interleaved", content, sa, sb), kind="gex-interleaved")
        bad = guarded_model(
            ctx, "run_gex", "(list fline * bool * (Z * Z * Z) * Z)",
            [("(%s, %s, %s, %s)" % (model_lines(l, c), coq(old), coq(tuple(req)), coq(r)), out)
             for l, old, req, r, out, c in cases])
        for i in bad[:3]:
            ctx.disagree("KexGex request handling differs from the model",
                         case={"content": cases[i][5], "old": cases[i][1], "req": cases[i][2],
                               "r": cases[i][3]}, impl=cases[i][4])
        # the generated limits are the live class attributes
        from paramiko.kex_gex import KexGexSHA256
        for cls in (KexGex, KexGexSHA256):
            live = [cls.min_bits, cls.max_bits, cls.preferred_bits]
            if guarded_model(ctx, "run_limits", "Z", [("0", live)]):
                ctx.disagree("Gen/C43_gen.v limits differ from %s.min_bits/max_bits/preferred_bits" % cls.__name__,
                             impl=live)
        ctx.sample({"gex": {"lines": [t[:60] for t, _, _ in cases[0][0]], "old": cases[0][1], "req": cases[0][2],
                            "impl": cases[0][4]}})
    finally:
        shutil.rmtree(tmpdir, ignore_errors=True)


def replay(ctx, rep):
    case = rep["case"]
    tmpdir = tempfile.mkdtemp(prefix="verif-c43-")
    try:
        from paramiko.kex_gex import KexGex
        limits = (KexGex.min_bits, KexGex.max_bits)
        ctx.count(("replay", repr(case)))
        ctx.count(("replay2", repr(case)))
        path = case.get("path")
        if path == "direct" and "session" in case:
            session = [tuple([h[0], [(tuple(q), r) for q, r in h[1]]] + list(h[2:])) for h in case["session"]]
            inter = case.get("interleave")
            run_pack_session(ctx, tmpdir, session,
                             inter=(tuple(inter[0]), inter[1], tuple(inter[2]), inter[3]) if inter else None)
            return
        if path == "server-moduli":
            check_server_moduli(ctx, tmpdir, case["content"], case["other"], tuple(case["req"]), limits)
            return
        if path == "gex-interleaved":
            check_gex_interleaved(ctx, tmpdir, case["content"], tuple(case["reqA"]), case["rA"], tuple(case["reqB"]),
                                  case["rB"], limits)
            return
        content = case["content"] if "content" in case else "\n".join(case["lines"]) + "\n"
        if path == "direct":
            check_direct(ctx, tmpdir, content, tuple(case["req"]), case["r"])
        else:
            mp = load_pack(tmpdir, content)
            hist = []
            for o, q, rr in case.get("history", []):
                check_gex(ctx, tmpdir, content, o, tuple(q), rr, limits, mp=mp, history=hist)
                hist.append((o, tuple(q), rr))
            check_gex(ctx, tmpdir, content, path == "gex-old", tuple(case["req"]), case["r"], limits, mp=mp, history=hist)
    finally:
        shutil.rmtree(tmpdir, ignore_errors=True)
