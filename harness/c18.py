"""C18 - a client refuses server-initiated actions it did not enable.

Proof: coq/Props/C18_props.v over coq/Model/C18.v and coq/Gen/C18_gen.v (branch tables regenerated
from the AST of Channel._handle_request / Transport._parse_channel_open / _parse_global_request).
Tie: direct drive of a real (unstarted) client-mode Transport with recording sends: histories of
Channel.request_x11 / request_forward_agent / Transport.request_port_forward / cancel_port_forward
(through the public methods, the server's grant / denial simulated), then every channel kind, every
channel-request name and global requests (plus near misses and random names) are fed to the real
handlers; replies, handler state, accept queue and callbacks are compared with the model
(vm_compute).  Server-mode runs with a scripted server object give the contrast.
Oracle (independent of the model): the client never sends REQUEST_SUCCESS / CHANNEL_SUCCESS for a
command request / CHANNEL_OPEN_SUCCESS for a kind whose feature is not currently enabled, never
consults a server object, never queues or hands out a channel it rejected.
"""
import itertools
import logging
import threading

from common import coq

PID = "C18"
LEVEL_TEXT = ("Machine-checked proof (Coq, closed under the global context) that a client-mode transport answers "
              "every global request with failure without consulting anything, accepts a server-opened channel only "
              "for a kind whose feature the client enabled itself in the history of enable/cancel operations (all "
              "histories, all kinds; handler state proved to be that function of the history), and with no server "
              "object approves no channel request except the exit-status / xon-xoff notifications; branch tables "
              "are regenerated from the source AST every run and the model is compared with the real handlers.")
LEVEL_NOTE = ("The reply hand-over between the transport thread and the thread waiting in global_request / "
              "request_x11 is outside the Coq model (the model takes grant/denial as the event's outcome): it is "
              "pinned by gen/c18.py (value stored before Event.set()) and exercised under two deterministic "
              "schedules with a switch point at Event.set(); other interleavings are not explored. "
              "Trusted: Coq kernel + vm_compute; gen/c18.py (AST shape recognition, fail-closed); the hand-written "
              "effect of the four enable/cancel operations in coq/Model/C18.v, validated by driving the real "
              "methods; message parsing errors (bad UTF-8, truncated fields) are outside the model.")
TECHNIQUE = "Coq proof (induction over histories, generated branch tables) + direct-drive differential correspondence"

AGENT = "auth-agent@openssh.com"
KINDS_ENABLED = {AGENT: 0, "x11": 1, "forwarded-tcpip": 2}
REQ_NAMES = ["exit-status", "xon-xoff", "pty-req", "shell", "env", "exec", "subsystem", "window-change",
             "x11-req", "auth-agent-req@openssh.com"]
NOTIFY = {"exit-status", "xon-xoff"}
GLOBAL_NAMES = ["tcpip-forward", "cancel-tcpip-forward", "keepalive@openssh.com", "keepalive@lag.net",
                "hostkeys-00@openssh.com", "hostkeys-prove-00@openssh.com", "no-more-sessions@openssh.com",
                "streamlocal-forward@openssh.com", "cancel-streamlocal-forward@openssh.com"]
_KEY = []


def _key():
    if not _KEY:
        import paramiko
        _KEY.append(paramiko.ECDSAKey.generate())
    return _KEY[0]


EVENT_NAMES = ["x11-granted", "x11-denied", "agent", "forward-granted", "forward-denied",
               "forward-inactive-granted", "forward-inactive-denied", "cancel", "cancel-inactive",
               "other-global-granted", "other-global-denied",
               "forward-granted-rekey-while-pending", "forward-denied-rekey-while-pending",
               "pty-granted", "pty-denied", "cancel-refused-by-server"]
# exhaustive alphabet; 11/12 (a re-key completes while the request is pending; 0.25 s hold each) are added to
# chosen prefixes and to random histories.  13/14: another channel request (get_pty) granted / refused - with
# channel re-use every enabling request is thus issued after an earlier success and after an earlier refusal on
# the same channel; 15: the server answers cancel-tcpip-forward with REQUEST_FAILURE.
ALPHABET = list(range(11)) + [13, 14, 15]
SCHEDULES = ["sync", "switch-after-set"]
_quiet = [False]


def quiet():
    if not _quiet[0]:
        lg = logging.getLogger("paramiko")
        lg.addHandler(logging.NullHandler())
        lg.propagate = False
        lg.setLevel(logging.CRITICAL)
        _quiet[0] = True


class SpyServer:
    """Scripted server object: answers `ok`, records that it was consulted."""

    def __init__(self, ok):
        self.ok = ok
        self.calls = []

    def __getattr__(self, name):
        if not name.startswith(("check_", "cancel_")):
            raise AttributeError(name)

        def f(*a, **k):
            self.calls.append(name)
            if name in ("check_channel_request", "check_channel_direct_tcpip_request"):
                return 0 if self.ok else 1
            if name == "check_port_forward_request":
                return 4242 if self.ok else False
            return self.ok
        return f


class Ctl:
    """One switch point: the first controlled Event that is set() holds its setter until the gate opens."""

    def __init__(self, hold):
        self.hold = hold
        self.gate = threading.Event()
        self.lock = threading.Lock()
        self.used = False

    def take(self):
        with self.lock:
            if self.used:
                return False
            self.used = True
            return True


class SwitchEvent(threading.Event):
    """threading.Event with a deterministic switch point: while a controller is attached, the thread that calls
    set() is held right after the flag is set until the gate opens, i.e. the waiting thread runs first (a legal
    schedule).  Without a controller it is an ordinary Event."""

    def __init__(self):
        super().__init__()
        self.ctl = None

    def set(self):
        super().set()
        c = self.ctl
        if c is not None and c.take():
            c.gate.wait(c.hold)


def install_event_shim():
    """paramiko.transport looks `threading.Event` up at call time: give that module (only) a view of
    `threading` whose Event is SwitchEvent, so that whichever Event a Transport method creates and waits on -
    via an attribute or a local variable - can be given a switch point."""
    import types
    import paramiko.transport as pt
    if getattr(pt.threading, "Event", None) is not SwitchEvent:
        shim = types.SimpleNamespace(**vars(threading))
        shim.Event = SwitchEvent
        pt.threading = shim


class Rig:
    """A real Transport that is never started; sends are recorded, the peer is simulated.
    schedule "sync": the simulated server's reply is processed before the requesting call starts to wait;
    schedule "switch-after-set": the reply is processed by a second thread (the transport thread's role) and
    that thread is descheduled right after Event.set(), so the waiter runs before the setter's next statement."""

    def __init__(self, server_mode=False, server_object=None, schedule="sync", reuse_channel=False):
        self.schedule = schedule
        self.reuse_channel = reuse_channel   # channel requests go to the same session channel while it is open
        self.session = None
        self.pending = []         # (Ctl, controlled events, thread) of replies in flight
        self.rekey_first = False  # a re-key completes (NEWKEYS is processed) before the pending reply arrives
        from paramiko.transport import Transport
        from _loop import LoopSocket
        quiet()
        install_event_shim()
        self.t = Transport(LoopSocket())
        self.t.active = True
        self.t.server_mode = server_mode
        self.t.server_object = server_object
        self.sent = []            # (ptype, payload bytes) via _send_message / _send_user_message
        self.grant = True
        self.calls = []           # handler ids invoked
        self.kept = []
        self.chans = {}
        self.next_id = 100
        self.t._send_message = self._send
        self.t._send_user_message = self._send_user

    def close(self):
        try:
            self.t.sock.close()
            self.t.packetizer.close()
        except Exception:
            pass

    def _send(self, m):
        b = m.asbytes()
        self.sent.append((b[0], bytes(b[1:])))

    def transport_events(self):
        """Every Event the transport currently holds (the one the pending call waits on is among them)."""
        return [v for v in vars(self.t).values() if isinstance(v, SwitchEvent)]

    def _send_user(self, m):
        from paramiko import Message
        b = m.asbytes()
        self.sent.append((b[0], bytes(b[1:])))
        mm = Message(b[1:])
        if b[0] == 98:       # CHANNEL_REQUEST from the client: the simulated server answers
            rcid = mm.get_int()
            name = mm.get_text()
            want = mm.get_boolean()
            if want:
                chan = self.chans[rcid]
                fn = chan._request_success if self.grant else chan._request_failed
                self._deliver([chan.event] if isinstance(chan.event, SwitchEvent) else [], fn, Message())
        elif b[0] == 80:     # GLOBAL_REQUEST from the client
            name = mm.get_text()
            want = mm.get_boolean()
            if want and self.rekey_first:
                self._rekey_then_reply()
            elif want:
                if self.grant:
                    r = Message()
                    r.add_int(4242)
                    r.rewind()
                    self._deliver(self.transport_events(), self.t._parse_request_success, r)
                else:
                    self._deliver(self.transport_events(), self.t._parse_request_failure, Message())

    def _rekey_then_reply(self):
        """The transport thread's role: NEWKEYS of a re-key is processed while the global request is pending
        (the real Transport._parse_newkeys, cipher activation stubbed out), the waiter gets the chance to run
        (held for 0.25 s, or until the requesting call returns, right after the first Event.set() - or after
        _parse_newkeys if it signals nothing), and only then the server's reply arrives."""
        from paramiko import Message
        t = self.t
        t._activate_inbound = lambda: None
        ctl = Ctl(0.25)
        evs = self.transport_events()
        for e in evs:
            e.ctl = ctl
        grant = self.grant

        def transport_thread():
            t._parse_newkeys(Message())
            if ctl.take():                     # nothing was signalled: still give the waiter its turn
                ctl.gate.wait(ctl.hold)
            if grant:
                r = Message()
                r.add_int(4242)
                r.rewind()
                t._parse_request_success(r)
            else:
                t._parse_request_failure(Message())

        th = threading.Thread(target=transport_thread, daemon=True)
        self.pending.append((ctl, evs, th))
        th.start()

    def _deliver(self, evs, fn, m):
        if self.schedule == "sync" or not evs:
            fn(m)
            return
        ctl = Ctl(3.0)
        for e in evs:
            e.ctl = ctl
        th = threading.Thread(target=fn, args=(m,), daemon=True)
        self.pending.append((ctl, evs, th))
        th.start()

    def release(self):
        """Let the reply-processing threads finish (the requesting call has returned or raised)."""
        for ctl, evs, th in self.pending:
            ctl.gate.set()
        for ctl, evs, th in self.pending:
            th.join(5.0)
            for e in evs:
                e.ctl = None
        self.pending = []

    def new_channel(self):
        from paramiko.channel import Channel
        cid = self.next_id
        self.next_id += 1
        chan = Channel(cid)
        self.t._channels.put(cid, chan)
        self.t.channels_seen[cid] = True
        chan._set_transport(self.t)
        chan._set_window(self.t.default_window_size, self.t.default_max_packet_size)
        chan._set_remote_channel(cid + 1000, 65536, 32768)
        if self.schedule != "sync":
            chan.event = SwitchEvent()
        self.chans[cid + 1000] = chan
        return chan

    def cb(self, hid):
        def f(*a):
            self.calls.append(hid)
            self.kept.append(a)     # Transport._channels holds channels weakly
        f._c18_spy = True
        return f

    def channel(self):
        c = self.session
        if self.reuse_channel and c is not None and not (c.closed or c.eof_received or c.eof_sent):
            return c
        self.session = self.new_channel()
        return self.session

    def apply(self, code, custom):
        """Run one enable / cancel operation through the public API; exceptions are part of the API."""
        import paramiko
        t = self.t
        try:
            if code in (0, 1):
                self.grant = code == 0
                self.channel().request_x11(handler=self.cb(1) if custom else None)
            elif code == 2:
                self.channel().request_forward_agent(self.cb(0) if custom else None)
            elif code in (13, 14):
                self.grant = code == 13
                self.channel().get_pty()
            elif code == 15:
                self.grant = False
                t.cancel_port_forward("127.0.0.1", 8022)
            elif code in (3, 4, 5, 6):
                self.grant = code in (3, 5)
                t.active = code in (3, 4)
                try:
                    t.request_port_forward("127.0.0.1", 0 if custom else 8022, handler=self.cb(2) if custom else None)
                finally:
                    t.active = True
            elif code in (7, 8):
                self.grant = True
                t.active = code == 7
                try:
                    t.cancel_port_forward("127.0.0.1", 8022)
                finally:
                    t.active = True
            elif code in (9, 10):
                self.grant = code == 9
                t.global_request("ping@example.com", ("x",), wait=True)
            elif code in (11, 12):
                self.grant = code == 11
                self.rekey_first = True
                t.request_port_forward("127.0.0.1", 0 if custom else 8022, handler=self.cb(2) if custom else None)
        except paramiko.SSHException:
            pass
        finally:
            self.release()
            self.rekey_first = False
        self.grant = True

    def handler_state(self):
        t = self.t
        return [int(t._forward_agent_handler is not None), int(t._x11_handler is not None),
                int(t._tcp_handler is not None)]

    def spy_handlers(self):
        """Wrap the installed handlers so that the one that is invoked is observable."""
        t = self.t
        for attr, hid in (("_forward_agent_handler", 0), ("_x11_handler", 1), ("_tcp_handler", 2)):
            h = getattr(t, attr)
            if h is not None and not getattr(h, "_c18_spy", False):
                def mk(h=h, hid=hid):
                    def w(*a):
                        self.calls.append(hid)
                        return h(*a)
                    w._c18_spy = True
                    return w
                setattr(t, attr, mk())


def msg(*fields):
    from paramiko import Message
    m = Message()
    for f in fields:
        if isinstance(f, bool):
            m.add_boolean(f)
        elif isinstance(f, int):
            m.add_int(f)
        elif isinstance(f, bytes):
            m.add_string(f)
        else:
            m.add_string(f.encode("utf-8"))
    m.rewind()
    return m


# kinds related to / easily confused with the three a client can enable: offered in every handler state
NEAR_KINDS = ["forwarded-streamlocal@openssh.com", "direct-streamlocal@openssh.com", "direct-tcpip", "session",
              "auth-agent", "auth-agent-req@openssh.com", "auth-agent@openssh.org", "x11-req", "X11",
              "x11@openssh.com", "forwarded-tcpip@openssh.com", "forwarded-tcpip ", "tcpip-forward",
              "tun@openssh.com"]


def open_payload(kind, chanid, rng):
    extra = []
    if kind.lower().startswith("x11"):
        extra = ["10.0.0.7", 6010]
    elif "streamlocal" in kind:
        extra = ["/run/user/1000/fwd.sock", ""]          # socket path, reserved string (OpenSSH PROTOCOL 2.4)
    elif "tcpip" in kind:
        extra = ["127.0.0.1", 8022, "10.0.0.9", 40000]
    elif rng.random() < 0.5:
        extra = ["junk", rng.randrange(1 << 16), "more", rng.randrange(1 << 16)]
    return msg(kind, chanid, 65536, 32768, *extra)


SUBSYSTEMS = ["sftp", "netconf", "x-custom@example.com"]


def request_payload(key, want, rng, subsystem="sftp"):
    f = {"exit-status": [rng.randrange(256)], "pty-req": ["vt100", 80, 24, 0, 0, b""], "env": ["LANG", "C"],
         "exec": ["id; rm -rf /"], "subsystem": [subsystem], "window-change": [80, 24, 0, 0],
         "x11-req": [False, "MIT-MAGIC-COOKIE-1", b"00ff", 0]}.get(key)
    if f is None:
        f = [] if rng.random() < 0.5 else ["x", rng.randrange(1 << 20)]
    return msg(key, want, *f)


def rand_name(rng, pool):
    mode = rng.randrange(7)
    base = rng.choice(pool)
    if mode == 0:
        return base + rng.choice([" ", "\x00", "x", "@openssh.com", "-req"])
    if mode == 1:
        return base[:-1]
    if mode == 2:
        return base.upper()
    if mode == 3:
        return ""
    if mode == 4:
        return "".join(rng.choice("abcdefghijklmnopqrstuvwxyz-@.0123456789") for _ in range(rng.randrange(1, 24)))
    if mode == 5:
        return base + "é中"
    return rng.choice(["session", "direct-tcpip", "tun@openssh.com", "keepalive@openssh.com", "signal",
                       "exit-signal", "break", "eow@openssh.com", "hostkeys-00@openssh.com", "no-more-sessions@openssh.com"])


# ---- history-level oracle (Python, independent of the Coq model) ------------------------------
def enabled_after(hist):
    agent = x11 = tcp = False
    for c in hist:
        if c == 0:
            x11 = True
        elif c == 2:
            agent = True
        elif c in (3, 11):
            tcp = True
        elif c in (7, 15):
            tcp = False           # cancelling is the client's decision, whatever the server answers
    return {AGENT: agent, "x11": x11, "forwarded-tcpip": tcp}


def inbound_globals(ctx, rig, hist, names, gcases):
    """Server-sent global requests in the handler state the history left behind: each is refused
    (REQUEST_FAILURE exactly when a reply is wanted) and changes nothing."""
    rng = ctx.rng
    for kind in names:
        want = rng.random() < 0.7
        before = rig.handler_state()
        rig.sent.clear()
        case = {"history": [EVENT_NAMES[c] for c in hist], "global_request": kind, "want_reply": want,
                "server_mode": False, "handler_state_before": before, "schedule": rig.schedule,
                "same_channel": rig.reuse_channel}
        try:
            rig.t._parse_global_request(msg(kind, want, "127.0.0.1", 8022))
        except Exception as e:
            ctx.fail("client-global-request-raises", "Transport._parse_global_request raised instead of refusing",
                     case=case, observed=repr(e))
            continue
        types = [p for p, _ in rig.sent]
        after = rig.handler_state()
        ctx.count(("global-in-state", tuple(hist), kind, want), nontrivial=True, kind="global-client-in-state")
        if 81 in types:
            ctx.fail("client-approved-global-request",
                     "a client-mode transport approved a global request from the server", case=case,
                     observed={"sent": types, "handler_state_after": after})
        elif types != ([82] if want else []):
            ctx.fail("client-global-request-reply", "global request not answered with REQUEST_FAILURE exactly when "
                     "a reply was wanted", case=case, observed=types)
        if after != before:
            ctx.fail("global-request-changed-client-state",
                     "a server-sent global request changed which channel kinds the client accepts", case=case,
                     observed={"handler_state_after": after})
        obs = [0, types[0] if types else -1] + ([len(types)] if len(types) > 1 else [])
        gcases.append(((False, list(kind.encode("utf-8")), want, True), obs, case))


def drive_open(ctx, hist, custom, kinds, cases, server=None, schedule="sync", reuse=False, globals_=(), gcases=None):
    """Replay `hist` on a fresh transport, then offer each kind; returns nothing, appends cases."""
    rng = ctx.rng
    server_mode = server is not None
    rig = Rig(server_mode=server_mode, server_object=server, schedule=schedule, reuse_channel=reuse)
    try:
        for c in hist:
            rig.apply(c, custom)
        if globals_ and not server_mode:
            inbound_globals(ctx, rig, hist, globals_, gcases if gcases is not None else [])
        state = rig.handler_state()
        rig.spy_handlers()
        en = enabled_after(hist)
        for kind in kinds:
            rig.sent.clear()
            rig.calls.clear()
            t = rig.t
            q0 = len(t.server_accepts)
            n0 = len(t._channels)
            chanid = rng.randrange(1 << 31)
            case = {"history": [EVENT_NAMES[c] for c in hist], "custom_handlers": custom, "kind": kind,
                    "server_mode": server_mode, "schedule": schedule, "same_channel": reuse}
            try:
                t._parse_channel_open(open_payload(kind, chanid, rng))
            except Exception as e:
                if not server_mode and any(p == 91 for p, _ in rig.sent) and not en.get(kind, False):
                    ctx.fail("client-accepted-unrequested-channel",
                             "client accepted a server-opened channel of a kind it has not (or no longer) enabled "
                             "(and then raised %s)" % type(e).__name__, case=case,
                             observed={"reply": 91, "handler_state": state, "exception": repr(e)})
                ctx.fail("channel-open-raises", "Transport._parse_channel_open raised on a well-formed CHANNEL_OPEN",
                         case=case, observed=repr(e))
                continue
            queued = len(t.server_accepts) - q0
            added = len(t._channels) - n0
            replies = [(p, b) for p, b in rig.sent if p in (91, 92)]
            ctx.count(("open", tuple(hist), custom, kind, server_mode, schedule, reuse), nontrivial=bool(hist) or kind in KINDS_ENABLED,
                      kind="open-%s" % ("server" if server_mode else ("enabled-kind" if kind in KINDS_ENABLED else "other-kind")))
            if len(replies) != 1 or int.from_bytes(replies[0][1][:4], "big") != chanid:
                ctx.fail("channel-open-reply", "CHANNEL_OPEN was not answered exactly once for the sender's channel id",
                         case=case, observed=[(p, b) for p, b in rig.sent])
                continue
            ptype, body = replies[0]
            if ptype == 91:
                route = rig.calls[0] if rig.calls else -1
                obs = [91, route]
                ok_side = added == 1 and (len(rig.calls) == 1 or (not rig.calls and queued == 1))
            else:
                obs = [92, int.from_bytes(body[4:8], "big")]
                ok_side = added == 0 and queued == 0 and not rig.calls
            if not ok_side:
                ctx.fail("channel-open-side-effects", "channel bookkeeping inconsistent with the reply sent "
                         "(rejected channel registered / queued / handed to a handler, or accepted one lost)",
                         case=case, observed={"reply": ptype, "channels_added": added, "queued": queued,
                                              "handlers_called": list(rig.calls)})
            if not server_mode:
                # the property itself
                if ptype == 91 and not en.get(kind, False):
                    ctx.fail("client-accepted-unrequested-channel",
                             "client accepted a server-opened channel of a kind it has not (or no longer) enabled",
                             case=case, observed={"reply": 91, "handler_state": state})
                if ptype == 91 and rig.calls and rig.calls[0] != KINDS_ENABLED.get(kind):
                    ctx.fail("client-channel-wrong-handler", "accepted channel was given to another feature's handler",
                             case=case, observed=list(rig.calls))
                if ptype == 92 and en.get(kind, False):
                    ctx.fail("client-rejected-enabled-channel",
                             "client rejected a channel kind it had enabled and not cancelled", case=case,
                             observed={"handler_state": state})
            reason = 0 if (server is None or server.ok) else 1
            cases.append(((server_mode, list(hist), list(kind.encode("utf-8")), reason), obs + state, case))
    finally:
        rig.close()


def live_rekey_scenario(ctx):
    """End to end on a real loopback pair: a granted forward is cancelled (a success reply is left behind), the
    server then refuses a second forward but answers late, and a server-initiated re-key completes in between.
    request_port_forward must not return before the answer, and the forwarded-tcpip channel the server opens
    afterwards must be refused."""
    import time
    import paramiko
    from paramiko.common import MSG_GLOBAL_REQUEST
    from _loop import LoopSocket
    from common import with_watchdog
    quiet()

    class Srv(paramiko.ServerInterface):
        grant = True

        def check_auth_password(self, u, p):
            return paramiko.AUTH_SUCCESSFUL

        def get_allowed_auths(self, u):
            return "password"

        def check_channel_request(self, kind, chanid):
            return paramiko.OPEN_SUCCEEDED

        def check_port_forward_request(self, address, port):
            return port if self.grant else False

        def cancel_port_forward_request(self, address, port):
            pass

    srv = Srv()
    a, b = LoopSocket(), LoopSocket()
    a.link(b)
    tc, ts = paramiko.Transport(a), paramiko.Transport(b)
    case = {"scenario": "live-rekey-while-forward-pending",
            "steps": ["forward granted", "cancel", "forward requested, server holds its denial",
                      "server-initiated re-key completes", "denial delivered", "server opens forwarded-tcpip"]}
    try:
        ts.add_server_key(_key())
        ts.start_server(threading.Event(), srv)
        tc.connect(username="u", password="p")
        tc.request_port_forward("127.0.0.1", 4022)
        tc.cancel_port_forward("127.0.0.1", 4022)
        srv.grant = False
        held, got, res = [], threading.Event(), {}
        orig = ts._handler_table[MSG_GLOBAL_REQUEST]

        def hold(m):
            held.append(m)
            got.set()

        ts._handler_table[MSG_GLOBAL_REQUEST] = hold

        def ask():
            try:
                res["port"] = tc.request_port_forward("127.0.0.1", 4023)
            except paramiko.SSHException as e:
                res["exc"] = repr(e)

        th = threading.Thread(target=ask, daemon=True)
        th.start()
        if not got.wait(5):
            raise RuntimeError("server never saw the second tcpip-forward")
        st, v = with_watchdog(ts.renegotiate_keys, 10)
        if st != "ok":
            raise RuntimeError("re-key did not complete: %r" % (v,))
        th.join(0.5)
        early = not th.is_alive()
        ts._handler_table[MSG_GLOBAL_REQUEST] = orig
        orig(held[0])                     # the late REQUEST_FAILURE
        th.join(5)
        installed = tc._tcp_handler is not None
        accepted = False
        try:
            ch = ts.open_forwarded_tcpip_channel(("10.9.8.7", 51000), ("127.0.0.1", 4023))
            accepted = True
            ch.close()
        except paramiko.ChannelException:
            pass
        ctx.count(("live-rekey",), nontrivial=True, kind="live-rekey-while-pending")
        obs = {"request_port_forward_returned_before_the_reply": early, "result": res,
               "tcp_handler_installed": installed, "forwarded_tcpip_accepted": accepted}
        if early or "port" in res or installed:
            ctx.fail("stale-global-response-after-rekey",
                     "a re-key completing while request_port_forward was waiting made the client take the previous "
                     "global request's success for the answer: the refused forward looks granted", case=case,
                     observed=obs)
        if accepted:
            ctx.fail("client-accepted-unrequested-channel",
                     "client accepted a server-opened forwarded-tcpip channel although the server had refused the "
                     "port forward (stale reply read after a re-key)", case=case, observed=obs)
    finally:
        for t in (tc, ts):
            try:
                t.close()
            except Exception:
                pass


def drive_requests(ctx, cases, n_random):
    rng = ctx.rng
    names = list(REQ_NAMES)
    for _ in range(n_random):
        names.append(rand_name(rng, REQ_NAMES))
    import paramiko
    started = []

    class Handler(paramiko.SubsystemHandler):
        def start_subsystem(self, name, transport, channel):
            started.append(name)

    # (has_server, what it says, application registrations present on the transport)
    for has_server, srv_ok, registered in ((False, True, False), (False, False, False), (False, True, True),
                                           (True, True, False), (True, False, False)):
        srv = SpyServer(srv_ok) if has_server else None
        rig = Rig(server_mode=has_server, server_object=srv)
        if registered:
            # everything an application can register on a transport that a stock ServerInterface would consult
            for sub in SUBSYSTEMS:
                rig.t.set_subsystem_handler(sub, Handler)
            rig.t.add_server_key(_key())
        try:
            grid = [(k, "sftp") for k in names]
            if registered:
                grid += [("subsystem", sub) for sub in SUBSYSTEMS]
            for key, sub in grid:
                for want in (True, False):
                    chan = rig.new_channel()
                    rig.sent.clear()
                    del started[:]
                    case = {"request": key, "want_reply": want, "has_server": has_server, "server_says": srv_ok,
                            "subsystem": sub, "handlers_registered_on_transport": registered}
                    try:
                        chan._handle_request(request_payload(key, want, rng, sub))
                    except Exception as e:
                        ctx.fail("client-channel-request-raises" if not has_server else "channel-request-raises",
                                 "Channel._handle_request raised instead of refusing (no server object)"
                                 if not has_server else "Channel._handle_request raised",
                                 case=case, observed=repr(e))
                        continue
                    obs = []
                    for p, b in rig.sent:
                        obs += [p, int.from_bytes(b[:4], "big")]
                    ctx.count(("req", key, want, has_server, srv_ok, sub, registered), nontrivial=True,
                              kind="request-%s-%s" % ("server" if has_server else "client",
                                                      "named" if key in REQ_NAMES else "other"))
                    if not has_server:
                        if key not in NOTIFY and (99 in obs[0::2] or started):
                            ctx.fail("client-approved-channel-request",
                                     "a transport without a server object approved a channel request"
                                     + (" and started the subsystem handler registered on it" if started else ""),
                                     case=case, observed={"sent": obs, "handlers_started": list(started)})
                        if want and key not in NOTIFY and obs != [100, chan.remote_chanid]:
                            ctx.fail("client-channel-request-reply",
                                     "a refused channel request was not answered with CHANNEL_FAILURE for the "
                                     "remote channel id", case=case, observed=obs)
                        if not want and obs:
                            ctx.fail("channel-request-unwanted-reply", "reply sent although want_reply was false",
                                     case=case, observed=obs)
                    cases.append(((has_server, list(key.encode("utf-8")), want, srv_ok, chan.remote_chanid), obs, case))
        finally:
            rig.close()


def drive_globals(ctx, cases, n_random):
    rng = ctx.rng
    pool = list(GLOBAL_NAMES)
    names = list(pool) + [rand_name(rng, pool) for _ in range(n_random)]
    # every well-known name also as a prefix / family member (keepalive@<anything>, hostkeys-NN@..., ...)
    for base in pool:
        head = base.split("@")[0]
        names += [head + "@" + "".join(rng.choice("abcdefghijklmnopqrstuvwxyz.") for _ in range(rng.randrange(1, 12))),
                  head, base.split("-")[0] + "-" + "".join(rng.choice("0123456789abcdef") for _ in range(4))]
    # (server_mode, server object present, what it says)
    for server_mode, with_obj, srv_ok in ((False, False, True), (False, True, True), (False, True, False),
                                          (True, True, True), (True, True, False)):
        srv = SpyServer(srv_ok) if with_obj else None
        rig = Rig(server_mode=server_mode, server_object=srv)
        try:
            for kind in names:
                for want in (True, False):
                    rig.sent.clear()
                    if srv is not None:
                        srv.calls.clear()
                    case = {"global_request": kind, "want_reply": want, "server_mode": server_mode,
                            "server_object_present": with_obj, "server_says": srv_ok}
                    try:
                        rig.t._parse_global_request(msg(kind, want, "0.0.0.0", 8022))
                    except Exception as e:
                        ctx.fail("client-global-request-raises" if not server_mode else "global-request-raises",
                                 "Transport._parse_global_request raised instead of refusing", case=case,
                                 observed=repr(e))
                        continue
                    consulted = bool(srv is not None and srv.calls)
                    types = [p for p, _ in rig.sent]
                    ctx.count(("global", kind, want, server_mode, with_obj, srv_ok), nontrivial=True,
                              kind="global-%s" % ("server" if server_mode else "client"))
                    if not server_mode:
                        if 81 in types or consulted:
                            ctx.fail("client-approved-global-request",
                                     "a client-mode transport approved (or passed on) a global request from the server",
                                     case=case, observed={"sent": types, "server_object_consulted": consulted})
                        if types != ([82] if want else []):
                            ctx.fail("client-global-request-reply", "global request not answered with REQUEST_FAILURE "
                                     "exactly when a reply was wanted", case=case, observed=types)
                    obs = [1 if consulted else 0, types[0] if types else -1]
                    if len(types) > 1:
                        obs.append(len(types))
                    cases.append(((server_mode, list(kind.encode("utf-8")), want, srv_ok), obs, case))
        finally:
            rig.close()


def run(ctx):
    rng = ctx.rng
    ctx.rule = ("histories over 14 outcomes of the enable/cancel operations and of other requests (x11 "
                "granted/denied, agent, forward granted/denied x active/inactive, cancel active/inactive/refused by "
                "the server, other wait=True global request granted/denied, another channel request (get_pty) "
                "granted/refused; channel requests re-use the same channel while it is open, so every enabling "
                "request also follows an earlier success and an earlier refusal on the same object), each exhaustive history under two deterministic schedules "
                "(reply processed before the caller waits; reply processed by a second thread that is descheduled "
                "right after Event.set() so that the waiter runs first); in the handler state each history leaves, the "
                "three forwardable kinds plus 14 related / near-miss kinds (streamlocal, direct-*, agent and x11 "
                "variants) are offered and the well-known server global requests (cancel-tcpip-forward, tcpip-forward, "
                "keepalive@, hostkeys-, no-more-sessions@, streamlocal) are sent - full lists after short histories, "
                "rotating after longer ones - and must be refused without changing the handler state, plus forwards whose reply arrives only "
                "after a re-key has completed (real _parse_newkeys on the rig after 8 kinds of earlier replies; one "
                "end-to-end run on a real loopback pair with a server-initiated re-key and a withheld denial): exhaustive up to length 2 "
                "(quick) / 3 (thorough) plus seeded random ones up to length 10, each with default or custom "
                "handlers; after each history the three forwardable kinds, session, direct-tcpip and random / "
                "near-miss kinds are offered; all 10 named channel requests plus random names x want_reply x "
                "(no server | server yes | server no); global requests likewise.  Non-trivial = non-empty history "
                "or a forwardable kind / any request case")
    ctx.trusted += ["effect of request_x11 / request_forward_agent / request_port_forward / cancel_port_forward on the "
                    "handler attributes is hand-modelled (Model/C18.v `step`), validated here through the real methods",
                    "the server's answers to the client's own requests are simulated by the harness"]
    ctx.assumptions += ["messages are well-formed (valid UTF-8 names, complete fields); parsing failures are C38's subject"]
    ctx.prove()
    other = ["session", "direct-tcpip"]
    maxlen = 3 if ctx.thorough else 2
    hists = [()]
    for n in range(1, maxlen + 1):
        hists += list(itertools.product(ALPHABET, repeat=n))
    nexh = len(hists)
    # a re-key completes while a wait=True global request is pending: after every kind of earlier reply
    for prefix in ((), (3,), (3, 7), (9,), (10,), (0,), (4,), (9, 7)):
        for code in (11, 12):
            hists.append(prefix + (code,))
            if ctx.thorough:
                hists.append(prefix + (code, rng.choice(ALPHABET)))
    for _ in range(600 if ctx.thorough else 120):
        hists.append(tuple(rng.choice(ALPHABET) if rng.random() < 0.97 else rng.choice((11, 12))
                           for _ in range(rng.randrange(3, 11))))
    # ---- 1. implementation-level oracles (never depend on the translator / model) ----------
    cases = []
    gcases = []
    for i, h in enumerate(hists):
        custom = rng.random() < 0.5
        # every related / near-miss kind and every well-known global-request name in every handler state: the
        # full lists after the short histories, a rotating selection after the others
        full = len(h) <= 1 or (ctx.thorough and len(h) <= 2)
        kinds = list(KINDS_ENABLED) + (NEAR_KINDS if full else [NEAR_KINDS[(i + j) % len(NEAR_KINDS)] for j in (0, 5)]) \
            + [rand_name(rng, list(KINDS_ENABLED) + other)]
        gnames = (GLOBAL_NAMES if full else [GLOBAL_NAMES[(i + j) % len(GLOBAL_NAMES)] for j in (0, 4)]) \
            + [rand_name(rng, GLOBAL_NAMES)]
        # the exhaustive histories run under both schedules with all channel requests on the same channel (so
        # each follows an earlier success / refusal there); the random ones under a random schedule / re-use
        # (length-3 histories, thorough tier only, alternate between the two schedules to stay within budget)
        for schedule in (SCHEDULES if 0 < i < nexh and len(h) <= 2 else
                         [SCHEDULES[i % 2]] if 0 < i < nexh else [rng.choice(SCHEDULES)]):
            drive_open(ctx, h, custom, kinds, cases, schedule=schedule,
                       reuse=True if 0 < i < nexh else rng.random() < 0.5, globals_=gnames, gcases=gcases)
    # contrast: a server-mode transport with a server object accepts / rejects by the object's answer
    # (the three forwardable kinds are left out here: a server-mode transport whose server object approves
    # them calls the unset handler - TypeError - which is a server-side matter outside this property)
    for ok in (True, False):
        drive_open(ctx, (), False, other + ["weird", "x12"], cases, server=SpyServer(ok))
    live_rekey_scenario(ctx)
    rcases = []
    drive_requests(ctx, rcases, 120 if ctx.thorough else 30)
    drive_globals(ctx, gcases, 80 if ctx.thorough else 20)
    if cases:
        ctx.sample({"channel_open": {"case": cases[len(cases) // 2][2], "impl": cases[len(cases) // 2][1]}})
    if rcases:
        ctx.sample({"channel_request": {"case": rcases[min(5, len(rcases) - 1)][2],
                                        "impl": rcases[min(5, len(rcases) - 1)][1]}})
    if gcases:
        ctx.sample({"global_request": {"case": gcases[0][2], "impl": gcases[0][1]}})
    # ---- 2. correspondence with the model (guarded: a translator abort must not hide the oracles) ---
    model_compare(ctx, "run_open", "(bool * list Z * list Z * Z)", cases,
                  "channel-open decision / handler state differs from the model")
    model_compare(ctx, "run_request", "(bool * list Z * bool * bool * Z)", rcases,
                  "channel-request reply differs from the model")
    model_compare(ctx, "run_global", "(bool * list Z * bool * bool)", gcases,
                  "global-request reply differs from the model")


def model_compare(ctx, fn, typ, cases, what):
    if ctx.proof is None or not ctx.proof.model_ok or not cases:
        return
    # identical (input, observed) pairs are evaluated once (the model does not see history for requests)
    seen, uniq = set(), []
    for c in cases:
        k = (repr(c[0]), repr(c[1]))
        if k not in seen:
            seen.add(k)
            uniq.append(c)
    cases = uniq
    try:
        bad = ctx.model_mismatches(fn, typ, [(coq(c), o) for c, o, _ in cases], shard=400)
    except Exception as e:
        ctx.corr_broken.append({"what": "model %s could not be evaluated (translator / build broken)" % fn,
                                "error": str(e)[-600:]})
        return
    for i in bad[:3]:
        ctx.disagree(what, case=cases[i][2], impl=cases[i][1])


def replay(ctx, rep):
    case = rep["case"]
    if not isinstance(case, dict):
        return run(ctx)
    if case.get("scenario") == "live-rekey-while-forward-pending":
        live_rekey_scenario(ctx)
        live_rekey_scenario(ctx)
    elif "global_request" in case and "history" in case:
        hist = tuple(EVENT_NAMES.index(x) for x in case["history"])
        for _ in range(2):
            drive_open(ctx, hist, False, list(KINDS_ENABLED), [], schedule=case.get("schedule", "sync"),
                       reuse=bool(case.get("same_channel")), globals_=[case["global_request"]], gcases=[])
    elif "kind" in case and "history" in case:
        hist = tuple(EVENT_NAMES.index(x) for x in case["history"])
        for _ in range(2):
            drive_open(ctx, hist, bool(case.get("custom_handlers")), [case["kind"]], [],
                       schedule=case.get("schedule", "sync"), reuse=bool(case.get("same_channel")))
    else:
        run(ctx)
