(* C21 — lemmas.  The per-channel view of one step is abstracted into the relation [lstep]
   (what a step does to channel c's two buffers and flag, what the user read in that step, and
   what the step contributes to c's DATA / EXTENDED_DATA projections); the stream theorems are
   inductions over the history that only use [lstep]. *)
From Coq Require Import ZArith List Bool Lia ZifyBool.
From PV Require Import Bytes C21_gen C21.
Import ListNotations.
Open Scope Z_scope.

(* ---- Merge ------------------------------------------------------------------------ *)
Lemma Merge_app_l {A} (p a b l : list A) : Merge a b l -> Merge (p ++ a) b (p ++ l).
Proof. intros H. induction p as [|x p IH]; [exact H|]. cbn. now constructor. Qed.

Lemma Merge_app_r {A} (p a b l : list A) : Merge a b l -> Merge a (p ++ b) (p ++ l).
Proof. intros H. induction p as [|x p IH]; [exact H|]. cbn. now constructor. Qed.

Lemma Merge_nil_l {A} (l : list A) : Merge [] l l.
Proof. induction l; constructor; assumption. Qed.

Lemma Merge_nil_r {A} (l : list A) : Merge l [] l.
Proof. induction l; constructor; assumption. Qed.

Lemma Merge_inv_nil_r {A} (a l : list A) : Merge a [] l -> l = a.
Proof.
  intros H. remember [] as b eqn:Eb. induction H; try discriminate; [reflexivity|].
  f_equal. now apply IHMerge.
Qed.

Lemma Merge_inv_nil_l {A} (b l : list A) : Merge [] b l -> l = b.
Proof.
  intros H. remember [] as a eqn:Ea. induction H; try discriminate; [reflexivity|].
  f_equal. now apply IHMerge.
Qed.

Lemma Merge_length {A} (a b l : list A) : Merge a b l -> length l = (length a + length b)%nat.
Proof. induction 1; cbn; lia. Qed.

(* ---- events / streams ----------------------------------------------------------------- *)
Lemma reads_out_app c a b : reads_out c (a ++ b) = reads_out c a ++ reads_out c b.
Proof. unfold reads_out. apply flat_map_app. Qed.
Lemma reads_err_app c a b : reads_err c (a ++ b) = reads_err c a ++ reads_err c b.
Proof. unfold reads_err. apply flat_map_app. Qed.

Lemma OUT_cons c s o r :
  OUT c s (o :: r) = reads_out c (snd (step s o)) ++ OUT c (fst (step s o)) r.
Proof.
  unfold OUT, events, final. cbn [run]. destruct (step s o) as [s1 e1]. cbn [fst snd].
  destruct (run s1 r) as [s2 e2]. cbn [fst snd]. rewrite reads_out_app, <- app_assoc. reflexivity.
Qed.
Lemma ERR_cons c s o r :
  ERR c s (o :: r) = reads_err c (snd (step s o)) ++ ERR c (fst (step s o)) r.
Proof.
  unfold ERR, events, final. cbn [run]. destruct (step s o) as [s1 e1]. cbn [fst snd].
  destruct (run s1 r) as [s2 e2]. cbn [fst snd]. rewrite reads_err_app, <- app_assoc. reflexivity.
Qed.
Lemma final_cons c s o r : final s (o :: r) c = final (fst (step s o)) r c.
Proof.
  unfold final. cbn [run]. destruct (step s o) as [s1 e1]. cbn [fst snd]. destruct (run s1 r) as [s2 e2]. reflexivity.
Qed.

(* ---- contributions of one step to channel c's projections ------------------------------ *)
Definition data1 (c cid : Z) (m : msg) : list Z :=
  match m with Data s => if cid =? c then s else [] | _ => [] end.
Definition ext1 (c cid : Z) (m : msg) : list Z :=
  match m with ExtData code s => if (cid =? c) && (code =? 1) then s else [] | _ => [] end.
Definition stat1 (c cid : Z) (m : msg) : list Z :=
  match m with ExitStatus n => if cid =? c then [n] else [] | _ => [] end.

Lemma data_of_cons c cid m l : data_of c ((cid, m) :: l) = data1 c cid m ++ data_of c l.
Proof. reflexivity. Qed.
Lemma ext_of_cons c cid m l : ext_of c ((cid, m) :: l) = ext1 c cid m ++ ext_of c l.
Proof. reflexivity. Qed.
Lemma statuses_cons c cid m l : statuses c ((cid, m) :: l) = stat1 c cid m ++ statuses c l.
Proof. reflexivity. Qed.

Definition contrib (f : Z -> Z -> msg -> list Z) (c : Z) (k : ctl) (o : op) : list Z :=
  match o with
  | Msg cid m => if snd (dispatch k cid m) then f c cid m else []
  | _ => []
  end.

Lemma step_ctl k ch o :
  fst (fst (step (k, ch) o)) = match o with Msg cid m => fst (dispatch k cid m) | _ => k end.
Proof.
  destruct o as [cid m|c n|c n|c b|c|c]; cbn.
  - destruct (dispatch k cid m); reflexivity.
  - destruct (recv_out (ch c) n); reflexivity.
  - destruct (recv_err (ch c) n); reflexivity.
  - destruct (set_combine (ch c) b); reflexivity.
  - reflexivity.
  - reflexivity.
Qed.

Lemma spec_cons (P : Z -> list (Z * msg) -> list Z) (f : Z -> Z -> msg -> list Z) :
  (forall c cid m l, P c ((cid, m) :: l) = f c cid m ++ P c l) ->
  forall c k ch o r,
    P c (delivered k (msgs_of (o :: r))) =
    contrib f c k o ++ P c (delivered (fst (fst (step (k, ch) o))) (msgs_of r)).
Proof.
  intros HP c k ch o r. rewrite step_ctl.
  destruct o as [cid m|c0 n|c0 n|c0 b|c0|c0]; cbn [msgs_of delivered contrib]; try reflexivity.
  destruct (dispatch k cid m) as [k' d]. cbn [fst snd]. destruct d; [apply HP|reflexivity].
Qed.

(* ---- the local step relation ------------------------------------------------------------- *)
(* lstep before after read_out read_err data_contrib ext_contrib *)
Inductive lstep : chan -> chan -> list Z -> list Z -> list Z -> list Z -> Prop :=
  | L_same : forall ch ch', c_out ch' = c_out ch -> c_err ch' = c_err ch ->
      (c_comb ch' = true -> c_comb ch = true) -> lstep ch ch' [] [] [] []
  | L_data : forall ch ch' s, c_out ch' = c_out ch ++ s -> c_err ch' = c_err ch ->
      c_comb ch' = c_comb ch -> lstep ch ch' [] [] s []
  | L_ext_err : forall ch ch' s, c_comb ch = false -> c_out ch' = c_out ch ->
      c_err ch' = c_err ch ++ s -> c_comb ch' = false -> lstep ch ch' [] [] [] s
  | L_ext_out : forall ch ch' s, c_comb ch = true -> c_out ch' = c_out ch ++ s ->
      c_err ch' = c_err ch -> c_comb ch' = true -> lstep ch ch' [] [] [] s
  | L_recv : forall ch ch' ro, c_out ch = ro ++ c_out ch' -> c_err ch' = c_err ch ->
      c_comb ch' = c_comb ch -> lstep ch ch' ro [] [] []
  | L_recverr : forall ch ch' re, c_err ch = re ++ c_err ch' -> c_out ch' = c_out ch ->
      c_comb ch' = c_comb ch -> lstep ch ch' [] re [] []
  | L_comb_on : forall ch ch', c_comb ch = false -> c_comb ch' = true ->
      c_out ch' = c_out ch ++ c_err ch -> c_err ch' = [] -> lstep ch ch' [] [] [] [].

Lemma lstep_refl ch : lstep ch ch [] [] [] [].
Proof. apply L_same; auto. Qed.

Lemma pipe_read_split p n : fst (pipe_read p n) ++ snd (pipe_read p n) = p.
Proof. unfold pipe_read. cbn [fst snd]. apply firstn_skipn. Qed.

Lemma step_lstep c k ch o :
  lstep (ch c) (snd (fst (step (k, ch) o)) c)
        (reads_out c (snd (step (k, ch) o))) (reads_err c (snd (step (k, ch) o)))
        (contrib data1 c k o) (contrib ext1 c k o).
Proof.
  destruct o as [cid m|c0 n|c0 n|c0 b|c0|c0]; cbn [step contrib].
  - (* incoming message *)
    destruct (dispatch k cid m) as [k' d]. cbn [fst snd reads_out reads_err flat_map].
    destruct d; [|apply lstep_refl].
    unfold upd. destruct (c =? cid) eqn:E.
    + apply Z.eqb_eq in E. subst cid. unfold data1, ext1. rewrite Z.eqb_refl.
      destruct m as [s|code s|n| | | | | ]; cbn [handle andb];
        try (apply L_same; cbn; auto; fail).
      * apply L_data; reflexivity.
      * destruct (code =? 1); [|apply lstep_refl].
        destruct (c_comb (ch c)) eqn:Ec.
        -- apply L_ext_out; cbn; auto.
        -- apply L_ext_err; cbn; auto.
    + assert (E' : cid =? c = false) by (rewrite Z.eqb_sym; exact E).
      unfold data1, ext1. rewrite E'.
      destruct m; cbn [andb]; apply lstep_refl.
  - (* recv *)
    destruct (recv_out (ch c0) n) as [x r] eqn:Er. cbn [fst snd]. unfold upd.
    destruct (c =? c0) eqn:E.
    + apply Z.eqb_eq in E. subst c0. unfold recv_out in Er.
      destruct (c_out (ch c)) as [|y p] eqn:Eo.
      * injection Er as <- <-. destruct (c_pclosed (ch c)); cbn; try rewrite Z.eqb_refl; apply lstep_refl.
      * destruct (pipe_read (y :: p) n) as [a b0] eqn:Ep. injection Er as <- <-.
        cbn [reads_out reads_err flat_map]. rewrite Z.eqb_refl, app_nil_r.
        apply L_recv; cbn; auto.
        rewrite Eo. pose proof (pipe_read_split (y :: p) n) as Hs. rewrite Ep in Hs. cbn in Hs. rewrite ?app_nil_r. now rewrite Hs.
    + assert (E' : c0 =? c = false) by (rewrite Z.eqb_sym; exact E).
      destruct r; cbn [reads_out reads_err flat_map]; try rewrite E'; apply lstep_refl.
  - (* recv_stderr *)
    destruct (recv_err (ch c0) n) as [x r] eqn:Er. cbn [fst snd]. unfold upd.
    destruct (c =? c0) eqn:E.
    + apply Z.eqb_eq in E. subst c0. unfold recv_err in Er.
      destruct (c_err (ch c)) as [|y p] eqn:Eo.
      * injection Er as <- <-. destruct (c_pclosed (ch c)); cbn; try rewrite Z.eqb_refl; apply lstep_refl.
      * destruct (pipe_read (y :: p) n) as [a b0] eqn:Ep. injection Er as <- <-.
        cbn [reads_out reads_err flat_map]. rewrite Z.eqb_refl, app_nil_r.
        apply L_recverr; cbn; auto.
        rewrite Eo. pose proof (pipe_read_split (y :: p) n) as Hs. rewrite Ep in Hs. cbn in Hs. rewrite ?app_nil_r. now rewrite Hs.
    + assert (E' : c0 =? c = false) by (rewrite Z.eqb_sym; exact E).
      destruct r; cbn [reads_out reads_err flat_map]; try rewrite E'; apply lstep_refl.
  - (* set_combine_stderr *)
    destruct (set_combine (ch c0) b) as [x old] eqn:Es. cbn [fst snd reads_out reads_err flat_map].
    unfold upd. destruct (c =? c0) eqn:E; [|apply lstep_refl].
    apply Z.eqb_eq in E. subst c0. unfold set_combine in Es.
    destruct b; destruct (c_comb (ch c)) eqn:Ec; cbn in Es; injection Es as <- <-.
    + apply L_same; cbn; auto.
    + apply L_comb_on; cbn; auto.
    + apply L_same; cbn; auto; discriminate.
    + apply L_same; cbn; auto; discriminate.
  - (* poll exit status *)
    cbn [fst snd reads_out reads_err flat_map]. apply lstep_refl.
  - (* local close *)
    cbn [fst snd reads_out reads_err flat_map]. unfold upd.
    destruct (c =? c0) eqn:E; [|apply lstep_refl].
    apply Z.eqb_eq in E. subst c0. apply L_same; cbn; auto.
Qed.

(* ---- gluing one local step in front of a history ----------------------------------------- *)
Definition comb_inv (ch : chan) : Prop := c_comb ch = true -> c_err ch = [].

Lemma glue_merge ch ch1 ro re dC eC OUT1 ERR1 D1 E1 :
  lstep ch ch1 ro re dC eC -> comb_inv ch ->
  (comb_inv ch1 -> exists zo eo, OUT1 = c_out ch1 ++ zo /\ Merge D1 eo zo /\
                                 Merge eo ERR1 (c_err ch1 ++ E1)) ->
  exists zo eo, ro ++ OUT1 = c_out ch ++ zo /\ Merge (dC ++ D1) eo zo /\
                Merge eo (re ++ ERR1) (c_err ch ++ eC ++ E1).
Proof.
  intros L I IH. unfold comb_inv in *.
  destruct L as [ch ch1 Ho He Hc|ch ch1 s Ho He Hc|ch ch1 s Hc0 Ho He Hc|ch ch1 s Hc0 Ho He Hc
                 |ch ch1 ro Ho He Hc|ch ch1 re He Ho Hc|ch ch1 Hc0 Hc Ho He]; cbn [app].
  - destruct IH as (zo & eo & H1 & H2 & H3); [rewrite He; auto|].
    exists zo, eo. rewrite <- Ho, <- He. auto.
  - destruct IH as (zo & eo & H1 & H2 & H3); [rewrite He, Hc; auto|].
    exists (s ++ zo), eo. rewrite H1, Ho, <- app_assoc, <- He. repeat split; auto.
    now apply Merge_app_l.
  - destruct IH as (zo & eo & H1 & H2 & H3); [rewrite Hc; discriminate|].
    exists zo, eo. rewrite H1, Ho. repeat split; auto.
    rewrite He, <- app_assoc in H3. exact H3.
  - destruct IH as (zo & eo & H1 & H2 & H3); [rewrite He; auto|].
    specialize (I Hc0). rewrite He, I in H3. cbn in H3.
    exists (s ++ zo), (s ++ eo). rewrite H1, Ho, <- app_assoc, I. cbn. repeat split.
    + now apply Merge_app_r.
    + now apply Merge_app_l.
  - destruct IH as (zo & eo & H1 & H2 & H3); [rewrite He, Hc; auto|].
    exists zo, eo. rewrite H1, Ho, <- app_assoc, <- He. auto.
  - destruct IH as (zo & eo & H1 & H2 & H3).
    { rewrite Hc. intros Hc'. specialize (I Hc'). rewrite I in He.
      symmetry in He. apply app_eq_nil in He. tauto. }
    exists zo, eo. rewrite H1, Ho. repeat split; auto.
    rewrite He, <- app_assoc. now apply Merge_app_r.
  - destruct IH as (zo & eo & H1 & H2 & H3); [auto|].
    rewrite He in H3. cbn in H3.
    exists (c_err ch ++ zo), (c_err ch ++ eo). rewrite H1, Ho, <- app_assoc. repeat split.
    + now apply Merge_app_r.
    + now apply Merge_app_l.
Qed.

Lemma lstep_inv ch ch1 ro re dC eC : lstep ch ch1 ro re dC eC -> comb_inv ch -> comb_inv ch1.
Proof.
  unfold comb_inv. intros L I.
  destruct L as [ch ch1 Ho He Hc|ch ch1 s Ho He Hc|ch ch1 s Hc0 Ho He Hc|ch ch1 s Hc0 Ho He Hc
                 |ch ch1 ro Ho He Hc|ch ch1 re He Ho Hc|ch ch1 Hc0 Hc Ho He]; intros H.
  - rewrite He. auto.
  - rewrite He. rewrite Hc in H. auto.
  - rewrite Hc in H. discriminate.
  - rewrite He. auto.
  - rewrite He. rewrite Hc in H. auto.
  - rewrite Hc in H. specialize (I H). rewrite I in He. symmetry in He.
    apply app_eq_nil in He. tauto.
  - exact He.
Qed.

(* ---- general stream theorem: any history, any toggling of combine ------------------------ *)
Lemma merge_main : forall ops k ch c,
  comb_inv (ch c) ->
  exists zo eo,
    OUT c (k, ch) ops = c_out (ch c) ++ zo /\
    Merge (data_of c (delivered k (msgs_of ops))) eo zo /\
    Merge eo (ERR c (k, ch) ops) (c_err (ch c) ++ ext_of c (delivered k (msgs_of ops))).
Proof.
  induction ops as [|o r IH]; intros k ch c I.
  - exists [], []. unfold OUT, ERR, events, final. cbn. rewrite !app_nil_r. repeat split.
    + constructor.
    + apply Merge_nil_l.
  - rewrite OUT_cons, ERR_cons.
    rewrite (spec_cons data_of data1 data_of_cons c k ch o r).
    rewrite (spec_cons ext_of ext1 ext_of_cons c k ch o r).
    pose proof (step_lstep c k ch o) as L.
    destruct (step (k, ch) o) as [[k1 ch1] e1]. cbn [fst snd] in *.
    eapply glue_merge; [exact L|exact I|].
    intros I1. apply IH. exact I1.
Qed.

(* the invariant "combining on => stderr buffer empty" holds along every history *)
Lemma inv_main : forall ops k ch c, comb_inv (ch c) -> comb_inv (final (k, ch) ops c).
Proof.
  induction ops as [|o r IH]; intros k ch c I; [exact I|].
  rewrite final_cons. pose proof (step_lstep c k ch o) as L.
  destruct (step (k, ch) o) as [[k1 ch1] e1]. cbn [fst snd] in *.
  apply IH. eapply lstep_inv; eauto.
Qed.

(* ---- without combining: each stream is exactly its projection ----------------------------- *)
Lemma glue_plain ch ch1 ro re dC eC OUT1 ERR1 D1 E1 :
  lstep ch ch1 ro re dC eC -> c_comb ch = false -> c_comb ch1 = false ->
  OUT1 = c_out ch1 ++ D1 -> ERR1 = c_err ch1 ++ E1 ->
  ro ++ OUT1 = c_out ch ++ dC ++ D1 /\ re ++ ERR1 = c_err ch ++ eC ++ E1.
Proof.
  intros L C0 C1 -> ->.
  destruct L as [ch ch1 Ho He Hc|ch ch1 s Ho He Hc|ch ch1 s Hc0 Ho He Hc|ch ch1 s Hc0 Ho He Hc
                 |ch ch1 ro Ho He Hc|ch ch1 re He Ho Hc|ch ch1 Hc0 Hc Ho He]; cbn [app];
    try congruence.
  - rewrite Ho, He. auto.
  - rewrite Ho, He, <- app_assoc. auto.
  - rewrite Ho, He, <- app_assoc. auto.
  - rewrite Ho, He, <- app_assoc. auto.
  - rewrite Ho, He, <- app_assoc. auto.
Qed.

Lemma step_comb_false c k ch o :
  c_comb (ch c) = false -> (forall b, o = SetCombine c b -> b = false) ->
  c_comb (snd (fst (step (k, ch) o)) c) = false.
Proof.
  intros C N. destruct o as [cid m|c0 n|c0 n|c0 b|c0|c0]; cbn [step].
  - destruct (dispatch k cid m) as [k' d]. cbn [fst snd]. destruct d; [|exact C].
    unfold upd. destruct (c =? cid) eqn:E; [|exact C].
    apply Z.eqb_eq in E. subst cid.
    destruct m as [s|code s|n| | | | | ]; cbn [handle c_comb]; try exact C.
    destruct (code =? 1); [|exact C]. rewrite C. reflexivity.
  - destruct (recv_out (ch c0) n) as [x r] eqn:Er. cbn [fst snd]. unfold upd.
    destruct (c =? c0) eqn:E; [|exact C]. apply Z.eqb_eq in E. subst c0. unfold recv_out in Er.
    destruct (c_out (ch c)); [injection Er as <- <-; exact C|].
    destruct (pipe_read (z :: l) n). injection Er as <- <-. exact C.
  - destruct (recv_err (ch c0) n) as [x r] eqn:Er. cbn [fst snd]. unfold upd.
    destruct (c =? c0) eqn:E; [|exact C]. apply Z.eqb_eq in E. subst c0. unfold recv_err in Er.
    destruct (c_err (ch c)); [injection Er as <- <-; exact C|].
    destruct (pipe_read (z :: l) n). injection Er as <- <-. exact C.
  - destruct (set_combine (ch c0) b) as [x old] eqn:Es. cbn [fst snd].
    unfold upd. destruct (c =? c0) eqn:E; [|exact C].
    apply Z.eqb_eq in E. subst c0. rewrite (N b eq_refl) in Es. unfold set_combine in Es.
    cbn in Es. injection Es as <- <-. reflexivity.
  - exact C.
  - cbn [fst snd]. unfold upd. destruct (c =? c0) eqn:E; [|exact C].
    apply Z.eqb_eq in E. subst c0. exact C.
Qed.

Lemma plain_main : forall ops k ch c,
  c_comb (ch c) = false -> never_combined c ops ->
  OUT c (k, ch) ops = c_out (ch c) ++ data_of c (delivered k (msgs_of ops)) /\
  ERR c (k, ch) ops = c_err (ch c) ++ ext_of c (delivered k (msgs_of ops)).
Proof.
  induction ops as [|o r IH]; intros k ch c C N.
  - unfold OUT, ERR, events, final. cbn. rewrite !app_nil_r. auto.
  - rewrite OUT_cons, ERR_cons.
    rewrite (spec_cons data_of data1 data_of_cons c k ch o r).
    rewrite (spec_cons ext_of ext1 ext_of_cons c k ch o r).
    pose proof (step_lstep c k ch o) as L.
    assert (C1 : c_comb (snd (fst (step (k, ch) o)) c) = false).
    { apply step_comb_false; [exact C|]. intros b ->. apply (N c b); [left; reflexivity|reflexivity]. }
    destruct (step (k, ch) o) as [[k1 ch1] e1]. cbn [fst snd] in *.
    assert (N1 : never_combined c r).
    { intros c' b Hin. apply N. right. exact Hin. }
    destruct (IH k1 ch1 c C1 N1) as [H1 H2].
    eapply glue_plain; eauto.
Qed.

(* ---- dispatch ------------------------------------------------------------------------------ *)
Lemma delivered_all k l : well_addressed k l -> delivered k l = l.
Proof.
  intros [Ha Hl]. induction l as [|[cid m] r IH]; [reflexivity|].
  cbn [delivered]. destruct (Hl cid m (or_introl eq_refl)) as [Hreg Hm].
  unfold dispatch. rewrite Ha, Hreg. cbn [negb].
  assert (Hc : is_close m = false) by (destruct m; try reflexivity; congruence).
  rewrite Hc. f_equal. apply IH. intros cid' m' Hin. apply Hl. right. exact Hin.
Qed.

Lemma delivered_inactive k l : k_active k = false -> delivered k l = [].
Proof.
  revert k. induction l as [|[cid m] r IH]; intros k Hk; [reflexivity|].
  cbn [delivered]. unfold dispatch. rewrite Hk. cbn [negb]. apply IH. exact Hk.
Qed.

Lemma memz_removez x y l : memz x (removez y l) = true -> memz x l = true.
Proof.
  unfold memz, removez. rewrite !existsb_exists. intros (z & Hin & Hz).
  apply filter_In in Hin. exists z. tauto.
Qed.

(* a message is only ever handed to a channel whose id is registered (registrations only shrink) *)
Lemma delivered_registered : forall l k cid m,
  In (cid, m) (delivered k l) -> k_active k = true /\ memz cid (k_reg k) = true.
Proof.
  induction l as [|[cid0 m0] r IH]; intros k cid m Hin; [destruct Hin|].
  cbn [delivered] in Hin. unfold dispatch in Hin.
  destruct (k_active k) eqn:Ha; cbn [negb] in Hin.
  - destruct (memz cid0 (k_reg k)) eqn:Hreg.
    + destruct Hin as [Heq|Hin].
      * injection Heq as <- <-. auto.
      * apply IH in Hin. destruct Hin as [_ Hin]. split; [reflexivity|].
        destruct (is_close m0); cbn in Hin; [eapply memz_removez; eauto|exact Hin].
    + destruct (memz cid0 (k_seen k)).
      * apply IH in Hin. destruct Hin as [_ Hin]. auto.
      * rewrite delivered_inactive in Hin by reflexivity. destruct Hin.
  - rewrite delivered_inactive in Hin by exact Ha. destruct Hin.
Qed.

Lemma unknown_step k ch cid m :
  memz cid (k_reg k) = false ->
  snd (fst (step (k, ch) (Msg cid m))) = ch /\ snd (step (k, ch) (Msg cid m)) = [] /\
  (memz cid (k_seen k) = false -> k_active (fst (fst (step (k, ch) (Msg cid m)))) = false).
Proof.
  intros Hreg. cbn [step]. unfold dispatch. rewrite Hreg.
  destruct (k_active k) eqn:Ha; cbn [negb fst snd].
  - destruct (memz cid (k_seen k)); cbn [fst snd]; repeat split; auto; discriminate.
  - repeat split; auto.
Qed.

Lemma projections_unregistered c k l :
  memz c (k_reg k) = false ->
  data_of c (delivered k l) = [] /\ ext_of c (delivered k l) = [] /\ statuses c (delivered k l) = [].
Proof.
  intros Hreg.
  assert (H : forall m, ~ In (c, m) (delivered k l)).
  { intros m Hin. apply delivered_registered in Hin. destruct Hin as [_ Hin]. congruence. }
  revert H. generalize (delivered k l) as d. induction d as [|[cid m] d IH]; intros H; [auto|].
  rewrite data_of_cons, ext_of_cons, statuses_cons.
  destruct IH as (I1 & I2 & I3); [intros m' Hin; apply (H m'); right; exact Hin|].
  rewrite I1, I2, I3, !app_nil_r.
  destruct (cid =? c) eqn:E.
  - apply Z.eqb_eq in E. subst cid. exfalso. apply (H m). left. reflexivity.
  - unfold data1, ext1, stat1. rewrite E. destruct m; auto.
Qed.

(* ---- exit status --------------------------------------------------------------------------- *)
Lemma last_cons {A} (l : list A) x d : last (x :: l) d = last l x.
Proof.
  revert x d. induction l as [|y l IH]; intros x d; [reflexivity|].
  change (last (x :: y :: l) d) with (last (y :: l) d). rewrite (IH y d), (IH y x). reflexivity.
Qed.

Lemma last_app_default {A} (a b : list A) d : last (a ++ b) d = last b (last a d).
Proof.
  revert d. induction a as [|x a IH]; intros d; [reflexivity|].
  change ((x :: a) ++ b) with (x :: (a ++ b)). rewrite !last_cons. apply IH.
Qed.

Ltac fin := cbn; split; [reflexivity | let H := fresh in intros [H|H]; auto; congruence].

Lemma step_exit c k ch o :
  let ch1 := snd (fst (step (k, ch) o)) c in
  c_exit ch1 = last (contrib stat1 c k o) (c_exit (ch c)) /\
  (c_status (ch c) = true \/ contrib stat1 c k o <> [] -> c_status ch1 = true).
Proof.
  cbv zeta. destruct o as [cid m|c0 n|c0 n|c0 b|c0|c0]; cbn [step contrib].
  - destruct (dispatch k cid m) as [k' d]. cbn [fst snd]. destruct d.
    + unfold upd. destruct (c =? cid) eqn:E.
      * apply Z.eqb_eq in E. subst cid. unfold stat1. rewrite Z.eqb_refl.
        destruct m as [s|code s|n| | | | | ]; try fin; cbn [handle]; destruct (code =? 1); [destruct (c_comb (ch c))|]; fin.
      * assert (E' : cid =? c = false) by (rewrite Z.eqb_sym; exact E).
        unfold stat1. rewrite E'. destruct m; fin.
    + fin.
  - destruct (recv_out (ch c0) n) as [x r] eqn:Er. cbn [fst snd]. unfold upd.
    destruct (c =? c0) eqn:E; [|fin].
    apply Z.eqb_eq in E. subst c0. unfold recv_out in Er.
    destruct (c_out (ch c)); [injection Er as <- <-|destruct (pipe_read (z :: l) n); injection Er as <- <-];
      fin.
  - destruct (recv_err (ch c0) n) as [x r] eqn:Er. cbn [fst snd]. unfold upd.
    destruct (c =? c0) eqn:E; [|fin].
    apply Z.eqb_eq in E. subst c0. unfold recv_err in Er.
    destruct (c_err (ch c)); [injection Er as <- <-|destruct (pipe_read (z :: l) n); injection Er as <- <-];
      fin.
  - destruct (set_combine (ch c0) b) as [x old] eqn:Es. cbn [fst snd]. unfold upd.
    destruct (c =? c0) eqn:E; [|fin].
    apply Z.eqb_eq in E. subst c0. unfold set_combine in Es.
    destruct (b && negb (c_comb (ch c))); injection Es as <- <-;
      fin.
  - fin.
  - cbn [fst snd]. unfold upd. destruct (c =? c0) eqn:E; [|fin].
    apply Z.eqb_eq in E. subst c0. cbn. split; [reflexivity|auto].
Qed.

Lemma exit_main : forall ops k ch c,
  c_exit (final (k, ch) ops c) = last (statuses c (delivered k (msgs_of ops))) (c_exit (ch c)) /\
  (c_status (ch c) = true \/ statuses c (delivered k (msgs_of ops)) <> [] ->
   c_status (final (k, ch) ops c) = true).
Proof.
  induction ops as [|o r IH]; intros k ch c.
  - unfold final. cbn. split; auto. intros [H|H]; auto; congruence.
  - rewrite final_cons.
    rewrite (spec_cons statuses stat1 statuses_cons c k ch o r).
    pose proof (step_exit c k ch o) as [X1 X2].
    destruct (step (k, ch) o) as [[k1 ch1] e1]. cbn [fst snd] in *.
    destruct (IH k1 ch1 c) as [I1 I2]. split.
    + rewrite I1, X1, last_app_default. reflexivity.
    + intros H. apply I2.
      destruct (contrib stat1 c k o) eqn:Ec.
      * cbn in H. destruct H as [H|H]; auto.
      * left. apply X2. right. discriminate.
Qed.

(* ---- sender --------------------------------------------------------------------------------- *)
Lemma sendall_concat : forall grants s,
  concat (fst (sendall grants s)) ++ snd (sendall grants s) = s.
Proof.
  induction grants as [|g gs IH]; intros s.
  - destruct s; reflexivity.
  - destruct s as [|x s]; [reflexivity|]. destruct g as [|g]; [reflexivity|].
    cbn [sendall]. specialize (IH (skipn (S g) (x :: s))).
    destruct (sendall gs (skipn (S g) (x :: s))) as [l rest]. cbn [fst snd concat] in *.
    rewrite <- app_assoc, IH. apply firstn_skipn.
Qed.

Lemma data_of_own c l : data_of c (map (fun p => (c, Data p)) l) = concat l.
Proof.
  induction l as [|p l IH]; [reflexivity|]. cbn [map]. rewrite data_of_cons, IH.
  unfold data1. rewrite Z.eqb_refl. reflexivity.
Qed.

(* ---- the unrepaired code at its real granularity ---------------------------------------------- *)
Lemma micro_inverts a b :
  m_out (mrun (mkM [] a false false false []) (mmerge [false; false; true; true] (prog_T b) prog_U)) = b ++ a.
Proof. reflexivity. Qed.

Lemma micro_strands a b :
  let s := mrun (mkM [] a false false false []) (mmerge [true; false; false; false] (prog_T b) prog_U) in
  m_comb s = true /\ m_err s = b /\ m_out s = a.
Proof. cbn. auto. Qed.

Lemma micro_atomic a b :
  let s0 := mkM [] a false false false [] in
  let s1 := mrun s0 (prog_T b ++ prog_U) in
  let s2 := mrun s0 (prog_U ++ prog_T b) in
  (m_out s1 = a ++ b /\ m_err s1 = [] /\ m_comb s1 = true) /\
  (m_out s2 = a ++ b /\ m_err s2 = [] /\ m_comb s2 = true).
Proof. cbn. rewrite ?app_nil_r. auto. Qed.

(* ---- final forms ----------------------------------------------------------------------------- *)
Lemma events_cons s o r : events s (o :: r) = snd (step s o) ++ events (fst (step s o)) r.
Proof.
  unfold events. cbn [run]. destruct (step s o) as [s1 e1]. cbn [fst snd].
  destruct (run s1 r) as [s2 e2]. reflexivity.
Qed.

Lemma reads_err_none : forall ops s c, no_recv_err c ops -> reads_err c (events s ops) = [].
Proof.
  induction ops as [|o r IH]; intros [k ch] c N; [reflexivity|].
  rewrite events_cons, reads_err_app, IH by (intros c' n Hin; apply (N c' n); right; exact Hin).
  rewrite app_nil_r.
  destruct o as [cid m|c0 n|c0 n|c0 b|c0|c0]; cbn [step].
  - destruct (dispatch k cid m); reflexivity.
  - destruct (recv_out (ch c0) n) as [x [a|]]; reflexivity.
  - assert (E : c0 =? c = false) by (apply Z.eqb_neq; apply (N c0 n); left; reflexivity).
    destruct (recv_err (ch c0) n) as [x [a|]]; cbn; rewrite ?E; reflexivity.
  - destruct (set_combine (ch c0) b); reflexivity.
  - reflexivity.
  - reflexivity.
Qed.

Lemma thm_stdout_general k ch ops c :
  c_comb (ch c) = false -> never_combined c ops ->
  OUT c (k, ch) ops = c_out (ch c) ++ data_of c (delivered k (msgs_of ops)).
Proof. intros C N. exact (proj1 (plain_main ops k ch c C N)). Qed.

Lemma thm_stderr_general k ch ops c :
  c_comb (ch c) = false -> never_combined c ops ->
  ERR c (k, ch) ops = c_err (ch c) ++ ext_of c (delivered k (msgs_of ops)).
Proof. intros C N. exact (proj2 (plain_main ops k ch c C N)). Qed.

Lemma thm_stdout k ch ops c :
  well_addressed k (msgs_of ops) -> c_comb (ch c) = false -> never_combined c ops ->
  OUT c (k, ch) ops = c_out (ch c) ++ data_of c (msgs_of ops).
Proof. intros W C N. rewrite thm_stdout_general, delivered_all; auto. Qed.

Lemma thm_stderr k ch ops c :
  well_addressed k (msgs_of ops) -> c_comb (ch c) = false -> never_combined c ops ->
  ERR c (k, ch) ops = c_err (ch c) ++ ext_of c (msgs_of ops).
Proof. intros W C N. rewrite thm_stderr_general, delivered_all; auto. Qed.

Lemma thm_combine_merge k ch ops c :
  (c_comb (ch c) = true -> c_err (ch c) = []) ->
  exists zo eo,
    OUT c (k, ch) ops = c_out (ch c) ++ zo /\
    Merge (data_of c (delivered k (msgs_of ops))) eo zo /\
    Merge eo (ERR c (k, ch) ops) (c_err (ch c) ++ ext_of c (delivered k (msgs_of ops))).
Proof. apply merge_main. Qed.

Lemma thm_combine k ch ops c :
  (c_comb (ch c) = true -> c_err (ch c) = []) ->
  c_comb (final (k, ch) ops c) = true -> no_recv_err c ops ->
  c_err (final (k, ch) ops c) = [] /\
  exists zo,
    OUT c (k, ch) ops = c_out (ch c) ++ zo /\
    Merge (data_of c (delivered k (msgs_of ops)))
          (c_err (ch c) ++ ext_of c (delivered k (msgs_of ops))) zo.
Proof.
  intros I F N.
  assert (Hf : c_err (final (k, ch) ops c) = []) by (apply (inv_main ops k ch c I); exact F).
  split; [exact Hf|].
  destruct (merge_main ops k ch c I) as (zo & eo & H1 & H2 & H3).
  unfold ERR in H3. rewrite reads_err_none, Hf in H3 by exact N. cbn in H3.
  apply Merge_inv_nil_r in H3. subst eo. exists zo. auto.
Qed.

Lemma thm_combine_invariant k ch ops c :
  (c_comb (ch c) = true -> c_err (ch c) = []) ->
  c_comb (final (k, ch) ops c) = true -> c_err (final (k, ch) ops c) = [].
Proof. intros I. exact (inv_main ops k ch c I). Qed.

Lemma thm_combine_switch k ch c :
  c_comb (ch c) = false ->
  let ch1 := snd (fst (step (k, ch) (SetCombine c true))) c in
  c_out ch1 = c_out (ch c) ++ c_err (ch c) /\ c_err ch1 = [] /\ c_comb ch1 = true /\
  forall c', c' <> c -> snd (fst (step (k, ch) (SetCombine c true))) c' = ch c'.
Proof.
  intros C. cbn [step]. unfold set_combine. rewrite C. cbn [andb negb fst snd].
  unfold upd. rewrite Z.eqb_refl. cbn. repeat split; auto.
  intros c' Hne. apply Z.eqb_neq in Hne. rewrite Hne. reflexivity.
Qed.

Lemma thm_exit_status k ch ops c :
  statuses c (delivered k (msgs_of ops)) <> [] ->
  exit_ready (final (k, ch) ops c) = true /\
  c_exit (final (k, ch) ops c) = last (statuses c (delivered k (msgs_of ops))) (c_exit (ch c)).
Proof.
  intros H. destruct (exit_main ops k ch c) as [E1 E2]. split; [|exact E1].
  unfold exit_ready. rewrite E2 by (right; exact H). apply orb_true_r.
Qed.

Lemma thm_exit_status_one k ch ops c n :
  well_addressed k (msgs_of ops) -> statuses c (msgs_of ops) = [n] ->
  exit_ready (final (k, ch) ops c) = true /\ c_exit (final (k, ch) ops c) = n.
Proof.
  intros W H. rewrite <- (delivered_all k _ W) in H.
  destruct (thm_exit_status k ch ops c) as [E1 E2]; [rewrite H; discriminate|].
  split; [exact E1|]. rewrite E2, H. reflexivity.
Qed.

Lemma thm_unknown_channel k ch cid m :
  memz cid (k_reg k) = false ->
  (forall c, snd (fst (step (k, ch) (Msg cid m))) c = ch c) /\
  snd (step (k, ch) (Msg cid m)) = [] /\
  (memz cid (k_seen k) = false -> k_active (fst (fst (step (k, ch) (Msg cid m)))) = false).
Proof.
  intros H. destruct (unknown_step k ch cid m H) as (H1 & H2 & H3).
  repeat split; auto. intros c. rewrite H1. reflexivity.
Qed.

Lemma thm_unknown_never k l cid :
  memz cid (k_reg k) = false ->
  (forall m, ~ In (cid, m) (delivered k l)) /\
  data_of cid (delivered k l) = [] /\ ext_of cid (delivered k l) = [] /\
  statuses cid (delivered k l) = [].
Proof.
  intros H. split; [|apply projections_unregistered; exact H].
  intros m Hin. apply delivered_registered in Hin. destruct Hin as [_ Hin]. congruence.
Qed.

Lemma thm_stopped k l : k_active k = false -> delivered k l = [].
Proof. apply delivered_inactive. Qed.

Lemma thm_sender grants s c :
  let l := fst (sendall grants s) in
  let rest := snd (sendall grants s) in
  concat l ++ rest = s /\ data_of c (map (fun p => (c, Data p)) l) = concat l.
Proof. cbv zeta. split; [apply sendall_concat|apply data_of_own]. Qed.

(* ---- exit status at statement granularity ----------------------------------------------------- *)
Ltac merge_cases :=
  repeat match goal with
         | H : Merge _ _ _ |- _ => inversion H; clear H; subst
         end.

Lemma exit_concurrent old n l s' :
  Merge (prog_handler n) prog_reader l -> xrun (xinit old) l = Some s' -> x_result s' = Some n.
Proof.
  unfold prog_handler, prog_reader. intros M R. merge_cases; cbn in R; try discriminate;
    injection R as <-; reflexivity.
Qed.

Lemma exit_swapped_races old n :
  exists l s', Merge (prog_handler_swapped n) prog_reader l /\
               xrun (xinit old) l = Some s' /\ x_result s' = Some old.
Proof.
  exists [XSet; RWait; RRead; XStore n]. eexists. split; [|split; [reflexivity|reflexivity]].
  unfold prog_handler_swapped, prog_reader. repeat constructor.
Qed.

Lemma exit_handler_atomic e st r n : xrun (mkX e st r) (prog_handler n) = Some (mkX n true r).
Proof. reflexivity. Qed.

Lemma exit_reader_blocks_until_set old : xrun (xinit old) prog_reader = None.
Proof. reflexivity. Qed.

(* ---- sender with the window ---------------------------------------------------------------------- *)
Lemma send_size_bounds len w p :
  let '(size, w') := send_size len w p in size <= len /\ size <= w /\ w' = w - size.
Proof.
  unfold send_size. destruct (w <? len) eqn:E1; destruct (p - 64 <? _) eqn:E2; lia.
Qed.

Lemma sendall_win_ok : forall fuel w p s,
  let '(l, rest, wf) := sendall_win fuel w p s in
  concat l ++ rest = s /\ w - wf = Z.of_nat (length (concat l)).
Proof.
  induction fuel as [|f IH]; intros w p s; cbn [sendall_win].
  - cbn. split; [reflexivity|lia].
  - destruct s as [|x s]; [cbn; split; [reflexivity|lia]|].
    destruct (w <=? 0) eqn:Ew; [cbn; split; [reflexivity|lia]|].
    pose proof (send_size_bounds (Z.of_nat (length (x :: s))) w p) as B.
    destruct (send_size (Z.of_nat (length (x :: s))) w p) as [size w'].
    destruct B as (B1 & B2 & B3).
    destruct (size <=? 0) eqn:Es; [cbn; split; [reflexivity|lia]|].
    specialize (IH w' p (skipn (Z.to_nat size) (x :: s))).
    destruct (sendall_win f w' p (skipn (Z.to_nat size) (x :: s))) as [[l rest] wf].
    destruct IH as [I1 I2]. cbn [concat]. split.
    + rewrite <- app_assoc, I1. apply firstn_skipn.
    + rewrite app_length, firstn_length, Nat2Z.inj_add, <- I2.
      rewrite Nat.min_l by lia. lia.
Qed.

Lemma thm_sender_window w p s :
  let r := sendall_win (S (length s)) w p s in
  concat (fst (fst r)) ++ snd (fst r) = s /\
  w - snd r = Z.of_nat (length (concat (fst (fst r)))).
Proof.
  cbv zeta. pose proof (sendall_win_ok (S (length s)) w p s) as H.
  destruct (sendall_win (S (length s)) w p s) as [[l rest] wf]. exact H.
Qed.

(* ---- the constants the model writes out are the ones in the source (Gen/C21_gen.v) -------------- *)
Lemma gen_dispatch : forall m : msg, In (msg_ptype m, handler_code m) gen_handler_table.
Proof. intros m. destruct m; vm_compute; tauto. Qed.

Lemma gen_table_functional : NoDup (map fst gen_handler_table).
Proof. repeat constructor; cbn; intuition discriminate. Qed.

Lemma gen_constants :
  gen_stderr_code = stderr_code /\ gen_packet_overhead = packet_overhead /\
  gen_initial_exit_status = c_exit chan0 /\ gen_initial_combine = c_comb chan0 /\
  gen_shapes_pinned = true /\
  (forall ch code s, code <> gen_stderr_code -> handle ch (ExtData code s) = ch) /\
  (forall c cid code s l, code <> gen_stderr_code ->
     ext_of c ((cid, ExtData code s) :: l) = ext_of c l) /\
  (forall len w p, 0 <= len <= w -> fst (send_size len w p) = Z.min len (p - gen_packet_overhead)).
Proof.
  repeat split; try reflexivity.
  - intros ch code s H. change gen_stderr_code with 1 in H. cbn [handle].
    destruct (code =? 1) eqn:E; [apply Z.eqb_eq in E; contradiction|reflexivity].
  - intros c cid code s l H. change gen_stderr_code with 1 in H. rewrite ext_of_cons. unfold ext1.
    destruct (code =? 1) eqn:E; [apply Z.eqb_eq in E; contradiction|].
    rewrite andb_false_r. reflexivity.
  - intros len w p H. change gen_packet_overhead with 64. unfold send_size. cbn [fst].
    destruct (w <? len) eqn:E1; destruct (p - 64 <? _) eqn:E2; lia.
Qed.

(* lifetime: a local close() leaves the channel registered, so a status that crosses it is still reported *)
Lemma thm_exit_after_local_close k ch c n :
  k_active k = true -> memz c (k_reg k) = true ->
  exit_ready (final (k, ch) [LocalClose c; Msg c (ExitStatus n)] c) = true /\
  c_exit (final (k, ch) [LocalClose c; Msg c (ExitStatus n)] c) = n.
Proof.
  intros Ha Hr.
  assert (S : statuses c (delivered k (msgs_of [LocalClose c; Msg c (ExitStatus n)])) = [n]).
  { cbn [msgs_of delivered]. unfold dispatch. rewrite Ha, Hr. cbn [negb is_close].
    rewrite statuses_cons. unfold stat1. rewrite Z.eqb_refl. reflexivity. }
  destruct (thm_exit_status k ch [LocalClose c; Msg c (ExitStatus n)] c) as [E1 E2];
    [rewrite S; discriminate|].
  split; [exact E1|]. rewrite E2, S. reflexivity.
Qed.
