(* Vocabulary of the C13 wake graph (shared by Gen/C13_gen.v, which is regenerated from the
   paramiko source on every run, and Model/C13.v).  Definitions only. *)
From Coq Require Import ZArith List Bool.
Import ListNotations.
Open Scope Z_scope.

(* synchronisation objects a blocking call may wait on *)
Inductive obj :=
  | EvCompletion      (* Transport.completion_event                        (threading.Event) *)
  | EvAuth            (* AuthHandler.auth_event                            (Event) *)
  | EvChanOpen        (* Transport.channel_events[chanid]                  (Event) *)
  | EvClearToSend     (* Transport.clear_to_send                           (Event) *)
  | EvChanEvent       (* Channel.event                                     (Event) *)
  | EvChanStatus      (* Channel.status_event                              (Event) *)
  | CvInBuf           (* Channel.in_buffer._cv   (BufferedPipe)            (Condition) *)
  | CvOutBuf          (* Channel.out_buffer_cv                             (Condition) *)
  | CvAccept.         (* Transport.server_accept_cv                        (Condition) *)

Definition obj_code (o : obj) : Z :=
  match o with
  | EvCompletion => 1 | EvAuth => 2 | EvChanOpen => 3 | EvClearToSend => 4 | EvChanEvent => 5
  | EvChanStatus => 6 | CvInBuf => 7 | CvOutBuf => 8 | CvAccept => 9
  end.
Definition obj_eqb (a b : obj) : bool := obj_code a =? obj_code b.
Definition is_event (o : obj) : bool :=
  match o with CvInBuf | CvOutBuf | CvAccept => false | _ => true end.

(* facts about the shared state that ending the connection establishes; they are never retracted
   by the code that ends a connection, so the state is the list of facts established so far *)
Inductive fact :=
  | FInactive         (* Transport.active = False *)
  | FPktClosed        (* Packetizer closed *)
  | FSockClosed       (* socket closed *)
  | FChanClosed       (* Channel.closed = True *)
  | FPipeClosed       (* Channel.in_buffer._closed = True *)
  | FEv (o : obj).    (* Event o is set (sticky) *)

Definition fact_code (f : fact) : Z :=
  match f with
  | FInactive => 1 | FPktClosed => 2 | FSockClosed => 3 | FChanClosed => 4 | FPipeClosed => 5
  | FEv o => 10 + obj_code o
  end.
Definition fact_eqb (a b : fact) : bool := fact_code a =? fact_code b.

(* atomic actions of the thread that ends the connection *)
Inductive action :=
  | Establish (f : fact)
  | NotifyOne (o : obj)      (* Condition.notify(): wakes ONE waiter, possibly another one *)
  | NotifyAll (o : obj).     (* Condition.notify_all() *)

(* the functions of the source whose bodies are translated *)
Inductive fn :=
  | FnRunEpilogue     (* Transport.run: the statements after the main try/except *)
  | FnClose           (* Transport.close *)
  | FnStopThread      (* Transport.stop_thread *)
  | FnUnlink          (* Channel._unlink *)
  | FnSetClosed       (* Channel._set_closed *)
  | FnPipeClose       (* BufferedPipe.close *)
  | FnAuthAbort.      (* AuthHandler.abort *)

Inductive stmt :=
  | SDo (a : action)
  | SCall (f : fn)
  | SSkipUnlessActive (n : nat)   (* `if self.active:` guarding the next n statements *)
  | SReturnIfInactive             (* `if not self.active: return` *)
  | SReturnIfChanClosed.          (* `if self.closed: return` *)

(* the blocking APIs *)
Inductive api :=
  | ApiStartClient | ApiStartServer | ApiOpenChannel | ApiRenegotiate | ApiGlobalRequest
  | ApiSendUserMessage     (* send_ignore, channel requests, window adjusts, data: all pass through it *)
  | ApiAuth                (* auth_* -> AuthHandler.wait_for_response *)
  | ApiAccept
  | ApiRecv                (* Channel.recv / recv_stderr -> BufferedPipe.read *)
  | ApiSend                (* Channel.send / sendall -> _wait_for_send_window *)
  | ApiChanRequest         (* invoke_shell, exec_command, ... -> _wait_for_event *)
  | ApiExitStatus.         (* recv_exit_status *)

Definition api_code (a : api) : Z :=
  match a with
  | ApiStartClient => 1 | ApiStartServer => 2 | ApiOpenChannel => 3 | ApiRenegotiate => 4
  | ApiGlobalRequest => 5 | ApiSendUserMessage => 6 | ApiAuth => 7 | ApiAccept => 8
  | ApiRecv => 9 | ApiSend => 10 | ApiChanRequest => 11 | ApiExitStatus => 12
  end.

(* one row of the wake graph: how the API blocks and when it stops blocking *)
Record api_row := mk_api {
  a_api : api;
  a_prim : obj;                (* what it waits on *)
  a_period : option Z;         (* Some ms = every wait is bounded (it polls); None = waits until woken *)
  a_user_timeout : bool;       (* the wait's timeout is supplied by the caller (settimeout / accept(t)) *)
  a_has_pre : bool;            (* the exit condition is tested (under the lock) before the first wait *)
  a_loop : bool;               (* after waking it re-tests the condition and waits again if it is false *)
  a_exit_on : list fact        (* it exits when one of these facts holds *)
}.
