(* C34 — proofs of the lemmas that Props/C34_props.v closes with `exact`. *)
From PV Require Import Bytes C34_gen C34.
From Coq Require Import ZArith List Bool Lia.
Import ListNotations.
Open Scope Z_scope.

(* ------------------------------------------------------------------ *)
(* split / join                                                        *)
(* ------------------------------------------------------------------ *)

Lemma split_aux_app_noslash x : forall cur tail,
  no_slash x = true -> split_aux cur (x ++ tail) = split_aux (rev x ++ cur) tail.
Proof.
  induction x as [|c x IH]; intros cur tail H; [reflexivity|].
  unfold no_slash in H. cbn [forallb] in H. apply andb_true_iff in H as [Hc Hx].
  cbn [app rev split_aux].
  destruct (c =? SLASH); [discriminate|].
  rewrite IH by exact Hx. rewrite <- app_assoc. reflexivity.
Qed.

Lemma split_join : forall l cur x,
  forallb no_slash (x :: l) = true ->
  split_aux cur (join_slash (x :: l)) = (rev cur ++ x) :: l.
Proof.
  induction l as [|y l IH]; intros cur x H.
  - cbn [forallb] in H. apply andb_true_iff in H as [Hx _].
    change (join_slash [x]) with x. rewrite <- (app_nil_r x) at 1.
    rewrite split_aux_app_noslash by exact Hx. cbn [split_aux].
    rewrite rev_app_distr, rev_involutive. reflexivity.
  - change (forallb no_slash (x :: y :: l)) with (no_slash x && forallb no_slash (y :: l)) in H.
    apply andb_true_iff in H as [Hx Hl].
    change (join_slash (x :: y :: l)) with (x ++ SLASH :: join_slash (y :: l)).
    rewrite split_aux_app_noslash by exact Hx. cbn [split_aux].
    change (SLASH =? SLASH) with true. cbv iota.
    rewrite (IH [] y Hl). rewrite rev_app_distr, rev_involutive. reflexivity.
Qed.

Lemma split_slash_join cs :
  forallb no_slash cs = true ->
  split_slash (join_slash cs) = match cs with [] => [[]] | _ => cs end.
Proof.
  intros H. destruct cs as [|x l]; [reflexivity|].
  unfold split_slash. rewrite (split_join l [] x H). reflexivity.
Qed.

Lemma split_slash_cons s : split_slash (SLASH :: s) = [] :: split_slash s.
Proof. reflexivity. Qed.

Lemma split_aux_app_slash a : forall cur t,
  split_aux cur (a ++ SLASH :: t) = split_aux cur a ++ split_aux [] t.
Proof.
  induction a as [|c a IH]; intros cur t.
  - reflexivity.
  - cbn [app split_aux]. destruct (c =? SLASH).
    + rewrite IH. reflexivity.
    + apply IH.
Qed.

Lemma no_slash_rev c : no_slash c = true -> no_slash (rev c) = true.
Proof.
  unfold no_slash. intros H. apply forallb_forall. intros x Hx.
  apply in_rev in Hx. exact (proj1 (forallb_forall _ _) H x Hx).
Qed.

Lemma split_aux_no_slash s : forall cur,
  no_slash cur = true -> forallb no_slash (split_aux cur s) = true.
Proof.
  induction s as [|c s IH]; intros cur Hc.
  - cbn. rewrite no_slash_rev by exact Hc. reflexivity.
  - cbn [split_aux]. destruct (c =? SLASH) eqn:E.
    + cbn [forallb]. rewrite no_slash_rev by exact Hc. apply IH. reflexivity.
    + apply IH. unfold no_slash. cbn [forallb]. rewrite E. exact Hc.
Qed.

(* ------------------------------------------------------------------ *)
(* the normpath loop on an absolute path                               *)
(* ------------------------------------------------------------------ *)

Lemma norm_loop_clean cs : forall stk,
  forallb no_slash cs = true -> forallb clean stk = true ->
  forallb clean (norm_loop true cs stk) = true.
Proof.
  induction cs as [|c r IH]; intros stk Hcs Hstk; [exact Hstk|].
  cbn [forallb] in Hcs. apply andb_true_iff in Hcs as [Hc Hr].
  cbn [norm_loop].
  destruct (is_empty c || is_dot c) eqn:E1; [apply IH; assumption|].
  apply orb_false_iff in E1 as [Ee Ed].
  cbn [negb andb orb].
  assert (Hhd : negb (is_empty stk) && is_dotdot (hd [] stk) = false).
  { destruct stk as [|h stk']; [reflexivity|].
    cbn [forallb] in Hstk. apply andb_true_iff in Hstk as [Hh _].
    unfold clean in Hh. repeat (apply andb_true_iff in Hh as [Hh ?]).
    cbn [is_empty negb hd andb]. destruct (is_dotdot h); [discriminate|reflexivity]. }
  rewrite Hhd, orb_false_r, orb_false_r.
  destruct (is_dotdot c) eqn:Edd; cbn [negb].
  - apply IH; [exact Hr|]. destruct stk as [|h stk']; [reflexivity|].
    cbn [tl]. cbn [forallb] in Hstk. apply andb_true_iff in Hstk as [_ Ht]. exact Ht.
  - apply IH; [exact Hr|]. cbn [forallb]. rewrite Hstk, andb_true_r.
    unfold clean. rewrite Ee, Ed, Edd, Hc. reflexivity.
Qed.

Lemma forallb_rev {A} (f : A -> bool) l : forallb f l = true -> forallb f (rev l) = true.
Proof.
  intros H. apply forallb_forall. intros x Hx. apply in_rev in Hx.
  exact (proj1 (forallb_forall _ _) H x Hx).
Qed.

(* shape of normpath's result on a path that starts with a slash *)
Lemma normpath_abs t :
  exists (k : nat) (cs : list comp),
    (k = 1 \/ k = 2)%nat /\ forallb clean cs = true /\
    normpath (SLASH :: t) = repeat SLASH k ++ join_slash cs.
Proof.
  unfold normpath.
  set (k := initial_slashes (SLASH :: t)).
  assert (Hk : (k = 1 \/ k = 2)%nat).
  { unfold k, initial_slashes. cbn [starts_with]. change (SLASH =? SLASH) with true. cbn [andb].
    destruct (_ && _); [right|left]; reflexivity. }
  assert (Hnz : negb (Nat.eqb k 0) = true) by (destruct Hk as [-> | ->]; reflexivity).
  rewrite Hnz.
  set (cs := rev (norm_loop true (split_slash (SLASH :: t)) [])).
  assert (Hcs : forallb clean cs = true).
  { unfold cs. apply forallb_rev. apply norm_loop_clean; [|reflexivity].
    apply split_aux_no_slash. reflexivity. }
  exists k, cs. split; [exact Hk|]. split; [exact Hcs|].
  cbv zeta. destruct Hk as [-> | ->]; reflexivity.
Qed.

Lemma canonicalize_shape p :
  exists (k : nat) (cs : list comp),
    (k = 1 \/ k = 2)%nat /\ forallb clean cs = true /\
    canonicalize p = repeat SLASH k ++ join_slash cs.
Proof.
  unfold canonicalize. destruct (isabs p) eqn:E.
  - destruct p as [|c t]; [discriminate|]. cbn [isabs] in E. apply Z.eqb_eq in E. subst c.
    apply normpath_abs.
  - apply normpath_abs.
Qed.

(* ------------------------------------------------------------------ *)
(* consequences of the shape                                           *)
(* ------------------------------------------------------------------ *)

Lemma clean_no_slash cs : forallb clean cs = true -> forallb no_slash cs = true.
Proof.
  intros H. apply forallb_forall. intros x Hx.
  pose proof (proj1 (forallb_forall _ _) H x Hx) as Hc. unfold clean in Hc.
  apply andb_true_iff in Hc as [_ Hc]. exact Hc.
Qed.

Lemma filter_clean cs :
  forallb clean cs = true -> filter (fun c => negb (is_empty c)) cs = cs.
Proof.
  induction cs as [|c r IH]; intros H; [reflexivity|].
  cbn [forallb] in H. apply andb_true_iff in H as [Hc Hr].
  cbn [filter]. unfold clean in Hc. repeat (apply andb_true_iff in Hc as [Hc ?]).
  rewrite Hc, IH by exact Hr. reflexivity.
Qed.

Lemma split_shape k cs :
  (k = 1 \/ k = 2)%nat -> forallb clean cs = true ->
  split_slash (repeat SLASH k ++ join_slash cs) =
  repeat [] k ++ match cs with [] => [[]] | _ => cs end.
Proof.
  intros Hk Hcs. pose proof (split_slash_join cs (clean_no_slash cs Hcs)) as Hs.
  destruct Hk as [-> | ->]; cbn [repeat app]; rewrite !split_slash_cons, Hs; reflexivity.
Qed.

Lemma comps_shape k cs :
  (k = 1 \/ k = 2)%nat -> forallb clean cs = true ->
  comps (repeat SLASH k ++ join_slash cs) = cs.
Proof.
  intros Hk Hcs. unfold comps. rewrite (split_shape k cs Hk Hcs).
  rewrite filter_app.
  assert (Hr : filter (fun c : list Z => negb (is_empty c)) (repeat [] k) = [])
    by (destruct Hk as [-> | ->]; reflexivity).
  rewrite Hr. cbn [app].
  destruct cs as [|x l]; [reflexivity|]. apply filter_clean. exact Hcs.
Qed.

Lemma absolute p : exists t, canonicalize p = SLASH :: t.
Proof.
  destruct (canonicalize_shape p) as (k & cs & Hk & _ & ->).
  destruct Hk as [-> | ->]; cbn [repeat app]; eexists; reflexivity.
Qed.

Lemma components_clean p : forallb clean (comps (canonicalize p)) = true.
Proof.
  destruct (canonicalize_shape p) as (k & cs & Hk & Hcs & ->).
  rewrite (comps_shape k cs Hk Hcs). exact Hcs.
Qed.

Lemma clean_not_dots c : clean c = true -> c <> [] /\ c <> [DOT] /\ c <> [DOT; DOT].
Proof.
  unfold clean. intros H. repeat (apply andb_true_iff in H as [H ?]).
  repeat split; intros ->; discriminate.
Qed.

Lemma no_dot_components p c :
  In c (split_slash (canonicalize p)) -> c <> [DOT] /\ c <> [DOT; DOT].
Proof.
  destruct (canonicalize_shape p) as (k & cs & Hk & Hcs & ->).
  rewrite (split_shape k cs Hk Hcs). intros Hin.
  apply in_app_or in Hin as [Hin | Hin].
  - apply repeat_spec in Hin. subst c. split; discriminate.
  - destruct cs as [|x l].
    + destruct Hin as [<- | []]. split; discriminate.
    + pose proof (proj1 (forallb_forall _ _) Hcs c Hin) as Hc.
      apply clean_not_dots in Hc as (_ & H1 & H2). split; assumption.
Qed.

(* every component is an ordinary name, and there is no empty component except the ones
   produced by the leading slash(es) (and the single trailing one of "/" or "//") *)
Lemma comps_app_slash a t : comps (a ++ SLASH :: t) = comps a ++ comps t.
Proof. unfold comps, split_slash. rewrite split_aux_app_slash, filter_app. reflexivity. Qed.

Lemma comps_cons_slash t : comps (SLASH :: t) = comps t.
Proof. unfold comps. rewrite split_slash_cons. reflexivity. Qed.

Lemma comps_root_app root p :
  comps (root ++ canonicalize p) = comps root ++ comps (canonicalize p).
Proof.
  destruct (absolute p) as [t ->]. rewrite comps_app_slash, comps_cons_slash. reflexivity.
Qed.

Lemma walk_app a : forall stk b, walk stk (a ++ b) = walk (walk stk a) b.
Proof.
  induction a as [|c a IH]; intros stk b; [reflexivity|].
  cbn [app walk]. destruct (is_dot c); [apply IH|]. destruct (is_dotdot c); apply IH.
Qed.

Lemma walk_clean b : forall stk, forallb clean b = true -> walk stk b = rev b ++ stk.
Proof.
  induction b as [|c b IH]; intros stk H; [reflexivity|].
  cbn [forallb] in H. apply andb_true_iff in H as [Hc Hb].
  unfold clean in Hc. repeat (apply andb_true_iff in Hc as [Hc ?]).
  cbn [walk rev].
  destruct (is_dot c); [discriminate|]. destruct (is_dotdot c); [discriminate|].
  rewrite IH by exact Hb. rewrite <- app_assoc. reflexivity.
Qed.

Lemma inside_root root p :
  comps (root ++ canonicalize p) = comps root ++ comps (canonicalize p) /\
  forallb clean (comps (canonicalize p)) = true /\
  resolve (root ++ canonicalize p) = resolve root ++ comps (canonicalize p).
Proof.
  split; [apply comps_root_app|]. split; [apply components_clean|].
  unfold resolve. rewrite comps_root_app, walk_app.
  rewrite (walk_clean _ _ (components_clean p)).
  rewrite rev_app_distr, rev_involutive. reflexivity.
Qed.

(* the POSIX double leading slash survives: canonicalize "//x" = "//x" *)
Lemma double_slash_kept :
  canonicalize [SLASH; SLASH; 120] = [SLASH; SLASH; 120] /\
  canonicalize [SLASH; SLASH; SLASH; 120] = [SLASH; 120] /\
  canonicalize [SLASH; SLASH; DOT; DOT; SLASH; 120] = [SLASH; SLASH; 120].
Proof. repeat split. Qed.

(* a session served with the default canonicalisation answers REALPATH canonically whatever was asked before *)
Lemma realpath_default history root p :
  let r := realpath_reply canonicalize history p in
  r = canonicalize p /\
  (exists t, r = SLASH :: t) /\
  forallb clean (comps r) = true /\
  resolve (root ++ r) = resolve root ++ comps r.
Proof.
  cbv zeta. unfold realpath_reply. destruct G_REALPATH_STATELESS;
    (split; [reflexivity|]; split; [apply absolute|]; split; [apply components_clean|];
     apply (inside_root root p)).
Qed.
