"""C45 — agent signing requests ask for the hash the caller requested.

Proof: coq/Props/C45_props.v over coq/Model/C45.v, coq/Gen/C45_gen.v (flag map and message
numbers regenerated from the live paramiko.agent module by gen/c45.py) and C39's codec lemmas.
Tie: real AgentKey objects bound to a real AgentSSH whose connection is a scripted socket stub
(records send(), serves recv() in random chunks, then EOF): every algorithm name paramiko
passes + unknown names, key blobs of every type incl. certificates, every reply type 0..255,
malformed / truncated replies.
Search oracle: the request bytes parsed independently (type 13, expected key blob, data, flags
by the statement's rule) and the returned value / exception.
"""
import base64
import glob
import hashlib
import os
import shutil
import socket
import struct
import tempfile
import threading
import time

from common import coq, with_watchdog

PID = "C45"
GENS = ["c39", "c45"]     # C45 builds on C39's codec lemmas, whose constants come from gen/c39.py
LEVEL_TEXT = ("Machine-checked proof (Coq, closed under the global context) over a model of "
              "AgentKey.sign_ssh_data / AgentSSH._send_message built on the generated ALGORITHM_FLAG_MAP: flags "
              "are 2 exactly for rsa-sha2-256 and its certificate form, 4 exactly for rsa-sha2-512 and its "
              "certificate form, 0 for every other name; the request is the C39 encoding of byte 13, the key "
              "blob, the data and the flags (and decodes back to exactly those); a SIGN_RESPONSE returns the "
              "signature unchanged, every other reply type raises; end-to-end over the length-framed connection. "
              "Tied to agent.py by regeneration of the table plus a differential run against the real classes.")
LEVEL_NOTE = ("Trusted: Coq kernel + vm_compute; hand-written model coq/Model/C45.v; translator gen/c45.py. "
              "The value of inner_key.asbytes() (PKey subclasses re-encoding the blob the agent listed) is an "
              "input of the model taken from the live object: for RSA certificates paramiko sends the plain "
              "ssh-rsa public blob, for ECDSA/Ed25519 certificates (no inner key) the certificate blob; the "
              "harness oracle checks this against an independent parse of the blob.")
TECHNIQUE = "Coq proof over a generated table + C39 codec lemmas; vm_compute differential correspondence"

REF_FLAGS = {"rsa-sha2-256": 2, "rsa-sha2-512": 4,
             "rsa-sha2-256-cert-v01@openssh.com": 2, "rsa-sha2-512-cert-v01@openssh.com": 4}
OMIT = object()


def sstr(b):
    return struct.pack(">I", len(b)) + b


def get_str(buf, pos):
    n = struct.unpack(">I", buf[pos:pos + 4])[0]
    return buf[pos + 4:pos + 4 + n], pos + 4 + n


class Conn:
    """socket-like stub: records what is sent, serves the scripted stream in chunks, then EOF"""

    def __init__(self, stream, rng):
        self.stream, self.pos, self.sent, self.rng, self.closed = stream, 0, b"", rng, False

    def send(self, b):
        self.sent += bytes(b)
        return len(b)

    def recv(self, n):
        if n <= 0:
            return b""
        avail = len(self.stream) - self.pos
        if avail <= 0:
            return b""
        k = min(avail, n)
        if self.rng.random() < 0.6:
            k = self.rng.randrange(1, k + 1)
        out = self.stream[self.pos:self.pos + k]
        self.pos += k
        return out

    def close(self):
        self.closed = True


def key_blobs(ctx):
    """(label, blob) for every key type paramiko knows, certificates, and unknown types."""
    from paramiko import RSAKey, ECDSAKey, Ed25519Key
    sup = os.path.join(ctx.repo, "tests", "_support")
    out = []
    for cls, f in ((RSAKey, "rsa.key"), (ECDSAKey, "ecdsa-256.key"), (Ed25519Key, "ed25519.key"),
                   (RSAKey, "rsa-lonely.key")):
        out.append((f, cls.from_private_key_file(os.path.join(sup, f)).asbytes()))
    for bits in (384, 521):
        out.append(("ecdsa-%d-generated" % bits, ECDSAKey.generate(bits=bits).asbytes()))
    for f in sorted(glob.glob(os.path.join(sup, "*-cert.pub"))):
        out.append((os.path.basename(f), base64.b64decode(open(f).read().split()[1])))
    out.append(("ssh-ed448-unknown", sstr(b"ssh-ed448") + sstr(bytes(range(57)))))
    out.append(("sk-ed25519-unknown", sstr(b"sk-ssh-ed25519@openssh.com") + sstr(bytes(32)) + sstr(b"ssh:")))
    out.append(("bad-type", sstr(b"bad-type")))
    out.append(("empty-blob", b""))
    return out


def expected_blob(blob):
    """Independent statement of 'that key's public blob' (see LEVEL_NOTE)."""
    try:
        name, p = get_str(blob, 0)
    except struct.error:
        return blob
    if name == b"ssh-rsa-cert-v01@openssh.com":
        _nonce, p = get_str(blob, p)
        e, p = get_str(blob, p)
        n, p = get_str(blob, p)
        return sstr(b"ssh-rsa") + sstr(e) + sstr(n)
    return blob


def algorithms():
    from paramiko import Transport
    from paramiko.agent import ALGORITHM_FLAG_MAP
    names = list(Transport._preferred_keys) + list(Transport._preferred_pubkeys) + list(ALGORITHM_FLAG_MAP)
    names += list(REF_FLAGS)
    names += [n + "-cert-v01@openssh.com" for n in list(names)]
    names += ["ssh-dss", "", "rsa-sha2-256 ", " rsa-sha2-512", "RSA-SHA2-256", "rsa-sha2-384", "rsa-sha2-25", "rsa-sha2-5120",
              "rsa-sha2-256-cert-v01@openssh.co", "rsa-sha2-512-cert-v01@openssh.comx", "rsa-sha2-256-cert-v00@openssh.com",
              "rsa-sha2-256é", "x" * 70, "rsa-sha2-256,rsa-sha2-512", "rsa-sha2-512\x00"]
    seen, out = set(), []
    for n in names:
        if n not in seen:
            seen.add(n)
            out.append(n)
    return out + [None, OMIT]


def drive_session(blobs, calls, rng):
    """ONE AgentSSH connection and ONE AgentKey object per blob; calls = [(key index, data, alg, reply stream)]
    executed in order.  Bytes of a reply that a call leaves unread stay on the connection for the next call.
    Returns per call: (canonical list, sent bytes, outcome, inner blob, the stream that call could read)."""
    from paramiko.agent import AgentSSH, AgentKey
    from paramiko.ssh_exception import SSHException
    agent = AgentSSH()
    conn = Conn(b"", rng)
    agent._conn = conn
    keys = [AgentKey(agent=agent, blob=b) for b in blobs]
    out = []
    for ki, data, alg, reply in calls:
        key = keys[ki]
        conn.stream = conn.stream[conn.pos:] + reply
        conn.pos = 0
        conn.sent = b""
        stream = conn.stream
        inner = key.inner_key.asbytes() if key.inner_key is not None else None
        try:
            sig = key.sign_ssh_data(data) if alg is OMIT else key.sign_ssh_data(data, alg)
            outcome = ("ok", bytes(sig))
            canon = [0] + list(sig)
        except SSHException as e:
            outcome = ("exc", type(e).__name__)
            canon = [1]
        except Exception as e:     # noqa - reported as a disagreement with the model
            outcome = ("exc", type(e).__name__)
            canon = [98]
        out.append((list(conn.sent) + [-1] + canon, conn.sent, outcome, inner, stream))
    return out


def drive(blob, data, alg, stream, rng):
    """Single call on fresh objects: (canonical list, sent bytes, outcome, inner blob)."""
    return drive_session([blob], [(0, data, alg, stream)], rng)[0][:4]


class FakeAgentServer:
    """A real ssh-agent protocol endpoint on a unix socket (SSH_AUTH_SOCK): answers REQUEST_IDENTITIES and
    SIGN_REQUEST; its signatures are recognisable (tag, flags, hash of blob+data); logs every request with the
    connection it arrived on; the n-th sign request can be answered late."""

    def __init__(self, path, identities, tag, delays=None):
        self.path, self.identities, self.tag, self.delays = path, identities, tag, dict(delays or {})
        self.signs = []          # (connection number, blob, data, flags)
        self.nconn = 0
        self.sock = socket.socket(socket.AF_UNIX, socket.SOCK_STREAM)
        self.sock.bind(path)
        self.sock.listen(8)
        self.alive = True
        threading.Thread(target=self._accept, daemon=True).start()

    def signature(self, blob, data, flags):
        return self.tag + b"|%d|" % flags + hashlib.sha256(blob + b"/" + data).digest()

    def _accept(self):
        while self.alive:
            try:
                c, _ = self.sock.accept()
            except OSError:
                return
            self.nconn += 1
            threading.Thread(target=self._serve, args=(c, self.nconn), daemon=True).start()

    @staticmethod
    def _recvall(c, n):
        buf = b""
        while len(buf) < n:
            x = c.recv(n - len(buf))
            if not x:
                return None
            buf += x
        return buf

    def _serve(self, c, cid):
        try:
            while True:
                h = self._recvall(c, 4)
                if h is None:
                    return
                body = self._recvall(c, struct.unpack(">I", h)[0])
                if body is None:
                    return
                if body[:1] == b"\x0b":
                    out = b"\x0c" + struct.pack(">I", len(self.identities))
                    for blob, comment in self.identities:
                        out += sstr(blob) + sstr(comment.encode())
                elif body[:1] == b"\x0d":
                    blob, p = get_str(body, 1)
                    data, p = get_str(body, p)
                    flags = struct.unpack(">I", body[p:p + 4])[0]
                    n = len(self.signs)
                    self.signs.append((cid, blob, data, flags))
                    if n in self.delays:
                        time.sleep(self.delays[n])
                    out = b"\x0e" + sstr(self.signature(blob, data, flags))
                else:
                    out = b"\x05"
                c.sendall(struct.pack(">I", len(out)) + out)
        except OSError:
            return
        finally:
            try:
                c.close()
            except OSError:
                pass

    def close(self):
        self.alive = False
        try:
            self.sock.close()
        except OSError:
            pass


def socket_agents(ctx, rng, blobs):
    """END TO END over real unix sockets and the public paramiko.agent.Agent():
    (1) two agents that list the SAME identities, each key must be signed by the agent that listed it, also
        after the other Agent object was closed and after a new Agent() was opened;
    (2) an agent that answers one signature late: every signature returned afterwards must still be the
        agent's answer to THAT request.  If the connection carries a timeout it is scaled down to 0.1 s so that
        'slower than the timeout' costs 0.4 s instead of the configured seconds."""
    from paramiko.agent import Agent
    tmp = tempfile.mkdtemp(prefix="verif-c45-")
    saved = os.environ.get("SSH_AUTH_SOCK")
    servers, agents = [], []
    try:
        idents = [(b, "key-%d" % i) for i, b in enumerate(blobs)]
        sa = FakeAgentServer(os.path.join(tmp, "a.sock"), idents, b"A")
        sb = FakeAgentServer(os.path.join(tmp, "b.sock"), idents, b"B")
        servers += [sa, sb]

        def open_agent(server):
            os.environ["SSH_AUTH_SOCK"] = server.path
            st, ag = with_watchdog(Agent, 10.0)
            if st != "ok":
                raise RuntimeError("Agent() %s: %r" % (st, ag))
            agents.append(ag)
            return ag

        steps = []

        def sign(ag, server, other, ki, alg, what):
            data = bytes(rng.randrange(256) for _ in range(rng.choice([1, 16, 40])))
            keys = ag.get_keys()
            case = {"socket-agents": what, "steps": list(steps), "key index": ki, "algorithm": alg, "data": data}
            steps.append(what)
            if len(keys) != len(idents):
                ctx.fail("agent-identities", "Agent() does not list the agent's identities", case=case,
                         expected=len(idents), observed=len(keys))
                return
            before = (len(server.signs), len(other.signs))
            st, got = with_watchdog(lambda: keys[ki].sign_ssh_data(data, alg), 10.0)
            flags = REF_FLAGS.get(alg, 0)
            want = server.signature(expected_blob(idents[ki][0]), data, flags)
            ctx.count(("socket", what, ki, alg, data), kind="socket-agents")
            if st != "ok" or bytes(got) != want:
                ctx.fail("sign-wrong-agent", "a key listed by one agent connection was not signed by that agent "
                         "(two Agent objects list the same identity): " + what, case=case,
                         expected=want, observed=repr(got)[:200] if st != "ok" else bytes(got))
            elif (len(server.signs), len(other.signs)) != (before[0] + 1, before[1]):
                ctx.fail("sign-wrong-agent", "the sign request did not go (only) to the agent that listed the key: " + what,
                         case=case, expected=[before[0] + 1, before[1]], observed=[len(server.signs), len(other.signs)])

        algs = list(REF_FLAGS) + [None, "ssh-ed25519"]
        n = len(idents)
        ag_a = open_agent(sa)
        ag_b = open_agent(sb)
        sign(ag_b, sb, sa, rng.randrange(n), rng.choice(algs), "second Agent's key, both open")
        sign(ag_a, sa, sb, rng.randrange(n), rng.choice(algs), "first Agent's key again, both open")
        sign(ag_b, sb, sa, rng.randrange(n), rng.choice(algs), "second Agent's key again")
        ag_a.close()
        sign(ag_b, sb, sa, rng.randrange(n), rng.choice(algs), "second Agent's key after the first Agent was closed")
        ag_a2 = open_agent(sa)
        sign(ag_a2, sa, sb, rng.randrange(n), rng.choice(algs), "a new Agent() on the first agent after close")
        sign(ag_b, sb, sa, rng.randrange(n), rng.choice(algs), "second Agent's key after the first was reopened")

        # (2) one late answer
        sc = FakeAgentServer(os.path.join(tmp, "c.sock"), idents, b"C", delays={0: 0.4})
        servers.append(sc)
        ag_c = open_agent(sc)
        conn = ag_c._conn
        tmo = conn.gettimeout() if hasattr(conn, "gettimeout") else None
        if tmo is not None:
            conn.settimeout(min(tmo, 0.1))
        case = {"socket-agents": "late answer", "connection timeout configured by paramiko": tmo,
                "note": "the agent answers the first sign request after 0.4 s"
                        + ("" if tmo is None else "; the configured timeout was scaled down to 0.1 s")}
        keys = ag_c.get_keys()
        d1, d2, d3 = b"first-request", b"second-request", b"third-request"
        st1, got1 = with_watchdog(lambda: keys[0].sign_ssh_data(d1, "rsa-sha2-256"), 10.0)
        if st1 != "ok":
            time.sleep(0.6)                    # the abandoned request's answer arrives meanwhile
        results = [(st1, got1)]
        for d, alg in ((d2, "rsa-sha2-512"), (d3, None)):
            results.append(with_watchdog(lambda d=d, alg=alg: keys[n - 1].sign_ssh_data(d, alg), 10.0))
        wants = [sc.signature(expected_blob(idents[0][0]), d1, 2),
                 sc.signature(expected_blob(idents[n - 1][0]), d2, 4),
                 sc.signature(expected_blob(idents[n - 1][0]), d3, 0)]
        ctx.count(("socket-late", tmo), kind="socket-agents-late-answer")
        for i, ((st, got), want) in enumerate(zip(results, wants)):
            if st == "ok" and bytes(got) != want:
                other = [j for j, w in enumerate(wants) if bytes(got) == w]
                ctx.fail("late-reply-off-by-one", "sign call %d returned %s instead of the agent's signature for this "
                         "request" % (i + 1, "the answer to request %d" % (other[0] + 1) if other else "other bytes"),
                         case=case, expected=want, observed=bytes(got))
            elif st == "hang":
                ctx.fail("late-reply-hang", "sign call %d did not return within 10 s" % (i + 1), case=case)
    finally:
        for ag in agents:
            try:
                ag.close()
            except Exception:      # noqa
                pass
        for sv in servers:
            sv.close()
        if saved is None:
            os.environ.pop("SSH_AUTH_SOCK", None)
        else:
            os.environ["SSH_AUTH_SOCK"] = saved
        shutil.rmtree(tmp, ignore_errors=True)


def oracle_request(ctx, case, sent, blob, data, alg):
    want_flags = 0 if alg in (None, OMIT) else REF_FLAGS.get(alg, 0)
    want = b"\x0d" + sstr(expected_blob(blob)) + sstr(data) + struct.pack(">I", want_flags)
    want = struct.pack(">I", len(want)) + want
    if sent == want:
        return
    key, what = "request-shape", "the sign request is not: length, byte 13, string blob, string data, uint32 flags"
    try:
        body = sent[4:]
        b, p = get_str(body, 1)
        d, p = get_str(body, p)
        flags = struct.unpack(">I", body[p:p + 4])[0]
        if struct.unpack(">I", sent[:4])[0] != len(body) or body[:1] != b"\x0d" or p + 4 != len(body):
            pass
        elif b != expected_blob(blob):
            key, what = "request-blob", "the sign request does not carry the key's public blob"
        elif d != data:
            key, what = "request-data", "the sign request does not carry the data to be signed"
        elif flags != want_flags:
            key, what = "request-flags", "flags %d sent for algorithm %r, expected %d" % (flags, None if alg is OMIT else alg, want_flags)
    except (struct.error, IndexError):
        pass
    ctx.fail(key, what, case=case, expected=want, observed=sent)


def coq_opt(b):
    return "None" if b is None else "(Some %s)" % coq(list(b))


def run(ctx):
    rng = ctx.rng
    scale = 4 if ctx.thorough else 1
    ctx.rule = ("key blobs: RSA/ECDSA-256/384/521/Ed25519 public blobs, the repository's RSA/ECDSA/Ed25519 "
                "certificates, unknown types, empty; algorithm names: everything in Transport._preferred_keys / "
                "_preferred_pubkeys / ALGORITHM_FLAG_MAP and the certificate form of each, None, omitted, and "
                "near-miss / unknown names; replies: a framed reply of every type 0..255 (exhaustive), "
                "well-formed SIGN_RESPONSEs with random signatures and with STRUCTURED signature blobs (every requested "
                "algorithm x signature format names incl. an agent ignoring the flags, malformed blobs), truncated frames, EOF, short bodies, "
                "over-long declared lengths, trailing bytes; recv() chunked randomly; plus sessions of 2..5 sign "
                "calls on the same AgentKey objects (1-2 keys) over one agent connection with different data / "
                "algorithms / reply types, every call checked; end to end over real unix sockets through the public "
                "Agent(): two agents listing the same identities (sign after the other was closed / reopened) and an "
                "agent that answers one request late. Non-trivial = distinct case")
    ctx.trusted += ["model coq/Model/C45.v is hand-written; flag map and message numbers are generated from the "
                    "live module (gen/c45.py, fail-closed)",
                    "inner_key.asbytes() is an input of the model (checked by the harness oracle against an "
                    "independent parse of the blob)"]
    ctx.prove(GENS)
    keys = key_blobs(ctx)
    algs = algorithms()
    cases = []

    def one(label, blob, data, alg, stream, kind, expect=None):
        canon, sent, outcome, inner = drive(blob, data, alg, stream, rng)
        algtxt = None if alg in (None, OMIT) else alg
        case = {"key": label, "blob": blob, "data": data, "algorithm": "<omitted>" if alg is OMIT else alg,
                "stream": stream}
        oracle_request(ctx, case, sent, blob, data, alg)
        if expect is not None and outcome != expect:
            k = "signature-changed" if expect[0] == "ok" else "non-signature-reply-accepted"
            ctx.fail(k, "reply handling: expected %r" % (expect,), case=case, expected=expect, observed=outcome)
        cases.append(((blob, inner, data, algtxt, stream), canon, case))
        ctx.count((label, data, repr(alg), stream), kind=kind)

    def good_reply(sig, extra=b""):
        body = b"\x0e" + sstr(sig) + extra
        return struct.pack(">I", len(body)) + body

    # 1. every algorithm name (on small keys), then every key x the flagged names + a sample of the others
    #    (thorough tier: the full product)
    small = [kb for kb in keys if len(kb[1]) < 120]

    def signed_case(label, blob, alg):
        data = bytes(rng.randrange(256) for _ in range(rng.choice([0, 1, 20, 32, 64])))
        sig = bytes(rng.randrange(256) for _ in range(rng.choice([0, 1, 16, 83])))
        one(label, blob, data, alg, good_reply(sig), "alg-x-key", expect=("ok", sig))

    for i, alg in enumerate(algs):
        label, blob = small[i % len(small)]
        signed_case(label, blob, alg)
    others = [a for a in algs if a not in REF_FLAGS and a is not None and a is not OMIT]
    for label, blob in keys:
        big = len(blob) > 400
        if ctx.thorough and not big:
            chosen = algs
        else:
            chosen = list(REF_FLAGS) + [None, OMIT] + rng.sample(others, 3 if not ctx.thorough else 10)
        for alg in chosen:
            signed_case(label, blob, alg)
    # 1b. STRUCTURED signature blobs: string(signature format name) + string(signature bytes), every
    #     requested algorithm x every format name an agent may answer with - including an agent that
    #     ignores the flags (ssh-rsa answered to an rsa-sha2-* request) and malformed / truncated blobs.
    #     The SIGN_RESPONSE payload must come back as is, whatever it contains.
    sig_names = [b"ssh-rsa", b"rsa-sha2-256", b"rsa-sha2-512", b"ssh-ed25519", b"ecdsa-sha2-nistp256",
                 b"ssh-rsa-cert-v01@openssh.com", b"ssh-dss", b"", b"ssh-rsa\x00", b"SSH-RSA"]

    def structured(name):
        body = bytes(rng.randrange(256) for _ in range(rng.choice([0, 8, 64])))
        m = rng.randrange(8)
        if m == 0:
            return sstr(name)                                   # name only, no signature field
        if m == 1:
            return sstr(name) + sstr(body) + b"extra"           # trailing bytes inside the blob
        if m == 2:
            return sstr(name)[:rng.randrange(1, 4 + len(name) + 1)]   # truncated inside the name
        return sstr(name) + sstr(body)

    flagged = list(REF_FLAGS) + [None, OMIT, "ssh-rsa", "ssh-ed25519"]
    rest = [a for a in algs if a not in flagged]
    for i, alg in enumerate(flagged + rest):
        names = sig_names if (alg in flagged or ctx.thorough) else rng.sample(sig_names, 2)
        for j, name in enumerate(names):
            label, blob = small[(i + j) % len(small)]
            if alg in REF_FLAGS and j < 3:
                label, blob = keys[0]                           # the RSA key, as in real use
            sig = structured(name)
            one(label, blob, b"to-be-signed-%d" % j, alg, good_reply(sig), "structured-signature", expect=("ok", sig))

    # 2. every reply type (exhaustive), small key
    for t in range(256):
        label, blob = small[t % len(small)]
        sig = bytes(rng.randrange(256) for _ in range(rng.choice([0, 5, 40])))
        body = bytes([t]) + sstr(sig)
        stream = struct.pack(">I", len(body)) + body
        alg = rng.choice(algs)
        one(label, blob, b"data-%d" % t, alg, stream, "reply-type",
            expect=("ok", sig) if t == 14 else ("exc", "SSHException"))
    ctx.exhaustive = True
    # 3. malformed / unusual replies and random data
    for _ in range(80 * scale):
        label, blob = rng.choice(small if rng.random() < 0.8 else keys)
        alg = rng.choice(algs)
        data = bytes(rng.randrange(256) for _ in range(rng.choice([0, 3, 32, 100])))
        sig = bytes(rng.randrange(256) for _ in range(rng.choice([0, 1, 9, 64])))
        mode = rng.randrange(8)
        expect = None
        if mode == 0:
            stream = good_reply(sig)[:rng.randrange(0, 5 + len(sig) + 4)]          # truncated -> lost agent
            expect = ("exc", "SSHException")
        elif mode == 1:
            stream = good_reply(sig) + bytes(rng.randrange(256) for _ in range(rng.randrange(1, 9)))
            expect = ("ok", sig)
        elif mode == 2:
            stream = good_reply(sig, extra=b"trailing")
            expect = ("ok", sig)
        elif mode == 3:
            stream = struct.pack(">I", 0)                                           # empty body
            expect = ("exc", "SSHException")
        elif mode == 4:
            body = b"\x0e" + rng.choice([b"", b"\x00", b"\x00\x00\x00"])             # no/short length field
            stream = struct.pack(">I", len(body)) + body
        elif mode == 5:
            declared = len(sig) + rng.choice([1, 2, 30, 2 ** 20 - len(sig), 2 ** 32 - 1 - len(sig)])
            body = b"\x0e" + struct.pack(">I", declared) + sig                       # over-long declared length
            stream = struct.pack(">I", len(body)) + body
        elif mode == 6:
            body = bytes([rng.choice([5, 13, 15, 30, 102])]) + sstr(sig)
            stream = struct.pack(">I", len(body)) + body
            expect = ("exc", "SSHException")
        else:
            stream = struct.pack(">I", rng.choice([1, 5, 2 ** 31, 2 ** 32 - 1])) + bytes(rng.randrange(0, 4))
            expect = ("exc", "SSHException")                                         # frame longer than stream
        one(label, blob, data, alg, stream, "malformed-%d" % mode, expect=expect)

    # 4. several sign calls on the SAME AgentKey objects over ONE agent connection (different data,
    #    algorithms, reply types); every call must behave as a first call
    for _ in range(40 * scale):
        nk = rng.choice([1, 1, 2])
        chosen = [rng.choice(small if rng.random() < 0.85 else keys) for _k in range(nk)]
        calls, expects = [], []
        for _c in range(rng.randrange(2, 6)):
            ki = rng.randrange(nk)
            alg = rng.choice(list(REF_FLAGS) + [None, OMIT, "ssh-rsa", "ssh-ed25519", rng.choice(algs)])
            data = bytes(rng.randrange(256) for _x in range(rng.choice([0, 1, 7, 32, 48])))
            sig = bytes(rng.randrange(256) for _x in range(rng.choice([0, 3, 16, 64])))
            if rng.random() < 0.4:
                sig = sstr(rng.choice(sig_names)) + sstr(sig)
            if rng.random() < 0.8:
                reply, exp = good_reply(sig), ("ok", sig)
            else:
                body = bytes([rng.choice([5, 13, 15, 30, 102])]) + sstr(sig)
                reply, exp = struct.pack(">I", len(body)) + body, ("exc", "SSHException")
            calls.append((ki, data, alg, reply))
            expects.append(exp)
        res = drive_session([b for _l, b in chosen], calls, rng)
        for i, (canon, sent, outcome, inner, stream) in enumerate(res):
            ki, data, alg, reply = calls[i]
            label, blob = chosen[ki]
            case = {"session": {"keys": [b for _l, b in chosen],
                                "calls": [[c[0], c[1], "<omitted>" if c[2] is OMIT else c[2], c[3]] for c in calls[:i + 1]]},
                    "note": "sign call number %d on the same agent connection / AgentKey objects" % (i + 1)}
            oracle_request(ctx, case, sent, blob, data, alg)
            if outcome != expects[i]:
                k = "signature-changed" if expects[i][0] == "ok" else "non-signature-reply-accepted"
                ctx.fail(k, "reply handling: expected %r" % (expects[i],), case=case, expected=expects[i], observed=outcome)
            cases.append(((blob, inner, data, None if alg in (None, OMIT) else alg, stream), canon, case))
            ctx.count((label, data, repr(alg), stream, i), kind="session-first" if i == 0 else "session-later")

    # 5. end to end: real unix-socket agents and the public Agent() (two agents listing the same identities;
    #    an agent that answers late)
    for _ in range(2 * scale):
        chosen = rng.sample(small, 2) + ([keys[0]] if rng.random() < 0.5 else [])
        try:
            socket_agents(ctx, rng, [b for _l, b in chosen])
        except Exception as e:      # noqa
            ctx.fail("socket-agents-error", "the real-socket agent scenario raised %s: %s" % (type(e).__name__, e),
                     case={"socket-agents": "setup"})

    bad = ctx.model_mismatches(
        "run_sign", "(list Z * option (list Z) * list Z * option (list Z) * list Z)",
        [("(%s, %s, %s, %s, %s)" % (coq(list(b)), coq_opt(i), coq(list(d)), coq_opt(None if a is None else a.encode("utf-8")),
                                    coq(list(s))), canon) for (b, i, d, a, s), canon, _ in cases], shard=60)
    for i in bad[:3]:
        ctx.disagree("AgentKey.sign_ssh_data differs from the model", case=cases[i][2], impl=cases[i][1][-40:])
    # the flag map on its own, every name
    fl = []
    from paramiko.agent import ALGORITHM_FLAG_MAP
    for a in algs:
        if a is OMIT:
            continue
        got = ALGORITHM_FLAG_MAP.get(a, 0)
        ctx.count(("flag", a), kind="flag-map")
        fl.append((coq_opt(None if a is None else a.encode("utf-8")), [got]))
    bad = ctx.model_mismatches("run_flags", "(option (list Z))", fl)
    for i in bad[:3]:
        ctx.disagree("ALGORITHM_FLAG_MAP differs from the model", case={"algorithm": fl[i][0]}, impl=fl[i][1])
    c = cases[0]
    ctx.sample({"key": c[2]["key"], "algorithm": c[2]["algorithm"], "impl_tail": c[1][-30:]})
    ctx.notes.append("certificate keys: RSA certificates are sent as the plain ssh-rsa public blob "
                     "(inner_key.asbytes()), ECDSA/Ed25519 certificates as the certificate blob the agent listed")


def replay(ctx, rep):
    case = rep["case"]
    if "socket-agents" in case:
        keys = key_blobs(ctx)
        small = [kb for kb in keys if len(kb[1]) < 120]
        ctx.count(("replay", repr(case)[:200]))
        ctx.count(("replay2", repr(case)[:200]))
        socket_agents(ctx, ctx.rng, [b for _l, b in small[:2]] + [keys[0][1]])
        return

    def unhex(v):
        return bytes.fromhex(v["hex"]) if isinstance(v, dict) else v
    if "session" in case:
        blobs = [unhex(b) for b in case["session"]["keys"]]
        calls = [(c[0], unhex(c[1]), OMIT if c[2] == "<omitted>" else c[2], unhex(c[3])) for c in case["session"]["calls"]]
        res = drive_session(blobs, calls, ctx.rng)
        ctx.count(("replay", repr(case)))
        ctx.count(("replay2", repr(case)))
        for i, (canon, sent, outcome, inner, stream) in enumerate(res):
            ki, data, alg, reply = calls[i]
            oracle_request(ctx, case, sent, blobs[ki], data, alg)
        exp = rep.get("expected")
        if rep.get("key") in ("signature-changed", "non-signature-reply-accepted") and exp is not None:
            exp = (exp[0], unhex(exp[1]))
            if res[-1][2] != exp:
                ctx.fail(rep["key"], rep["what"], case=case, expected=exp, observed=res[-1][2])
        return
    blob, data, stream = unhex(case["blob"]), unhex(case["data"]), unhex(case["stream"])
    alg = OMIT if case["algorithm"] == "<omitted>" else case["algorithm"]
    canon, sent, outcome, inner = drive(blob, data, alg, stream, ctx.rng)
    ctx.count(("replay", repr(case)))
    ctx.count(("replay2", repr(case)))
    oracle_request(ctx, case, sent, blob, data, alg)
    exp = rep.get("expected")
    if rep.get("key") in ("signature-changed", "non-signature-reply-accepted") and exp is not None:
        exp = (exp[0], unhex(exp[1]))
        if outcome != exp:
            ctx.fail(rep["key"], rep["what"], case=case, expected=exp, observed=outcome)
