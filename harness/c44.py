"""C44 — an auth strategy tries sources in order and reports every failure.

Proof: coq/Props/C44_props.v over coq/Model/C44.v.
Tie: the real paramiko.auth_strategy.AuthStrategy.authenticate driven through a subclass whose
get_sources() generator yields scripted AuthSource objects; exhaustive over succeed/raise
patterns for 0..8 sources, plus random scripts (uncaught BaseExceptions, longer lists).
Search oracle: the property statement evaluated on the returned AuthResult / raised AuthFailure
and on the recorded order of generator-yield and authenticate() events.
"""
import socket

from common import coq

PID = "C44"
LEVEL_TEXT = ("Machine-checked proof (Coq, closed under the global context) over a model of "
              "AuthStrategy.authenticate (fold over the produced sources, outcomes as an oracle) that sources "
              "are called in the produced order, that the run stops at the first source that returns and lists "
              "every attempted source with its outcome, that AuthFailure is raised exactly when every source "
              "raised (also for zero sources) and carries every source with its error, with a complete case "
              "analysis including exceptions the loop does not catch; tied to auth_strategy.py by an exhaustive "
              "(lengths 0..8) and random differential run of the model against the real class on every run.")
LEVEL_NOTE = ("Trusted: Coq kernel + vm_compute; hand-written model coq/Model/C44.v validated by the "
              "correspondence run. 'Succeeds' means authenticate() returned without raising (any return value, "
              "including a non-empty list of remaining methods). Exceptions raised by get_sources() itself and "
              "logging are outside the model.")
TECHNIQUE = "Coq proof (induction over the source list) + exhaustive/random vm_compute differential correspondence"


class _CustomBase(BaseException):
    pass


def tables():
    from paramiko.ssh_exception import (AuthenticationException, SSHException, BadAuthenticationType,
                                        PasswordRequiredException, PartialAuthentication, NoValidConnectionsError)
    values = [lambda: [], lambda: ["password"], lambda: None, lambda: 0, lambda: False, lambda: "",
              lambda: "ok", lambda: ["publickey", "keyboard-interactive"]]
    excs = [lambda: AuthenticationException("Authentication failed."), lambda: SSHException("x"),
            lambda: BadAuthenticationType("bad", ["password"]), lambda: PasswordRequiredException("pw"),
            lambda: PartialAuthentication(["password"]), lambda: ValueError("v"), lambda: KeyError("k"),
            lambda: OSError(5, "io"), lambda: EOFError(), lambda: socket.timeout(), lambda: Exception(),
            lambda: RuntimeError("r"), lambda: StopIteration(), lambda: AssertionError(), lambda: AttributeError("a"),
            lambda: NoValidConnectionsError({("h", 22): OSError()}), lambda: UnicodeDecodeError("utf-8", b"\xff", 0, 1, "bad")]
    escapes = [lambda: KeyboardInterrupt(), lambda: SystemExit(3), lambda: GeneratorExit(), lambda: _CustomBase()]
    return values, excs, escapes


def drive_session(scripts):
    """scripts: list of scripts, each a list of (sid, kind, idx), kind 0 returns / 1 raises / 2 escapes.
    ONE strategy object; authenticate() is called once per script, in order.
    Returns [(canonical list, details for the oracle)] per call."""
    from paramiko.auth_strategy import AuthStrategy, AuthSource, AuthResult, AuthFailure, SourceResult
    from paramiko.config import SSHConfig
    values, excs, escapes = tables()
    state = {"trace": None, "made": None, "script": None}

    class ScriptedSource(AuthSource):
        def __init__(self, sid, kind, idx, trace):
            super().__init__(username="user")
            self.sid, self.kind, self.idx, self.trace = sid, kind, idx, trace
            self.produced = None
            self.seen_transport = None

        def authenticate(self, transport):
            self.trace.extend([2, self.sid])
            self.seen_transport = transport
            if self.kind == 0:
                self.produced = values[self.idx]()
                return self.produced
            self.produced = (excs if self.kind == 1 else escapes)[self.idx]()
            raise self.produced

    class Scripted(AuthStrategy):
        def get_sources(self):
            trace, made = state["trace"], state["made"]
            for sid, kind, idx in state["script"]:
                src = ScriptedSource(sid, kind, idx, trace)
                made.append(src)
                trace.extend([1, sid])
                yield src

    strat = Scripted(ssh_config=SSHConfig())
    out = []
    for script in scripts:
        trace, made = [], []
        state.update(trace=trace, made=made, script=script)
        transport = object()
        info = {"made": made, "strategy": strat, "transport": transport, "trace": trace}
        res = None
        try:
            res = strat.authenticate(transport)
            info["final"], info["result"] = "return", res
        except AuthFailure as e:
            info["final"], info["exc"], info["result"] = "authfailure", e, getattr(e, "result", None)
        except BaseException as e:      # noqa - observing what escapes is the point
            info["final"], info["exc"], info["result"] = "propagated", e, None
        info["AuthResult"], info["SourceResult"], info["AuthFailure"] = AuthResult, SourceResult, AuthFailure

        def canon_results(r):
            o = []
            for x in r:
                src = x.source
                o += [getattr(src, "sid", -99), getattr(src, "kind", -99), getattr(src, "idx", -99)]
            return o

        if info["final"] == "return":
            canon = [0] + canon_results(res)
        elif info["final"] == "authfailure":
            canon = [1] + (canon_results(info["result"]) if info["result"] is not None else [-98])
        else:
            e = info["exc"]
            idx = -97
            for src in made:
                if src.produced is e and src.kind == 2:
                    idx = src.idx
            canon = [2, idx]
        out.append((canon + [-1] + trace, info))
    return out


def drive(script):
    return drive_session([script])[0]


def oracle(ctx, script, info, history=()):
    """The property, stated on the real objects.  history = the scripts already run on the same strategy
    object before this call (the property holds for every call, whatever happened before)."""
    case = {"session": [[list(x) for x in h] for h in history] + [[list(x) for x in script]]}
    if history:
        case["note"] = "authenticate() call number %d on the same AuthStrategy object" % (len(history) + 1)
    made, trace = info["made"], info["trace"]
    first = next((i for i, (_, k, _) in enumerate(script) if k != 1), None)
    attempted = len(script) if first is None else first + 1
    want_trace = []
    for sid, _, _ in script[:attempted]:
        want_trace += [1, sid, 2, sid]
    if trace != want_trace:
        key = "stop-at-first-success" if len(trace) > len(want_trace) else "order"
        ctx.fail(key, "sources were not produced/called in order up to the first success and no further",
                 case=case, expected=want_trace, observed=trace)
    for s in made[:attempted]:
        if s.seen_transport is not info["transport"]:
            ctx.fail("transport-arg", "a source was not handed the transport", case=case)
    res = info["result"]

    def listed_ok(res, n):
        if not isinstance(res, info["AuthResult"]) or res.strategy is not info["strategy"] or len(res) != n:
            return False
        for x, s in zip(res, made):
            if not isinstance(x, info["SourceResult"]) or x.source is not s or x.result is not s.produced:
                return False
        return True

    if first is not None and script[first][1] == 0:
        if info["final"] != "return":
            ctx.fail("stop-at-first-success", "a source succeeded but authenticate did not return a result",
                     case=case, expected="return", observed=info["final"])
        elif not listed_ok(res, attempted):
            ctx.fail("result-lists-all", "the returned result does not list each attempted source with its outcome",
                     case=case, expected=attempted, observed=repr(res)[:300])
    elif first is None:
        if info["final"] != "authfailure" or type(info["exc"]) is not info["AuthFailure"]:
            ctx.fail("failure-raises-authfailure", "no source succeeded but AuthFailure was not raised",
                     case=case, expected="AuthFailure", observed=info["final"])
        elif not listed_ok(res, len(script)):
            ctx.fail("failure-carries-all", "AuthFailure.result does not carry every attempted source with its error",
                     case=case, expected=len(script), observed=repr(res)[:300])
    else:
        if (info["final"] != "propagated" or first >= len(made)
                or info["exc"] is not made[first].produced):
            ctx.fail("escape", "a non-Exception BaseException raised by a source did not propagate unchanged",
                     case=case, observed=info["final"])


def coq_script(script):
    ctor = {0: "Returns", 1: "Raises", 2: "Escapes"}
    return "[" + ";".join("(%s, %s %d)" % (coq(sid), ctor[k], i) for sid, k, i in script) + "]"


def run(ctx):
    rng = ctx.rng
    scale = 6 if ctx.thorough else 1
    values, excs, escapes = tables()
    ctx.rule = ("exhaustive: every succeed/raise pattern of 0..8 sources (511 scripts; return values and "
                "exception classes assigned by a fixed rotation over %d values / %d Exception classes); plus "
                "seeded random scripts of 0..14 sources with uncaught BaseExceptions (%d kinds), repeated source "
                "ids and random values; plus sessions of 2..4 authenticate() calls on ONE strategy object (all "
                "ordered pairs of 10 representative scripts + random sessions), every call checked. "
                "Non-trivial = distinct script with at least one source"
                % (len(values), len(excs), len(escapes)))
    ctx.trusted += ["model coq/Model/C44.v is hand-written; tied to AuthStrategy.authenticate by this run",
                    "exceptions raised inside get_sources() itself, and logging, are not modelled"]
    ctx.prove()
    cases = []

    def one(script, kind):
        canon, info = drive(script)
        oracle(ctx, script, info)
        cases.append((script, canon))
        ctx.count(("script", script), nontrivial=len(script) > 0, kind=kind)

    for n in range(0, 9):
        for pat in range(2 ** n):
            script = []
            for pos in range(n):
                ok = (pat >> pos) & 1
                if ok:
                    script.append((10 + pos, 0, (pat + 3 * pos) % len(values)))
                else:
                    script.append((10 + pos, 1, (5 * pat + 7 * pos + n) % len(excs)))
            one(script, "exhaustive-len%d" % n)
    ctx.exhaustive = True
    for _ in range(250 * scale):
        n = rng.choice([0, 1, 2, 3, 5, 8, 9, 14, rng.randrange(0, 15)])
        p_ok = rng.choice([0.0, 0.1, 0.3])
        p_esc = rng.choice([0.0, 0.1, 0.3])
        script = []
        for pos in range(n):
            u = rng.random()
            sid = rng.choice([pos, rng.randrange(0, 4), 100 + pos])
            if u < p_ok:
                script.append((sid, 0, rng.randrange(len(values))))
            elif u < p_ok + p_esc:
                script.append((sid, 2, rng.randrange(len(escapes))))
            else:
                script.append((sid, 1, rng.randrange(len(excs))))
        one(script, "random")

    # ---- several authenticate() calls on ONE strategy object -------------------------
    def session(scripts, kind):
        res = drive_session(scripts)
        for i, (canon, info) in enumerate(res):
            oracle(ctx, scripts[i], info, history=scripts[:i])
            cases.append((scripts[i], canon))
            ctx.count(("session", tuple(map(tuple, scripts[:i + 1]))), nontrivial=len(scripts[i]) > 0,
                      kind=kind + ("-first" if i == 0 else "-later"))

    rep = [[], [(1, 0, 0)], [(1, 1, 0)], [(1, 1, 5), (2, 1, 1)], [(1, 1, 2), (2, 0, 1), (3, 1, 0)],
           [(1, 0, 2), (2, 1, 0)], [(1, 1, 0), (2, 1, 3), (3, 0, 4)], [(1, 2, 0)], [(1, 1, 1), (2, 2, 1), (3, 0, 0)],
           [(1, 1, 4), (2, 1, 6), (3, 1, 9)]]
    for a in rep:
        for b in rep:
            session([a, b], "session-pair")
    for _ in range(60 * scale):
        scripts = []
        for _k in range(rng.randrange(2, 5)):
            sc = []
            for pos in range(rng.randrange(0, 5)):
                u = rng.random()
                sc.append((pos, 0, rng.randrange(len(values))) if u < 0.25 else
                          (pos, 2, rng.randrange(len(escapes))) if u < 0.32 else (pos, 1, rng.randrange(len(excs))))
            scripts.append(sc)
        session(scripts, "session-random")
    bad = ctx.model_mismatches("run_auth", "(list source)", [(coq_script(s), c) for s, c in cases])
    for i in bad[:3]:
        ctx.disagree("AuthStrategy.authenticate differs from the model", case={"script": [list(x) for x in cases[i][0]]},
                     impl=cases[i][1])
    ctx.sample({"script": [list(x) for x in cases[300][0]], "impl": cases[300][1]})
    ctx.sample({"script": [], "impl": cases[0][1], "note": "no sources: AuthFailure with an empty result"})
    ctx.notes.append("length 0: get_sources() yields nothing -> AuthFailure whose result is an empty AuthResult")


def replay(ctx, rep):
    case = rep["case"]
    scripts = [[tuple(x) for x in sc] for sc in (case["session"] if "session" in case else [case["script"]])]
    res = drive_session(scripts)
    ctx.count(("replay", repr(scripts)))
    ctx.count(("replay2", repr(scripts)))
    for i, (canon, info) in enumerate(res):
        oracle(ctx, scripts[i], info, history=scripts[:i])
