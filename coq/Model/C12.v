(* C12 - model of the message dispatch ladder of paramiko/transport.py Transport.run
   (the body of `while self.active:` after a packet was read), over the handler-table
   key sets and MSG_NAMES regenerated from the working tree (Gen/C12_gen.v).
   Definitions only; proofs are in Proofs/C12_proofs.v.

   State after the handshake (initial_kex_done = True, so _enforce_strict_kex never raises).
   Handlers themselves are not modelled: a handled type yields the name of the table that
   takes it.  The payload of the packet is not an input of `dispatch`: the fallback branch
   never reads it (checked on the real code with random payloads on every run). *)
From PV Require Import Bytes C12_gen.
Open Scope Z_scope.

Definition mem (x : Z) (l : list Z) : bool := existsb (Z.eqb x) l.

(* which object is installed as transport.auth_handler *)
Inductive ah_kind := AHNone | AHPlain | AHAuthOnly | AHGss.

Record state := mkState {
  server_mode : bool;
  authed : bool;            (* is_authenticated() *)
  ah : ah_kind;
  srt : bool;               (* ServiceRequestingTransport (adds SERVICE_ACCEPT to its table) *)
  rekey : bool;             (* own KEXINIT of a re-key sent, peer's not yet received: in_kex is set,
                               clear_to_send is cleared, _expected_packet is still empty *)
  expected : list Z         (* self._expected_packet *)
}.

Definition transport_table (st : state) : list Z :=
  if srt st then srt_handler_table else transport_handler_table.

(* AuthHandler._handler_table is a property that looks at transport.server_mode *)
Definition auth_table (st : state) : list Z :=
  match ah st with
  | AHNone => []
  | AHPlain => if server_mode st then auth_server_table else auth_client_table
  | AHAuthOnly => if server_mode st then authonly_server_table else authonly_client_table
  | AHGss => gss_table
  end.

Inductive outcome :=
  | Skip                          (* `continue`: MSG_IGNORE, MSG_DEBUG *)
  | Stop                          (* MSG_DISCONNECT: `break` *)
  | Die (e : exn)                 (* exception leaves the loop: transport dies *)
  | KexStep                       (* kex_engine.parse_next *)
  | Gated (p : Z)                 (* _ensure_authed produced an error message (C15's subject) *)
  | TransportHandler (p : Z)
  | ChannelHandler (p : Z)
  | AuthHandlerCall (p : Z)
  | Fallback (reply : option (list Z)).   (* the message sent, if any *)

(* _ensure_authed returns a reply instead of None *)
Definition ensure_authed_blocks (st : state) (p : Z) : bool :=
  negb (negb (server_mode st) || (p <=? HIGHEST_USERAUTH_MESSAGE_ID) || authed st).

(* name = MSG_NAMES[ptype]   or   name = MSG_NAMES.get(ptype, default) *)
Definition name_of (p : Z) : result unit :=
  if mem p msg_names then Ok tt
  else if name_lookup_strict then Raise KeyErr else Ok tt.

(* the `else:` branch: log, then unless ptype is UNIMPLEMENTED send
   byte(UNIMPLEMENTED) ++ uint32(m.seqno) *)
(* `blocked`: the reply is sent with _send_user_message while clear_to_send is cleared; the only
   thread that could set it again is the one that is waiting: after clear_to_send_timeout it raises
   SSHException("Key-exchange timed out ...") and the transport dies without having replied *)
Definition fallback (blocked : bool) (p seq : Z) : outcome :=
  match name_of p with
  | Raise e => Die e
  | Ok _ =>
      if negb (p =? MSG_UNIMPLEMENTED) then
        if (0 <=? seq) && (seq <? 2 ^ 32)
        then if blocked then Die SSHExc
             else Fallback (Some (MSG_UNIMPLEMENTED :: be_encode 4 seq))
        else Die StructErr
      else Fallback None
  end.

Definition send_blocked (st_rekey : bool) : bool := fallback_send_blocking && st_rekey.

(* the fallback as it was before the repair (`name = MSG_NAMES[ptype]`), kept to document the defect *)
Definition fallback_v0 (p seq : Z) : outcome :=
  if mem p msg_names then fallback false p seq else Die KeyErr.

Definition ladder (st : state) (p seq : Z) : outcome :=
  if mem p (transport_table st) then
    if ensure_authed_blocks st p then Gated p else TransportHandler p
  else if mem p channel_handler_table then ChannelHandler p
  else if mem p (auth_table st) then AuthHandlerCall p   (* auth_handler is None: empty table *)
  else fallback (send_blocked (rekey st)) p seq.

(* the generated `if ptype == MSG_X: ... continue / break` chain at the top of the loop
   (IGNORE, DISCONNECT, DEBUG in the current source) *)
Fixpoint prelude_lookup (br : list (Z * bool)) (p : Z) : option bool :=
  match br with
  | [] => None
  | (t, stops) :: r => if p =? t then Some stops else prelude_lookup r p
  end.

Definition dispatch (st : state) (p seq : Z) : outcome :=
  match prelude_lookup prelude p with
  | Some true => Stop
  | Some false => Skip
  | None =>
      match expected st with
      | [] => ladder st p seq
      | _ :: _ =>
          if negb (mem p (expected st)) then Die SSHExc
          else if (KEX_LO <=? p) && (p <=? KEX_HI) then KexStep
          else ladder st p seq        (* _expected_packet was reset to () *)
      end
  end.

(* Packetizer.read_message comes first: an unguarded MSG_NAMES[cmd] there (whatever switch - packet
   hexdump logging, a log level - its code path hangs on) raises KeyError in the transport thread for a
   type without a name, before the ladder is reached *)
Definition reader_ok (p : Z) : bool := negb reader_lookup_strict || mem p msg_names.

Definition receive (st : state) (p seq : Z) : outcome :=
  if reader_ok p then dispatch st p seq else Die KeyErr.

(* the transport is still running its loop afterwards *)
Definition alive (o : outcome) : bool :=
  match o with Die _ | Stop => false | _ => true end.

(* ---- what "no handler in the current role and state" means (independent of dispatch) ---- *)
Definition special (p : Z) : bool := mem p (map fst prelude).

Definition unhandled (st : state) (p : Z) : bool :=
  negb (special p) && negb (mem p (transport_table st)) && negb (mem p channel_handler_table)
  && negb (mem p (auth_table st)).

(* ---- messages that only ever travel in one direction (RFC 4253 section 10, RFC 4252, RFC 4256):
   a client never has to serve SERVICE_REQUEST / USERAUTH_REQUEST / USERAUTH_INFO_RESPONSE, a server never
   has to take SERVICE_ACCEPT / USERAUTH_FAILURE / SUCCESS / BANNER / INFO_REQUEST.  Whatever table a handler
   lives in, these must stay without a handler in the role that never receives them legitimately. ---- *)
Definition client_to_server_only : list Z :=
  [MSG_SERVICE_REQUEST; MSG_USERAUTH_REQUEST; MSG_USERAUTH_INFO_RESPONSE].
Definition server_to_client_only : list Z :=
  [MSG_SERVICE_ACCEPT; MSG_USERAUTH_FAILURE; MSG_USERAUTH_SUCCESS; MSG_USERAUTH_BANNER; MSG_USERAUTH_INFO_REQUEST].

(* ---- a stream of packets: the receive sequence number advances by one per packet ---- *)
Definition next_seq (s : Z) : Z := (s + 1) mod 2 ^ 32.

(* replies sent and whether the loop is still running; a packet that is taken by a handler
   ends the modelled run (handlers are outside this model): (_, false) *)
Fixpoint run_stream (st : state) (seq : Z) (pkts : list Z) : list (list Z) * bool :=
  match pkts with
  | [] => ([], true)
  | p :: r =>
      match receive st p seq with
      | Fallback rep =>
          let '(out, a) := run_stream st (next_seq seq) r in
          (match rep with Some m => m :: out | None => out end, a)
      | _ => ([], false)
      end
  end.

(* expected replies for a stream of unhandled types starting at seq *)
Fixpoint expected_replies (seq : Z) (pkts : list Z) : list (list Z) :=
  match pkts with
  | [] => []
  | p :: r =>
      (if p =? MSG_UNIMPLEMENTED then [] else [MSG_UNIMPLEMENTED :: be_encode 4 seq])
      ++ expected_replies (next_seq seq) r
  end.

Definition types256 : list Z := map Z.of_nat (seq 0 256).

(* ---- canonical encodings for the correspondence run ---- *)
Definition canon_outcome (o : outcome) : list Z :=
  match o with
  | Skip => [20]
  | Stop => [21]
  | Die e => [0; exn_code e]
  | KexStep => [22]
  | Gated p => [23; p]
  | TransportHandler p => [10; p]
  | ChannelHandler p => [11; p]
  | AuthHandlerCall p => [12; p]
  | Fallback (Some m) => 1 :: m
  | Fallback None => [2]
  end.

Definition ah_of_code (c : Z) : ah_kind :=
  if c =? 0 then AHNone else if c =? 1 then AHPlain else if c =? 2 then AHAuthOnly else AHGss.

(* (server_mode, authed, ah code, srt, rekey, ptype, seqno) *)
Definition run_dispatch (c : bool * bool * Z * bool * bool * Z * Z) : list Z :=
  let '(sm, au, a, s, rk, p, sq) := c in
  canon_outcome (receive (mkState sm au (ah_of_code a) s rk []) p sq).

(* the set of unhandled types of a state, for the harness to sweep *)
Definition run_unhandled (c : bool * bool * Z * bool) : list Z :=
  let '(sm, au, a, s) := c in
  filter (unhandled (mkState sm au (ah_of_code a) s false [])) types256.

(* (server_mode, authed, ah code, srt, first seqno, ptypes): the replies, flattened, then alive *)
Definition run_stream_case (c : bool * bool * Z * bool * bool * Z * list Z) : list Z :=
  let '(sm, au, a, s, rk, sq, pkts) := c in
  let '(out, al) := run_stream (mkState sm au (ah_of_code a) s rk []) sq pkts in
  concat out ++ [if al then 1 else 0].
