(* C31 — SFTP attribute changes have their local-filesystem meaning.
   Property statements only; every proof is `exact <lemma from Proofs/C31_proofs.v>`. *)
From PV Require Import Bytes C31_gen C31 C31_proofs.
Open Scope Z_scope.

(* chmod / chown / utime / truncate requests (by path: setstat, by handle: fsetstat; both run
   set_file_attr) have exactly the effect of the corresponding os.* call on the served file *)
Theorem C31_chmod : forall now f m, set_file_attr now f (req_chmod m) = os_chmod f m.
Proof. exact chmod_spec. Qed.
Print Assumptions C31_chmod.

Theorem C31_chown : forall now f u g, set_file_attr now f (req_chown u g) = os_chown f u g.
Proof. exact chown_spec. Qed.
Print Assumptions C31_chown.

Theorem C31_utime : forall now f t1 t2, set_file_attr now f (req_utime t1 t2) = os_utime f t1 t2.
Proof. exact utime_spec. Qed.
Print Assumptions C31_utime.

Theorem C31_truncate : forall now f n, set_file_attr now f (req_truncate n) = os_truncate now f n.
Proof. exact truncate_spec. Qed.
Print Assumptions C31_truncate.

(* truncating keeps the leading bytes, extending pads with zeros *)
Theorem C31_truncate_keeps_prefix :
  forall now f n,
  0 <= n ->
  let d := f_data f in
  let d' := f_data (set_file_attr now f (req_truncate n)) in
  d' = firstn (Z.to_nat n) d ++ repeat 0 (Z.to_nat n - length d) /\
  Z.of_nat (length d') = n /\
  (forall i, (i < Z.to_nat n)%nat -> (i < length d)%nat -> nth i d' 0 = nth i d 0) /\
  (forall i, (length d <= i)%nat -> nth i d' 0 = 0) /\
  (n <= Z.of_nat (length d) -> d' = firstn (Z.to_nat n) d) /\
  (Z.of_nat (length d) <= n -> d' = d ++ repeat 0 (Z.to_nat n - length d)).
Proof. exact truncate_keeps_prefix. Qed.
Print Assumptions C31_truncate_keeps_prefix.

Theorem C31_truncate_rest_unchanged :
  forall now f n,
  let f' := set_file_attr now f (req_truncate n) in
  f_mode f' = f_mode f /\ f_uid f' = f_uid f /\ f_gid f' = f_gid f /\ f_atime f' = f_atime f.
Proof. exact truncate_rest_unchanged. Qed.
Print Assumptions C31_truncate_rest_unchanged.

(* any attribute record (any combination of flags), field by field.  Note the order of the
   source's steps: a request carrying both times and a size ends with mtime = time of the resize. *)
Theorem C31_fields :
  forall now f a,
  let f' := set_file_attr now f a in
  f_data f' = (if has a FLAG_SIZE then resize (f_data f) (a_size a) else f_data f) /\
  f_mode f' = (if has a FLAG_PERMISSIONS then Z.land (a_mode a) 4095 else f_mode f) /\
  f_uid f' = (if has a FLAG_UIDGID then a_uid a else f_uid f) /\
  f_gid f' = (if has a FLAG_UIDGID then a_gid a else f_gid f) /\
  f_atime f' = (if has a FLAG_AMTIME then a_atime a else f_atime f) /\
  f_mtime f' = (if has a FLAG_SIZE then now
                else if has a FLAG_AMTIME then a_mtime a else f_mtime f).
Proof. exact fields. Qed.
Print Assumptions C31_fields.

(* steps that were not requested leave their fields unchanged *)
Theorem C31_unrequested_unchanged :
  forall now f a,
  let f' := set_file_attr now f a in
  (has a FLAG_SIZE = false -> f_data f' = f_data f) /\
  (has a FLAG_PERMISSIONS = false -> f_mode f' = f_mode f) /\
  (has a FLAG_UIDGID = false -> f_uid f' = f_uid f /\ f_gid f' = f_gid f) /\
  (has a FLAG_AMTIME = false -> f_atime f' = f_atime f) /\
  (has a FLAG_AMTIME = false -> has a FLAG_SIZE = false -> f_mtime f' = f_mtime f).
Proof. exact unrequested_unchanged. Qed.
Print Assumptions C31_unrequested_unchanged.

Theorem C31_by_handle_same : forall now f a, fsetstat now f a = setstat now f a.
Proof. exact by_handle_same. Qed.
Print Assumptions C31_by_handle_same.

(* sequences: any list of chmod/chown/utime/truncate requests (by path or by handle), interleaved
   with arbitrary other changes g : file -> file (writes, touches by other processes), has the
   effect of the corresponding sequence of os.* calls - a request never repeats an earlier one *)
Theorem C31_sequence : forall evs f, fold_left sftp_event evs f = fold_left os_event evs f.
Proof. exact sequence_spec. Qed.
Print Assumptions C31_sequence.

Theorem C31_later_request_independent :
  forall now1 f n now2 at2 off b m,
  let f1 := fsetstat now1 f (req_truncate n) in
  let f2 := env_write at2 now2 f1 off b in
  let f3 := fsetstat 0 f2 (req_chmod m) in
  f_data f3 = f_data f2 /\ f_mtime f3 = f_mtime f2 /\ f_atime f3 = f_atime f2.
Proof. exact later_request_independent. Qed.
Print Assumptions C31_later_request_independent.

(* every kind of target: a regular file (also when named through a symbolic link - the os.* calls
   follow links, the link itself is not a node of the model), a directory, a missing name (also a
   dangling link, a name under a missing directory, a name removed since the handle was opened):
   new state AND status of the request equal those of the os.* call *)
Theorem C31_node_chmod : forall now n m, set_node_attr now n (req_chmod m) = os_chmod_node n m.
Proof. exact node_chmod. Qed.
Print Assumptions C31_node_chmod.
Theorem C31_node_chown : forall now n u g, set_node_attr now n (req_chown u g) = os_chown_node n u g.
Proof. exact node_chown. Qed.
Print Assumptions C31_node_chown.
Theorem C31_node_utime : forall now n t1 t2, set_node_attr now n (req_utime t1 t2) = os_utime_node n t1 t2.
Proof. exact node_utime. Qed.
Print Assumptions C31_node_utime.
Theorem C31_node_truncate : forall now n k, set_node_attr now n (req_truncate k) = os_truncate_node now n k.
Proof. exact node_truncate. Qed.
Print Assumptions C31_node_truncate.

(* success is only reported when every requested step was applied *)
Theorem C31_ok_only_if_applied :
  forall now n a n',
  set_node_attr now n a = (n', SFTP_OK) ->
  match n with
  | NFile f => n' = NFile (set_file_attr now f a)
  | NDir f => has a FLAG_SIZE = false /\ n' = NDir (step_utime a (step_chown a (step_chmod a f)))
  | NMissing => any_step a = false
  end.
Proof. exact ok_only_if_applied. Qed.
Print Assumptions C31_ok_only_if_applied.

(* the handle table of a session: in every reachable state a new handle name is fresh, and a live
   handle keeps naming the file it was opened on whatever else is opened or closed meanwhile - so an
   FSETSTAT through it reaches that file (sessions have separate tables) *)
Theorem C31_handle_fresh :
  forall ops fid, let t := fold_left ht_step ops ht_new in
  ht_lookup t (ht_next t) = None /\ ht_lookup (ht_open t fid) (ht_next t) = Some fid.
Proof. exact handle_fresh_reachable. Qed.
Print Assumptions C31_handle_fresh.

Theorem C31_handle_stable :
  forall ops0 ops h fid, let t := fold_left ht_step ops0 ht_new in
  ht_lookup t h = Some fid -> ~ In (HClose h) ops ->
  ht_lookup (fold_left ht_step ops t) h = Some fid.
Proof. exact handle_stable_reachable. Qed.
Print Assumptions C31_handle_stable.

(* tie to the source: the flag bits and the list of steps (flag tested, call made, order, open mode
   of the resize) regenerated from paramiko's AST on this run are the ones modelled *)
Theorem C31_source_steps : gen_steps = modelled_steps.
Proof. exact steps_as_modelled. Qed.
Print Assumptions C31_source_steps.

Theorem C31_flag_bits_distinct :
  Z.land FLAG_SIZE FLAG_UIDGID = 0 /\ Z.land FLAG_SIZE FLAG_PERMISSIONS = 0 /\ Z.land FLAG_SIZE FLAG_AMTIME = 0 /\
  Z.land FLAG_UIDGID FLAG_PERMISSIONS = 0 /\ Z.land FLAG_UIDGID FLAG_AMTIME = 0 /\
  Z.land FLAG_PERMISSIONS FLAG_AMTIME = 0 /\
  0 < FLAG_SIZE /\ 0 < FLAG_UIDGID /\ 0 < FLAG_PERMISSIONS /\ 0 < FLAG_AMTIME.
Proof. exact flag_bits_distinct. Qed.
Print Assumptions C31_flag_bits_distinct.

(* what the repair removed: with open(filename, "w+") the resized file is all zeros,
   so the leading bytes are lost (this is what the harness oracle guards against) *)
Theorem C31_wplus_all_zero :
  forall now f n, f_data (set_file_attr_wplus now f (req_truncate n)) = repeat 0 (Z.to_nat n).
Proof. exact wplus_all_zero. Qed.
Print Assumptions C31_wplus_all_zero.

Theorem C31_wplus_refuted :
  exists now f n, 0 <= n <= Z.of_nat (length (f_data f)) /\
    f_data (set_file_attr_wplus now f (req_truncate n)) <> firstn (Z.to_nat n) (f_data f).
Proof. exact wplus_loses_data. Qed.
Print Assumptions C31_wplus_refuted.

(* non-vacuity: a concrete file, shrunk and extended *)
Example C31_example :
  f_data (set_file_attr 99 (mkfile [1; 2; 3; 4; 5] 420 0 0 10 20) (req_truncate 3)) = [1; 2; 3] /\
  f_data (set_file_attr 99 (mkfile [1; 2; 3] 420 0 0 10 20) (req_truncate 6)) = [1; 2; 3; 0; 0; 0] /\
  set_file_attr 99 (mkfile [1; 2; 3] 420 0 0 10 20) (mk_attrs (Some 2) None (Some 33261) (Some (5, 6)))
    = mkfile [1; 2] 493 0 0 5 99.
Proof. repeat split. Qed.
