(* C37 — proofs over Model/C37.v *)
From Coq Require Import ZArith List Bool Lia ZifyBool.
From PV Require Import Bytes C39 C37.
Import ListNotations.
Open Scope Z_scope.

(* the only outcomes C37 allows *)
Definition allowed {A} (r : result A) : Prop :=
  match r with Ok _ => True | Raise e => e = SSHExc \/ e = PasswordRequired end.

Lemma allowed_bind {A B} (r : result A) (f : A -> result B) :
  allowed r -> (forall a, allowed (f a)) -> allowed (bind r f).
Proof. destruct r as [a|e]; cbn; auto. Qed.

Ltac al :=
  repeat first
    [ exact I
    | solve [auto with al]
    | match goal with
      | |- allowed (Raise SSHExc) => left; reflexivity
      | |- allowed (Raise PasswordRequired) => right; reflexivity
      | |- allowed (Ok _) => exact I
      | |- allowed (bind _ _) => apply allowed_bind; [ | intros ? ]
      | |- allowed (let '(_, _) := ?x in _) => destruct x
      | |- allowed (if ?c then _ else _) => destruct c
      | |- allowed (match ?x with _ => _ end) => destruct x
      end ].

Section P.
  Variable b64 : list Z -> option (list Z).
  Variable utf8_ok : list Z -> bool.
  Variable pem_decrypt : list Z -> list Z -> list Z -> list Z -> dres.
  Variable ossh_decrypt : list Z -> list Z -> list Z -> Z -> list Z -> dres.
  Variable ed_cipher_known : list Z -> bool.
  Variable ed_decrypt : list Z -> list Z -> list Z -> Z -> list Z -> dres.
  Variable pk_of_seed : list Z -> list Z.
  Variable der_load : list Z -> derres.
  Variable rsa_numbers_ok : Z -> Z -> Z -> Z -> Z -> Z -> bool.
  Variable ec_derive_ok : list Z -> bool.
  Variable readlines : list Z -> option (list (list Z)).

  (* the libraries raise only what they document (ValueError and subclasses on bad input) *)
  Hypothesis Hpem : forall a b c d k, pem_decrypt a b c d <> DOther k.
  Hypothesis Hossh : forall a b c r d k, ossh_decrypt a b c r d <> DOther k.
  Hypothesis Hed : forall a b c r d k, ed_decrypt a b c r d <> DOther k.
  Hypothesis Hder : forall x k, der_load x <> DerOther k.

  Lemma al_unpad d : allowed (unpad_openssh d).
  Proof. unfold unpad_openssh. al. Qed.

  Lemma al_cs_u d : allowed (cs_u d).
  Proof. unfold cs_u. al. Qed.
  Hint Resolve al_unpad al_cs_u : al.

  Lemma al_cs_s d : allowed (cs_s d).
  Proof. unfold cs_s. al. Qed.
  Hint Resolve al_cs_s : al.

  Lemma al_cs_i d : allowed (cs_i d).
  Proof. unfold cs_i. al. Qed.
  Hint Resolve al_cs_i : al.

  Lemma al_dres r : (forall k, r <> DOther k) -> allowed (of_dres r).
  Proof. intros H. destruct r; cbn; auto. exfalso. apply (H k). reflexivity. Qed.

  Lemma al_openssh lines pw : allowed (read_openssh b64 ossh_decrypt lines pw).
  Proof.
    unfold read_openssh.
    destruct (b64 (join lines)); [|al].
    destruct (negb (zlist_eqb (firstn 15 l) s_magic)); [al|].
    apply allowed_bind; [al|intros [cipher d1]].
    apply allowed_bind; [al|intros [kdfname d2]].
    apply allowed_bind; [al|intros [kdfopts d3]].
    apply allowed_bind; [al|intros [npub remainder]].
    destruct (1 <? npub); [al|].
    apply allowed_bind; [al|intros [pubkey r1]].
    apply allowed_bind; [al|intros [blob r2]].
    apply allowed_bind.
    - destruct (zlist_eqb kdfname s_bcrypt).
      + destruct (negb (zlist_eqb cipher s_aes256_cbc || zlist_eqb cipher s_aes256_ctr)); [al|].
        destruct pw as [p|]; [|al].
        apply allowed_bind; [al|intros [salt k1]].
        apply allowed_bind; [al|intros [rounds k2]].
        apply al_dres. intros k. apply Hossh.
      + al.
    - intros dec.
      apply allowed_bind; [al|intros [c1 e1]].
      apply allowed_bind; [al|intros [c2 e2]].
      apply allowed_bind; [al|intros [keytype keydata]].
      al.
  Qed.

  Lemma al_pem lines e pw : allowed (read_pem b64 pem_decrypt lines e pw).
  Proof.
    unfold read_pem.
    destruct (header_loop (skipn 1 lines) 1 []) as [headers start].
    destruct (b64 (join (slice start e lines))); [|al].
    destruct (hget s_proc_type headers); [|al].
    destruct (negb (zlist_eqb l0 s_4enc)); [al|].
    destruct (hget s_dek_info headers) as [dek|]; [|al].
    destruct (split_comma dek) as [|etype [|salt [|x r]]]; try solve [al].
    destruct (negb (existsb (zlist_eqb etype) cipher_table)); [al|].
    destruct pw as [p|]; [|al].
    apply al_dres. intros k. apply Hpem.
  Qed.

  Lemma al_read_private_key t lines pw :
    allowed (read_private_key b64 pem_decrypt ossh_decrypt t lines pw).
  Proof.
    unfold read_private_key.
    destruct lines as [|l0 ls]; [al|].
    destruct (first_match (match_tag s_begin) (l0 :: ls) 0) as [[i keytype]|]; [|al].
    destruct (length (l0 :: ls) <=? S i)%nat; [al|].
    destruct (tag_eqb keytype t).
    - apply allowed_bind; [apply al_pem|intros; exact I].
    - destruct (tag_eqb keytype TOPENSSH); [|al].
      apply allowed_bind; [apply al_openssh|intros; exact I].
  Qed.

  Lemma al_rsa_decode fd : allowed (rsa_decode der_load rsa_numbers_ok fd).
  Proof.
    unfold rsa_decode. destruct fd as [[|] data].
    - destruct (der_load data) as [|cv| | |k] eqn:E; try solve [al]. exfalso. apply (Hder data k). exact E.
    - apply allowed_bind; [al|intros [n d1]].
      apply allowed_bind; [al|intros [e d2]].
      apply allowed_bind; [al|intros [d d3]].
      apply allowed_bind; [al|intros [iqmp d4]].
      apply allowed_bind; [al|intros [p d5]].
      apply allowed_bind; [al|intros [q d6]].
      al.
  Qed.

  Lemma al_ecdsa_decode fd : allowed (ecdsa_decode der_load ec_derive_ok fd).
  Proof.
    unfold ecdsa_decode. destruct fd as [[|] data].
    - destruct (der_load data) as [|cv| | |k] eqn:E; try solve [al].
      exfalso. apply (Hder data k). exact E.
    - al.
  Qed.

  Lemma al_m_text buf pos : allowed (m_text utf8_ok buf pos).
  Proof. unfold m_text. al. Qed.
  Hint Resolve al_m_text : al.

  Lemma al_pub_loop n : forall buf pos, allowed (ed_pub_loop utf8_ok n buf pos).
  Proof.
    induction n as [|n IH]; intros buf pos; cbn [ed_pub_loop]; [exact I|].
    destruct (get_string buf pos) as [pkm p1].
    apply allowed_bind; [al|intros [nm q]].
    destruct (negb (zlist_eqb nm s_ed25519)); [al|].
    destruct (get_string pkm q) as [pk p2].
    apply allowed_bind; [apply IH|intros [l pe]; exact I].
  Qed.

  Lemma al_priv_loop n : forall pubs buf pos, allowed (ed_priv_loop utf8_ok pk_of_seed n pubs buf pos).
  Proof.
    induction n as [|n IH]; intros pubs buf pos; cbn [ed_priv_loop]; [exact I|].
    apply allowed_bind; [al|intros [nm p1]].
    destruct (negb (zlist_eqb nm s_ed25519)); [al|].
    destruct (get_string buf p1) as [public p2].
    destruct (get_string buf p2) as [key_data p3].
    destruct (negb (Nat.eqb (length (firstn 32 key_data)) 32)); [al|].
    destruct pubs as [|pk0 pubs']; [al|].
    destruct (negb (zlist_eqb (pk_of_seed (firstn 32 key_data)) public && zlist_eqb public pk0 &&
                    zlist_eqb pk0 (skipn 32 key_data))); [al|].
    destruct (get_string buf p3) as [c p4].
    apply allowed_bind; [apply IH|intros; exact I].
  Qed.

  Lemma al_ed_parse data pw :
    allowed (ed_parse utf8_ok ed_cipher_known ed_decrypt pk_of_seed data pw).
  Proof.
    unfold ed_parse.
    destruct (get_bytes data 0 15) as [magic p0].
    destruct (negb (zlist_eqb magic s_magic)); [al|].
    apply allowed_bind; [al|intros [ciphername p1]].
    apply allowed_bind; [al|intros [kdfname p2]].
    destruct (get_string data p2) as [kdfoptions p3].
    destruct (get_int data p3) as [num_keys p4].
    apply allowed_bind.
    - destruct (zlist_eqb kdfname s_none); [al|].
      destruct (zlist_eqb kdfname s_bcrypt); [|al].
      destruct pw as [[|c r]|]; al.
    - intros [salt rounds].
      destruct (negb (zlist_eqb ciphername s_none) && negb (ed_cipher_known ciphername)); [al|].
      apply allowed_bind; [apply al_pub_loop|intros [pubs p5]].
      destruct (get_string data p5) as [ciphertext p6].
      apply allowed_bind.
      + destruct (zlist_eqb ciphername s_none); [exact I|]. apply al_dres. intros k. apply Hed.
      + intros private_data.
        apply allowed_bind; [al|intros msg].
        destruct (get_int msg 0) as [c1 q1]. destruct (get_int msg q1) as [c2 q2].
        destruct (negb (c1 =? c2)); [al|].
        apply allowed_bind; [apply al_priv_loop|intros seeds].
        destruct seeds as [|s [|s2 r]]; al.
  Qed.

  Lemma only_sshexc file pw :
    allowed (load_rsa b64 pem_decrypt ossh_decrypt der_load rsa_numbers_ok readlines file pw) /\
    allowed (load_ecdsa b64 pem_decrypt ossh_decrypt der_load ec_derive_ok readlines file pw) /\
    allowed (load_ed25519 b64 utf8_ok pem_decrypt ossh_decrypt ed_cipher_known ed_decrypt pk_of_seed readlines file pw).
  Proof.
    unfold load_rsa, load_ecdsa, load_ed25519.
    destruct (readlines file) as [lines|]; [|repeat split; al].
    repeat split.
    - apply allowed_bind; [apply al_read_private_key|intros; apply al_rsa_decode].
    - apply allowed_bind; [apply al_read_private_key|intros; apply al_ecdsa_decode].
    - apply allowed_bind; [apply al_read_private_key|intros [f d]; apply al_ed_parse].
  Qed.

  (* an Ed25519 key that loads has matching halves: the seed is 32 bytes and the public key derived from
     it is the one the file states (in the private section, the public section and the key data tail) *)
  Lemma priv_loop_agree n : forall pubs buf pos seeds,
    ed_priv_loop utf8_ok pk_of_seed n pubs buf pos = Ok seeds ->
    length seeds = n /\
    forall i seed, nth_error seeds i = Some seed ->
      length seed = 32%nat /\ nth_error pubs i = Some (pk_of_seed seed).
  Proof.
    induction n as [|n IH]; intros pubs buf pos seeds H; cbn [ed_priv_loop] in H.
    - injection H as <-. split; [reflexivity|]. intros [|i] seed Hn; discriminate.
    - destruct (m_text utf8_ok buf pos) as [[nm p1]|]; [|discriminate]. cbn [bind] in H.
      destruct (negb (zlist_eqb nm s_ed25519)); [discriminate|].
      destruct (get_string buf p1) as [public p2].
      destruct (get_string buf p2) as [key_data p3].
      destruct (negb (Nat.eqb (length (firstn 32 key_data)) 32)) eqn:El; [discriminate|].
      destruct pubs as [|pk0 pubs']; [discriminate|].
      destruct (negb (zlist_eqb (pk_of_seed (firstn 32 key_data)) public && zlist_eqb public pk0 &&
                      zlist_eqb pk0 (skipn 32 key_data))) eqn:Ec; [discriminate|].
      destruct (get_string buf p3) as [c p4].
      destruct (ed_priv_loop utf8_ok pk_of_seed n pubs' buf p4) as [l|] eqn:Er; [|discriminate].
      cbn [bind] in H. injection H as <-.
      destruct (IH _ _ _ _ Er) as [Hl Hi].
      split; [cbn [length]; rewrite Hl; reflexivity|].
      intros [|i] seed Hn; cbn [nth_error] in *.
      + injection Hn as <-.
        apply negb_false_iff in El. apply Nat.eqb_eq in El. split; [exact El|].
        apply negb_false_iff in Ec. apply andb_true_iff in Ec as [Ec _].
        apply andb_true_iff in Ec as [E1 E2].
        apply zlist_eqb_eq in E1. apply zlist_eqb_eq in E2. rewrite <- E2, <- E1. reflexivity.
      + apply Hi. exact Hn.
  Qed.
End P.
