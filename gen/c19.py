"""C19/C20 translator: channel flow-control arithmetic of paramiko, from the AST.

generate(repo) -> {"C19_gen.v": text}

Translated (fail-closed -- any statement / expression outside the small subset below aborts):

* paramiko/common.py    MIN_WINDOW_SIZE, MIN_PACKET_SIZE, MAX_WINDOW_SIZE, DEFAULT_WINDOW_SIZE,
                        DEFAULT_MAX_PACKET_SIZE               (constant integer expressions)
* paramiko/util.py      clamp_value                            (return expression)
* paramiko/transport.py Transport._sanitize_window_size / _sanitize_packet_size
                        (`if x is None: x = self.default_...` then `return clamp_value(..)`),
                        defaults of Transport.__init__(default_window_size=, default_max_packet_size=)
* paramiko/channel.py   Channel._set_window            (in_window_size, in_window_threshold, in_window_sofar)
                        Channel._set_remote_channel    (out_window_size, out_max_packet_size)
                        Channel._wait_for_send_window  (the zero-window test and the allocation tail:
                                                        both clamps, the `- 64`, the window decrement)
                        Channel._check_add_window      (the body after the closed/eof/active guard)
                        Channel._send                  (shape: size==0 test, s[:size], return size)
                        Channel.recv / recv_stderr     (shape: credit argument len(out), `ack > 0` test)
                        Channel._window_adjust         (out_window_size += nbytes)
                        Channel._feed_extended         (the discard test; whether the discard branch
                                                        credits len(s) through _check_add_window)
                        Channel.set_combine_stderr     (shape: moves the stderr buffer, no window field)
                        Channel.shutdown/_send_eof/shutdown_write (shape: half-close only sets eof_sent)
                        Channel.__init__               (the six flow-control fields start at 0)
                        every Channel method              (no transport send inside a channel-lock region)
* paramiko/*.py         FLOW_SITES: the exact set of functions that assign in_window_sofar / in_window_threshold /
                        in_window_size / out_window_size / out_max_packet_size or mention _check_add_window /
                        _wait_for_send_window / _send / _set_window / _set_remote_channel; any other writer or
                        caller aborts (the model has no step for it)

Statement subset: `x = e`, `x op= e`, `if c: <assignments>` (no else), `if c: return e`, `return e`,
log-only statements (`self._log(..)`, `if self.ultra_debug: self._log(..)`) are skipped.
Expression subset: names, self.<field>, int constants, + - * // %, comparisons, and/or/not,
min/max/clamp_value calls.
"""
import ast
import os


class Unrecognised(Exception):
    pass


def _parse(repo, rel):
    with open(os.path.join(repo, rel)) as f:
        return ast.parse(f.read())


def _dump(n):
    return ast.dump(n)


def _find_class(tree, name):
    for n in tree.body:
        if isinstance(n, ast.ClassDef) and n.name == name:
            return n
    raise Unrecognised("class %s not found" % name)


def _find_fn(body, name):
    r = [n for n in body if isinstance(n, ast.FunctionDef) and n.name == name]
    if len(r) != 1:
        raise Unrecognised("function %s: %d definitions" % (name, len(r)))
    return r[0]


def _strip_doc(body):
    if body and isinstance(body[0], ast.Expr) and isinstance(body[0].value, ast.Constant) \
            and isinstance(body[0].value.value, str):
        return body[1:]
    return body


def _is_self_attr(n, attr=None):
    return (isinstance(n, ast.Attribute) and isinstance(n.value, ast.Name) and n.value.id == "self"
            and (attr is None or n.attr == attr))


# ---------------------------------------------------------------------------
# constant integer expressions (common.py)

def _const_eval(e):
    if isinstance(e, ast.Constant) and isinstance(e.value, int) and not isinstance(e.value, bool):
        return e.value
    if isinstance(e, ast.BinOp):
        a, b = _const_eval(e.left), _const_eval(e.right)
        if isinstance(e.op, ast.Add):
            return a + b
        if isinstance(e.op, ast.Sub):
            return a - b
        if isinstance(e.op, ast.Mult):
            return a * b
        if isinstance(e.op, ast.Pow) and 0 <= b <= 64:
            return a ** b
        if isinstance(e.op, ast.FloorDiv) and b > 0:
            return a // b
    raise Unrecognised("not a constant integer expression: " + _dump(e))


def _module_consts(tree, names):
    out = {}
    for n in tree.body:
        if isinstance(n, ast.Assign):
            for t in n.targets:
                if isinstance(t, ast.Name) and t.id in names:
                    if t.id in out:
                        raise Unrecognised("constant %s assigned twice" % t.id)
                    out[t.id] = (_const_eval(n.value), ast.unparse(n.value))
        elif isinstance(n, (ast.AugAssign, ast.AnnAssign)):
            t = n.target
            if isinstance(t, ast.Name) and t.id in names:
                raise Unrecognised("constant %s modified" % t.id)
    for k in names:
        if k not in out:
            raise Unrecognised("constant %s not found" % k)
    return out


# ---------------------------------------------------------------------------
# expressions -> Gallina

class Tr:
    """Translator for one function: `fields` are the self.<attr> names that may be read/written,
    `consts` the global constant names that may be read, `calls` the known pure functions."""

    def __init__(self, fields, consts=(), locals_=()):
        self.fields = set(fields)
        self.consts = set(consts)
        self.locals = set(locals_)

    def name_of(self, n):
        if isinstance(n, ast.Name):
            if n.id in self.locals or n.id in self.consts:
                return n.id
            raise Unrecognised("unknown name " + n.id)
        if _is_self_attr(n):
            if n.attr in self.fields:
                return n.attr
            raise Unrecognised("unexpected field self." + n.attr)
        raise Unrecognised("not a variable: " + _dump(n))

    def z(self, e):
        if isinstance(e, ast.Constant) and isinstance(e.value, int) and not isinstance(e.value, bool):
            return "(%d)" % e.value if e.value < 0 else "%d" % e.value
        if isinstance(e, (ast.Name, ast.Attribute)):
            return self.name_of(e)
        if isinstance(e, ast.BinOp):
            ops = {ast.Add: "+", ast.Sub: "-", ast.Mult: "*", ast.FloorDiv: "/", ast.Mod: "mod"}
            for k, v in ops.items():
                if isinstance(e.op, k):
                    if k in (ast.FloorDiv, ast.Mod):
                        # Python floor division/modulo agree with Z.div / Z.modulo (sign of the divisor)
                        pass
                    return "(%s %s %s)" % (self.z(e.left), v, self.z(e.right))
            raise Unrecognised("operator " + _dump(e.op))
        if isinstance(e, ast.Call) and isinstance(e.func, ast.Name) and not e.keywords:
            if e.func.id in ("max", "min") and len(e.args) == 2:
                return "(Z.%s %s %s)" % (e.func.id, self.z(e.args[0]), self.z(e.args[1]))
            if e.func.id == "clamp_value" and len(e.args) == 3:
                return "(clamp_value %s)" % " ".join(self.z(a) for a in e.args)
        raise Unrecognised("integer expression " + _dump(e))

    def b(self, e):
        if isinstance(e, ast.Compare) and len(e.ops) == 1:
            a, c = self.z(e.left), self.z(e.comparators[0])
            op = e.ops[0]
            if isinstance(op, ast.Lt):
                return "(%s <? %s)" % (a, c)
            if isinstance(op, ast.LtE):
                return "(%s <=? %s)" % (a, c)
            if isinstance(op, ast.Gt):
                return "(%s >? %s)" % (a, c)
            if isinstance(op, ast.GtE):
                return "(%s >=? %s)" % (a, c)
            if isinstance(op, ast.Eq):
                return "(%s =? %s)" % (a, c)
            if isinstance(op, ast.NotEq):
                return "(negb (%s =? %s))" % (a, c)
        if isinstance(e, ast.BoolOp):
            j = " && " if isinstance(e.op, ast.And) else " || "
            return "(" + j.join(self.b(v) for v in e.values) + ")"
        if isinstance(e, ast.UnaryOp) and isinstance(e.op, ast.Not):
            return "(negb %s)" % self.b(e.operand)
        raise Unrecognised("boolean expression " + _dump(e))

    # -- statements ----------------------------------------------------------
    @staticmethod
    def is_log(st):
        def logcall(x):
            return (isinstance(x, ast.Expr) and isinstance(x.value, ast.Call)
                    and _is_self_attr(x.value.func, "_log"))
        if logcall(st):
            return True
        return (isinstance(st, ast.If) and _is_self_attr(st.test, "ultra_debug") and not st.orelse
                and all(logcall(x) for x in st.body))

    def assigned(self, stmts):
        out = []
        for st in stmts:
            if isinstance(st, ast.Assign) and len(st.targets) == 1:
                v = self.target(st.targets[0])
            elif isinstance(st, ast.AugAssign):
                v = self.target(st.target)
            else:
                raise Unrecognised("statement in a conditional block: " + _dump(st))
            if v not in out:
                out.append(v)
        return out

    def target(self, t):
        if isinstance(t, ast.Name):
            self.locals.add(t.id)
            return t.id
        return self.name_of(t)

    def block(self, stmts, outs, indent="  "):
        """Gallina term computing the tuple `outs` (first component: the returned value)."""
        if not stmts:
            raise Unrecognised("control reaches the end of the function without return")
        st, rest = stmts[0], stmts[1:]
        if self.is_log(st):
            return self.block(rest, outs, indent)
        if isinstance(st, ast.Return):
            if st.value is None:
                raise Unrecognised("bare return")
            return indent + "(" + ", ".join([self.z(st.value)] + outs) + ")"
        if isinstance(st, ast.Assign) and len(st.targets) == 1:
            rhs = self.z(st.value)
            v = self.target(st.targets[0])
            return indent + "let %s := %s in\n" % (v, rhs) + self.block(rest, outs, indent)
        if isinstance(st, ast.AugAssign):
            ops = {ast.Add: "+", ast.Sub: "-"}
            for k, o in ops.items():
                if isinstance(st.op, k):
                    v = self.target(st.target)
                    return indent + "let %s := %s %s %s in\n" % (v, v, o, self.z(st.value)) + \
                        self.block(rest, outs, indent)
            raise Unrecognised("augmented assignment " + _dump(st))
        if isinstance(st, ast.If) and not st.orelse:
            c = self.b(st.test)
            if st.body and isinstance(st.body[-1], ast.Return):
                return (indent + "if %s then\n" % c + self.block(st.body, outs, indent + "  ") + "\n"
                        + indent + "else\n" + self.block(rest, outs, indent + "  "))
            vs = self.assigned(st.body)
            inner = ""
            for x in st.body:
                if isinstance(x, ast.Assign):
                    inner += "let %s := %s in " % (self.target(x.targets[0]), self.z(x.value))
                else:
                    o = "+" if isinstance(x.op, ast.Add) else "-" if isinstance(x.op, ast.Sub) else None
                    if o is None:
                        raise Unrecognised("augmented assignment " + _dump(x))
                    v = self.target(x.target)
                    inner += "let %s := %s %s %s in " % (v, v, o, self.z(x.value))
            tup = vs[0] if len(vs) == 1 else "(" + ", ".join(vs) + ")"
            pat = vs[0] if len(vs) == 1 else "'(" + ", ".join(vs) + ")"
            return (indent + "let %s := if %s then (%s%s) else %s in\n" % (pat, c, inner, tup, tup)
                    + self.block(rest, outs, indent))
        raise Unrecognised("statement " + _dump(st))


GUARD_SEND = ("BoolOp(op=Or(), values=[Attribute(value=Name(id='self', ctx=Load()), attr='closed', ctx=Load()), "
              "Attribute(value=Name(id='self', ctx=Load()), attr='eof_sent', ctx=Load())])")
GUARD_RECV = ("BoolOp(op=Or(), values=[Attribute(value=Name(id='self', ctx=Load()), attr='closed', ctx=Load()), "
              "Attribute(value=Name(id='self', ctx=Load()), attr='eof_received', ctx=Load()), "
              "UnaryOp(op=Not(), operand=Attribute(value=Name(id='self', ctx=Load()), attr='active', ctx=Load()))])")


def _is_guard(st, guard):
    return (isinstance(st, ast.If) and not st.orelse and _dump(st.test) == guard and len(st.body) == 1
            and isinstance(st.body[0], ast.Return) and isinstance(st.body[0].value, ast.Constant)
            and st.body[0].value.value == 0)


def _locked_body(fn):
    """body of  self.lock.acquire(); try: <body> finally: self.lock.release()  (after optional leading statements)."""
    body = _strip_doc(fn.body)
    for i, st in enumerate(body):
        if (isinstance(st, ast.Expr) and isinstance(st.value, ast.Call)
                and _dump(st.value.func) == "Attribute(value=Attribute(value=Name(id='self', ctx=Load()), "
                "attr='lock', ctx=Load()), attr='acquire', ctx=Load())"):
            if i + 1 < len(body) and isinstance(body[i + 1], ast.Try):
                t = body[i + 1]
                fin = t.finalbody
                if (len(fin) == 1 and isinstance(fin[0], ast.Expr) and isinstance(fin[0].value, ast.Call)
                        and _is_self_attr(fin[0].value.func.value, "lock") and fin[0].value.func.attr == "release"
                        and not t.handlers and not t.orelse):
                    return body[:i], t.body, body[i + 2:]
    raise Unrecognised(fn.name + ": expected self.lock.acquire(); try: ... finally: self.lock.release()")


def _credit_call(stmts, lenof):
    """Does the statement list contain  ack = self._check_add_window(len(<lenof>))  followed by an
    `if ack > 0:` block that sends a WINDOW_ADJUST carrying `ack`?  Returns the `if` test or None."""
    for i, st in enumerate(stmts):
        if (isinstance(st, ast.Assign) and len(st.targets) == 1 and isinstance(st.targets[0], ast.Name)
                and isinstance(st.value, ast.Call) and _is_self_attr(st.value.func, "_check_add_window")):
            a = st.value.args
            if not (len(a) == 1 and not st.value.keywords and isinstance(a[0], ast.Call)
                    and isinstance(a[0].func, ast.Name) and a[0].func.id == "len" and len(a[0].args) == 1
                    and isinstance(a[0].args[0], ast.Name) and a[0].args[0].id == lenof):
                raise Unrecognised("_check_add_window is not called with len(%s): %s" % (lenof, ast.unparse(st)))
            ack = st.targets[0].id
            if i + 1 >= len(stmts) or not isinstance(stmts[i + 1], ast.If) or stmts[i + 1].orelse:
                raise Unrecognised("credit call is not followed by an `if ack ...:` block")
            blk = stmts[i + 1]
            src = ast.unparse(blk)
            need = ["add_byte(cMSG_CHANNEL_WINDOW_ADJUST)", "add_int(self.remote_chanid)", "add_int(%s)" % ack,
                    "self.transport._send_user_message("]
            pos = -1
            for s in need:
                p = src.find(s, pos + 1)
                if p < 0:
                    raise Unrecognised("window-adjust block lacks `%s` (in order): %s" % (s, src))
                pos = p
            return ack, blk.test
    return None


# every function of the package that writes a flow-control field or calls a flow-control primitive;
# a new writer / caller anywhere in paramiko/*.py aborts the run (the model has no step for it)
FLOW_SITES = {
    ("store", "in_window_sofar"): {"Channel.__init__", "Channel._set_window", "Channel._check_add_window"},
    ("store", "in_window_threshold"): {"Channel.__init__", "Channel._set_window"},
    ("store", "in_window_size"): {"Channel.__init__", "Channel._set_window"},
    ("store", "out_window_size"): {"Channel.__init__", "Channel._set_remote_channel", "Channel._window_adjust",
                                   "Channel._wait_for_send_window"},
    ("store", "out_max_packet_size"): {"Channel.__init__", "Channel._set_remote_channel"},
    ("call", "_check_add_window"): {"Channel.recv", "Channel.recv_stderr", "Channel._feed_extended"},
    ("call", "_wait_for_send_window"): {"Channel._send"},
    ("call", "_send"): {"Channel.send", "Channel.send_stderr"},
    ("call", "_set_window"): {"Transport.open_channel", "Transport._parse_channel_open"},
    ("call", "_set_remote_channel"): {"Transport._parse_channel_open_success", "Transport._parse_channel_open"},
}


def _flow_sites(repo):
    found = {k: set() for k in FLOW_SITES}
    pdir = os.path.join(repo, "paramiko")
    for fn in sorted(os.listdir(pdir)):
        if not fn.endswith(".py"):
            continue
        tree = _parse(repo, "paramiko/" + fn)

        def walk(node, scope):
            for ch in ast.iter_child_nodes(node):
                sc = scope
                if isinstance(ch, (ast.ClassDef, ast.FunctionDef, ast.AsyncFunctionDef)):
                    sc = scope + [ch.name]
                if isinstance(ch, ast.Attribute):
                    where = ".".join(scope[:2]) if scope else "<module %s>" % fn
                    if isinstance(ch.ctx, (ast.Store, ast.Del)) and ("store", ch.attr) in found:
                        found[("store", ch.attr)].add(where)
                    if isinstance(ch.ctx, ast.Load) and ("call", ch.attr) in found:
                        # any mention (call, alias, table entry) of the primitive counts as a use
                        found[("call", ch.attr)].add(where)
                if isinstance(ch, ast.Constant) and isinstance(ch.value, str) and scope:
                    # setattr(self, "in_window_sofar", ..) style access
                    for k in found:
                        if k[0] == "store" and ch.value == k[1]:
                            found[k].add(".".join(scope[:2]) + " (string)")
                walk(ch, sc)
        walk(tree, [])
    for k, exp in FLOW_SITES.items():
        if found[k] != exp:
            raise Unrecognised("functions that %s %s changed: unexpected %s, missing %s" % (
                "assign" if k[0] == "store" else "use", k[1], sorted(found[k] - exp), sorted(exp - found[k])))
    return found


def _no_send_under_lock(ccls):
    """No Channel method calls transport._send_user_message (which may block during a re-key) inside a
    `self.lock.acquire(); try: ... finally: self.lock.release()` region, nor does a function documented as
    running under the lock (_check_add_window's body, _wait_for_send_window, _send_eof, _close_internal,
    _set_closed)."""
    def sends(nodes):
        for n in nodes:
            for x in ast.walk(n):
                if isinstance(x, ast.Attribute) and x.attr in ("_send_user_message", "_send_message"):
                    return True
        return False
    for fn in ccls.body:
        if not isinstance(fn, ast.FunctionDef):
            continue
        if fn.name in ("_wait_for_send_window", "_send_eof", "_close_internal", "_set_closed") and sends(fn.body):
            raise Unrecognised("%s (runs under the channel lock) sends a message" % fn.name)
        for node in ast.walk(fn):
            body = getattr(node, "body", None)
            if not isinstance(body, list):
                continue
            for i, st in enumerate(body):
                if (isinstance(st, ast.Expr) and isinstance(st.value, ast.Call)
                        and ast.unparse(st.value) == "self.lock.acquire()"
                        and i + 1 < len(body) and isinstance(body[i + 1], ast.Try)):
                    if sends(body[i + 1].body):
                        raise Unrecognised("Channel.%s sends a message while holding the channel lock" % fn.name)
        for node in ast.walk(fn):
            if isinstance(node, ast.With) and any(ast.unparse(it.context_expr) in ("self.lock", "self.out_buffer_cv")
                                                  for it in node.items) and sends(node.body):
                raise Unrecognised("Channel.%s sends a message while holding the channel lock" % fn.name)


SET_COMBINE_BODY = [
    "old = self.combine_stderr",
    "self.combine_stderr = combine",
    "if combine and (not old):\n    data = self.in_stderr_buffer.empty()\n    if len(data) > 0:\n        self._feed(data)",
]


def generate(repo):
    _flow_sites(repo)
    out = []
    w = out.append
    w("(* GENERATED by gen/c19.py from paramiko/{common,util,transport,channel}.py -- do not edit.")
    w("   Flow-control arithmetic of Channel / Transport, translated statement by statement. *)")
    w("From Coq Require Import ZArith Bool.")
    w("Open Scope Z_scope.")
    w("")

    # ---- constants ----------------------------------------------------------
    names = ["MIN_WINDOW_SIZE", "MIN_PACKET_SIZE", "MAX_WINDOW_SIZE", "DEFAULT_WINDOW_SIZE",
             "DEFAULT_MAX_PACKET_SIZE"]
    consts = _module_consts(_parse(repo, "paramiko/common.py"), names)
    for k in names:
        w("Definition %s : Z := %d.   (* %s *)" % (k, consts[k][0], consts[k][1]))
    w("")

    # ---- util.clamp_value ------------------------------------------------------
    fn = _find_fn(_parse(repo, "paramiko/util.py").body, "clamp_value")
    args = [a.arg for a in fn.args.args]
    if args != ["minimum", "val", "maximum"] or fn.args.defaults or fn.args.vararg or fn.args.kwarg:
        raise Unrecognised("clamp_value signature")
    body = _strip_doc(fn.body)
    if len(body) != 1 or not isinstance(body[0], ast.Return):
        raise Unrecognised("clamp_value body")
    tr = Tr([], [], args)
    w("Definition clamp_value (minimum val maximum : Z) : Z := %s." % tr.z(body[0].value))
    w("")

    # ---- Transport._sanitize_* ---------------------------------------------------
    ttree = _parse(repo, "paramiko/transport.py")
    for n in ttree.body:
        # the constants must not be rebound in transport.py
        if isinstance(n, ast.Assign):
            for t in n.targets:
                if isinstance(t, ast.Name) and t.id in names + ["clamp_value"]:
                    raise Unrecognised("transport.py rebinds " + t.id)
    tcls = _find_class(ttree, "Transport")
    for fname, arg, dflt in (("_sanitize_window_size", "window_size", "default_window_size"),
                             ("_sanitize_packet_size", "max_packet_size", "default_max_packet_size")):
        fn = _find_fn(tcls.body, fname)
        if [a.arg for a in fn.args.args] != ["self", arg]:
            raise Unrecognised(fname + " signature")
        body = _strip_doc(fn.body)
        if len(body) != 2:
            raise Unrecognised(fname + " body")
        st0, st1 = body
        ok = (isinstance(st0, ast.If) and not st0.orelse and isinstance(st0.test, ast.Compare)
              and isinstance(st0.test.left, ast.Name) and st0.test.left.id == arg
              and len(st0.test.ops) == 1 and isinstance(st0.test.ops[0], ast.Is)
              and isinstance(st0.test.comparators[0], ast.Constant) and st0.test.comparators[0].value is None
              and len(st0.body) == 1 and isinstance(st0.body[0], ast.Assign)
              and isinstance(st0.body[0].targets[0], ast.Name) and st0.body[0].targets[0].id == arg
              and _is_self_attr(st0.body[0].value, dflt))
        if not ok or not isinstance(st1, ast.Return):
            raise Unrecognised(fname + " shape: " + ast.unparse(fn))
        tr = Tr([], names, [arg])
        w("Definition %s (%s : Z) (%s_opt : option Z) : Z :=" % (fname.lstrip("_"), dflt, arg))
        w("  let %s := match %s_opt with None => %s | Some v => v end in" % (arg, arg, dflt))
        w("  %s." % tr.z(st1.value))
    # defaults of Transport.__init__
    init = _find_fn(tcls.body, "__init__")
    pos = [a.arg for a in init.args.args]
    dfl = dict(zip(pos[len(pos) - len(init.args.defaults):], init.args.defaults))
    for p, c in (("default_window_size", "DEFAULT_WINDOW_SIZE"), ("default_max_packet_size", "DEFAULT_MAX_PACKET_SIZE")):
        if not (p in dfl and isinstance(dfl[p], ast.Name) and dfl[p].id == c):
            raise Unrecognised("Transport.__init__ default of %s is not %s" % (p, c))
    w("")

    # ---- Channel -------------------------------------------------------------------
    ccls = _find_class(_parse(repo, "paramiko/channel.py"), "Channel")

    # _set_window
    fn = _find_fn(ccls.body, "_set_window")
    if [a.arg for a in fn.args.args] != ["self", "window_size", "max_packet_size"]:
        raise Unrecognised("_set_window signature")
    tr = Tr(["in_window_size", "in_max_packet_size", "in_window_threshold", "in_window_sofar"], [],
            ["window_size", "max_packet_size"])
    got = {}
    for st in _strip_doc(fn.body):
        if Tr.is_log(st):
            continue
        if not (isinstance(st, ast.Assign) and len(st.targets) == 1 and _is_self_attr(st.targets[0])):
            raise Unrecognised("_set_window statement " + _dump(st))
        f = tr.name_of(st.targets[0])
        if f in got:
            raise Unrecognised("_set_window assigns %s twice" % f)
        got[f] = tr.z(st.value)
    for f in ("in_window_size", "in_window_threshold", "in_window_sofar"):
        if f not in got:
            raise Unrecognised("_set_window does not set " + f)
        w("Definition set_window_%s (window_size max_packet_size : Z) : Z := %s." % (f, got[f]))
    w("")

    # _set_remote_channel
    fn = _find_fn(ccls.body, "_set_remote_channel")
    if [a.arg for a in fn.args.args] != ["self", "chanid", "window_size", "max_packet_size"]:
        raise Unrecognised("_set_remote_channel signature")
    got = {}
    for st in _strip_doc(fn.body):
        if Tr.is_log(st):
            continue
        if not (isinstance(st, ast.Assign) and len(st.targets) == 1 and _is_self_attr(st.targets[0])):
            raise Unrecognised("_set_remote_channel statement " + _dump(st))
        f = st.targets[0].attr
        if f in got:
            raise Unrecognised("_set_remote_channel assigns %s twice" % f)
        got[f] = st.value
    if set(got) != {"remote_chanid", "out_window_size", "out_max_packet_size", "active"}:
        raise Unrecognised("_set_remote_channel fields " + repr(sorted(got)))
    tr = Tr([], [], ["window_size", "max_packet_size"])
    w("Definition set_remote_out_window_size (window_size max_packet_size : Z) : Z := %s."
      % tr.z(got["out_window_size"]))
    v = got["out_max_packet_size"]
    if ast.unparse(v) != "self.transport._sanitize_packet_size(max_packet_size)":
        raise Unrecognised("_set_remote_channel out_max_packet_size: " + ast.unparse(v))
    w("Definition set_remote_out_max_packet_size (default_max_packet_size window_size max_packet_size : Z) : Z :=")
    w("  sanitize_packet_size default_max_packet_size (Some max_packet_size).")
    w("")

    # _wait_for_send_window
    fn = _find_fn(ccls.body, "_wait_for_send_window")
    if [a.arg for a in fn.args.args] != ["self", "size"]:
        raise Unrecognised("_wait_for_send_window signature")
    body = _strip_doc(fn.body)
    if len(body) < 4 or not _is_guard(body[0], GUARD_SEND) or not _is_guard(body[2], GUARD_SEND):
        raise Unrecognised("_wait_for_send_window: closed/eof_sent guards moved")
    blk = body[1]
    if not (isinstance(blk, ast.If) and not blk.orelse):
        raise Unrecognised("_wait_for_send_window: blocking test")
    tr = Tr(["out_window_size", "out_max_packet_size"], [], ["size"])
    w("(* `if self.out_window_size == 0:` -- the caller blocks (or times out) exactly when this holds *)")
    w("Definition send_must_wait (out_window_size : Z) : bool := %s." % tr.b(blk.test))
    # inside the blocking block: timeout==0.0 -> raise socket.timeout ; while <same test>: ... wait
    inner = blk.body
    ok = (len(inner) == 3 and isinstance(inner[0], ast.If)
          and ast.unparse(inner[0].test) == "self.timeout == 0.0"
          and ast.unparse(inner[0].body[0]) == "raise socket.timeout()"
          and isinstance(inner[2], ast.While) and _dump(inner[2].test) == _dump(blk.test))
    if not ok:
        raise Unrecognised("_wait_for_send_window: blocking loop shape changed")
    w("(* allocation tail of _wait_for_send_window: returns (granted size, new out_window_size) *)")
    w("Definition send_alloc (out_window_size out_max_packet_size size : Z) : Z * Z :=")
    w(tr.block(body[3:], ["out_window_size"]) + ".")
    w("")

    # _check_add_window
    fn = _find_fn(ccls.body, "_check_add_window")
    if [a.arg for a in fn.args.args] != ["self", "n"]:
        raise Unrecognised("_check_add_window signature")
    pre, locked, post = _locked_body(fn)
    if pre or post or not locked or not _is_guard(locked[0], GUARD_RECV):
        raise Unrecognised("_check_add_window: lock / guard shape changed")
    tr = Tr(["in_window_sofar", "in_window_threshold"], [], ["n"])
    w("(* _check_add_window after its closed/eof_received/active guard:")
    w("   returns (window adjustment to send or 0, new in_window_sofar) *)")
    w("Definition check_add_window (in_window_sofar in_window_threshold n : Z) : Z * Z :=")
    w(tr.block(locked[1:], ["in_window_sofar"]) + ".")
    w("")

    # _window_adjust
    fn = _find_fn(ccls.body, "_window_adjust")
    pre, locked, post = _locked_body(fn)
    if len(pre) != 1 or ast.unparse(pre[0]) != "nbytes = m.get_int()" or post:
        raise Unrecognised("_window_adjust shape")
    tr = Tr(["out_window_size"], [], ["nbytes"])
    stmts = [s for s in locked if not Tr.is_log(s)]
    if not (len(stmts) == 2 and ast.unparse(stmts[1]) == "self.out_buffer_cv.notify_all()"):
        raise Unrecognised("_window_adjust body")
    w("Definition window_adjust (out_window_size nbytes : Z) : Z :=")
    w(tr.block([stmts[0], ast.Return(value=ast.Constant(value=0))], ["out_window_size"]).replace("(0, out_window_size)", "out_window_size") + ".")
    w("")

    # _send shape
    fn = _find_fn(ccls.body, "_send")
    pre, locked, post = _locked_body(fn)
    src_l = [ast.unparse(s) for s in locked]
    if not (len(pre) == 1 and ast.unparse(pre[0]) == "size = len(s)"
            and len(locked) == 4 and ast.unparse(locked[0].test) == "self.closed"
            and src_l[1] == "size = self._wait_for_send_window(size)"
            and isinstance(locked[2], ast.If) and ast.unparse(locked[2].body[-1]) == "return 0"
            and src_l[3] == "m.add_string(s[:size])"
            and [ast.unparse(s) for s in post] == ["self.transport._send_user_message(m)", "return size"]):
        raise Unrecognised("_send shape changed: " + ast.unparse(fn))
    tr = Tr([], [], ["size"])
    w("(* _send: `if size == 0: return 0` (no message); otherwise s[:size] is sent and size returned *)")
    w("Definition send_nothing (size : Z) : bool := %s." % tr.b(locked[2].test))
    w("")

    # recv / recv_stderr shape
    tests = []
    for fname, buf in (("recv", "in_buffer"), ("recv_stderr", "in_stderr_buffer")):
        fn = _find_fn(ccls.body, fname)
        body = _strip_doc(fn.body)
        if not (isinstance(body[0], ast.Try)
                and ast.unparse(body[0].body[0]) == "out = self.%s.read(nbytes, self.timeout)" % buf
                and ast.unparse(body[-1]) == "return out"):
            raise Unrecognised(fname + " shape changed")
        r = _credit_call(body[1:-1], "out")
        if r is None or len(body) != 4:
            raise Unrecognised(fname + ": credit call missing or extra statements")
        tests.append(Tr([], [], [r[0]]).b(r[1]).replace(r[0], "ack"))
    if tests[0] != tests[1]:
        raise Unrecognised("recv and recv_stderr test the credit differently")
    w("(* recv / recv_stderr: ack = _check_add_window(len(out)); `if ack > 0:` send WINDOW_ADJUST(ack) *)")
    w("Definition adjust_is_sent (ack : Z) : bool := %s." % tests[0])
    w("")

    _no_send_under_lock(ccls)

    # Channel.__init__: all flow-control fields start at 0
    fn = _find_fn(ccls.body, "__init__")
    zero = set()
    for st in fn.body:
        if (isinstance(st, ast.Assign) and len(st.targets) == 1 and _is_self_attr(st.targets[0])
                and st.targets[0].attr in ("in_window_size", "out_window_size", "in_max_packet_size",
                                           "out_max_packet_size", "in_window_threshold", "in_window_sofar")):
            if not (isinstance(st.value, ast.Constant) and st.value.value == 0):
                raise Unrecognised("Channel.__init__: %s" % ast.unparse(st))
            zero.add(st.targets[0].attr)
    if len(zero) != 6:
        raise Unrecognised("Channel.__init__ does not zero all flow-control fields: %s" % sorted(zero))

    # set_combine_stderr: moves the unread stderr buffer into the stdout buffer, touches no window field
    fn = _find_fn(ccls.body, "set_combine_stderr")
    pre, locked, post = _locked_body(fn)
    if pre or [ast.unparse(x) for x in post] != ["return old"] or [ast.unparse(x) for x in locked] != SET_COMBINE_BODY:
        raise Unrecognised("set_combine_stderr shape changed: " + ast.unparse(fn))
    w("(* set_combine_stderr(combine): `if combine and not old:` the stderr buffer is emptied into in_buffer *)")
    w("Definition combine_moves (combine old : bool) : bool := combine && negb old.")
    w("")

    # shutdown(how) / _send_eof: half-close sets eof_sent only (and eof_received only for how in (0, 2))
    fn = _find_fn(ccls.body, "_send_eof")
    body = [ast.unparse(x) for x in _strip_doc(fn.body) if not Tr.is_log(x)]
    if body != ["if self.eof_sent:\n    return None", "m = Message()", "m.add_byte(cMSG_CHANNEL_EOF)",
                "m.add_int(self.remote_chanid)", "self.eof_sent = True", "return m"]:
        raise Unrecognised("_send_eof shape changed: " + ast.unparse(fn))
    fn = _find_fn(ccls.body, "shutdown")
    body = _strip_doc(fn.body)
    if not (len(body) == 2 and ast.unparse(body[0]) == "if how == 0 or how == 2:\n    self.eof_received = 1"
            and ast.unparse(body[1].test) == "how == 1 or how == 2"
            and "m = self._send_eof()" in ast.unparse(body[1])):
        raise Unrecognised("shutdown shape changed: " + ast.unparse(fn))
    if ast.unparse(_strip_doc(_find_fn(ccls.body, "shutdown_write").body)[0]) != "self.shutdown(1)":
        raise Unrecognised("shutdown_write shape changed")

    # _feed_extended
    fn = _find_fn(ccls.body, "_feed_extended")
    body = _strip_doc(fn.body)
    # the tail `if self.combine_stderr: ... else: ...` may sit inside
    # `self.lock.acquire(); try: ... finally: self.lock.release()` (C21 repair)
    if (len(body) == 5 and ast.unparse(body[3]) == "self.lock.acquire()"
            and isinstance(body[4], ast.Try) and not body[4].handlers and not body[4].orelse
            and [ast.unparse(x) for x in body[4].finalbody] == ["self.lock.release()"]
            and len(body[4].body) == 1):
        body = body[:3] + [body[4].body[0]]
    if not (len(body) == 4 and ast.unparse(body[0]) == "code = m.get_int()"
            and ast.unparse(body[1]) == "s = m.get_binary()"
            and isinstance(body[2], ast.If) and not body[2].orelse
            and isinstance(body[2].body[-1], ast.Return) and body[2].body[-1].value is None
            and isinstance(body[3], ast.If)
            and ast.unparse(body[3].test) == "self.combine_stderr"
            and [ast.unparse(x) for x in body[3].body] == ["self._feed(s)"]
            and [ast.unparse(x) for x in body[3].orelse] == ["self.in_stderr_buffer.feed(s)"]):
        raise Unrecognised("_feed_extended shape changed: " + ast.unparse(fn))
    tr = Tr([], [], ["code"])
    w("(* _feed_extended: `if code != 1:` the data is discarded *)")
    w("Definition ext_discarded (code : Z) : bool := %s." % tr.b(body[2].test))
    disc = [x for x in body[2].body[:-1] if not Tr.is_log(x)]
    r = _credit_call(disc, "s")
    if r is None:
        if disc:
            raise Unrecognised("_feed_extended discard branch: " + ast.unparse(body[2]))
        w("(* the discard branch returns without crediting the bytes to the peer's window *)")
        w("Definition ext_discard_credits : bool := false.")
    else:
        if len(disc) != 2:
            raise Unrecognised("_feed_extended discard branch has extra statements")
        t = Tr([], [], [r[0]]).b(r[1]).replace(r[0], "ack")
        if t != tests[0]:
            raise Unrecognised("_feed_extended tests the credit differently from recv")
        w("(* the discard branch credits len(s) through _check_add_window and sends the adjust like recv *)")
        w("Definition ext_discard_credits : bool := true.")
    w("")
    return {"C19_gen.v": "\n".join(out) + "\n"}


if __name__ == "__main__":
    import sys
    print(generate(sys.argv[1] if len(sys.argv) > 1 else "/repo")["C19_gen.v"])
