(* C04 -- session keys follow RFC 4253 section 7.2 key derivation and match across the two peers.
   Property statements only; every proof is `exact <lemma from Proofs/C04_proofs.v>`.
   `hash` is the kex engine's hash (a library primitive): any function whose output has a fixed
   length hl > 0.  Letters / size sources / cipher and MAC tables are Gen/C04_gen.v, regenerated
   from paramiko/transport.py on every run. *)
From PV Require Import Bytes C39 C04_gen C04 C04_proofs.
Open Scope Z_scope.

(* _compute_key returns exactly the first n bytes of the RFC stream
   K1 = HASH(K||H||X||session_id), K(i+1) = HASH(K||H||K1||...||Ki), for every n >= 0, every
   hash length hl > 0 and every i large enough that K1..K(i+1) covers n bytes (never OutOfFuel) *)
Theorem C04_rfc :
  forall (hash : list Z -> list Z) (hl : nat),
    (forall m, length (hash m) = hl) -> (0 < hl)%nat ->
    forall (K : Z) (kb H sid : list Z) (X n : Z) (i : nat),
      add_mpint K = Ok kb -> 0 <= n -> n <= Z.of_nat (S i) * Z.of_nat hl ->
      compute_key hash K H sid X n = Ok (firstn (Z.to_nat n) (rfc_upto hash (kb ++ H) X sid i)).
Proof. exact compute_key_rfc. Qed.
Print Assumptions C04_rfc.

(* "first n bytes of the stream" is well defined: K1..K(i+1) has (i+1)*hl bytes and longer
   concatenations extend shorter ones *)
Theorem C04_stream_prefix :
  forall (hash : list Z -> list Z) (hl : nat),
    (forall m, length (hash m) = hl) ->
    forall pre X sid i d,
      length (rfc_upto hash pre X sid i) = (S i * hl)%nat /\
      exists rest, rfc_upto hash pre X sid (i + d) = rfc_upto hash pre X sid i ++ rest.
Proof. exact stream_prefix. Qed.
Print Assumptions C04_stream_prefix.

(* the derived key has exactly the requested length; the only possible exception is the
   struct.error of add_mpint for a K whose encoding exceeds 2^32 bytes *)
Theorem C04_length_total :
  forall (hash : list Z -> list Z) (hl : nat),
    (forall m, length (hash m) = hl) -> (0 < hl)%nat ->
    forall (K : Z) (H sid : list Z) (X n : Z), 0 <= n ->
      (exists k, compute_key hash K H sid X n = Ok k /\ Z.of_nat (length k) = n) \/
      compute_key hash K H sid X n = Raise StructErr.
Proof. exact length_total. Qed.
Print Assumptions C04_length_total.

(* the letters in the source are the RFC 4253 assignment: A/C/E client-to-server IV/key/MAC key,
   B/D/F server-to-client (so a symmetric-but-wrong assignment is excluded) *)
Theorem C04_letters_rfc : forall r d p, gen_letter r d p = rfc_letter r d p.
Proof. exact letters_rfc. Qed.
Print Assumptions C04_letters_rfc.

(* client-out = server-in and server-out = client-in: same letter, same size source, and hence,
   for the same negotiated cipher / MAC rows and the same K, H, session id, the same key bytes *)
Theorem C04_peer_match :
  forall (hash : list Z -> list Z) r d p c m K H sid,
    gen_letter r d p = gen_letter (peer r) (flip d) p /\
    gen_size r d p = gen_size (peer r) (flip d) p /\
    session_key hash r d p c m K H sid = session_key hash (peer r) (flip d) p c m K H sid.
Proof. exact peer_match. Qed.
Print Assumptions C04_peer_match.

(* outbound looks up the locally selected cipher / MAC name, inbound the remote one *)
Theorem C04_selectors :
  gen_cipher_sel Outbound = SelLocal /\ gen_cipher_sel Inbound = SelRemote /\
  gen_mac_sel Outbound = SelLocal /\ gen_mac_sel Inbound = SelRemote.
Proof. exact sel_dirs. Qed.
Print Assumptions C04_selectors.

(* two derivations with different letters hash inputs that have equal length and differ in the
   letter byte at offset |mpint K| + |H|; if they nevertheless yield the same n >= 1 bytes, the
   hash truncated to min(n, hl) bytes collides on those two different inputs *)
Theorem C04_dir_distinct :
  forall (hash : list Z -> list Z) (hl : nat),
    (forall m, length (hash m) = hl) -> (0 < hl)%nat ->
    forall K kb H sid X Y n k,
      add_mpint K = Ok kb -> X <> Y -> 0 < n ->
      compute_key hash K H sid X n = Ok k -> compute_key hash K H sid Y n = Ok k ->
      let a := kdf_input (kb ++ H) X sid in
      let b := kdf_input (kb ++ H) Y sid in
      let m := Z.to_nat (Z.min n (Z.of_nat hl)) in
      a <> b /\ (0 < m)%nat /\ firstn m (hash a) = firstn m (hash b).
Proof. exact equal_keys_collision. Qed.
Print Assumptions C04_dir_distinct.

Theorem C04_input_letter_offset :
  forall pre X Y sid,
    nth (length pre) (kdf_input pre X sid) 0 = X /\
    length (kdf_input pre X sid) = length (kdf_input pre Y sid) /\
    (X <> Y -> kdf_input pre X sid <> kdf_input pre Y sid).
Proof. exact input_letter_offset. Qed.
Print Assumptions C04_input_letter_offset.

(* contrapositive forms: under collision freedom on the two inputs (resp. injectivity when at
   least one whole digest is requested) the two keys differ *)
Theorem C04_dir_distinct_nocollision :
  forall (hash : list Z -> list Z) (hl : nat),
    (forall m, length (hash m) = hl) -> (0 < hl)%nat ->
    forall K kb H sid X Y n kX kY,
      add_mpint K = Ok kb -> X <> Y -> 0 < n ->
      (let m := Z.to_nat (Z.min n (Z.of_nat hl)) in
       firstn m (hash (kdf_input (kb ++ H) X sid)) = firstn m (hash (kdf_input (kb ++ H) Y sid)) ->
       kdf_input (kb ++ H) X sid = kdf_input (kb ++ H) Y sid) ->
      compute_key hash K H sid X n = Ok kX -> compute_key hash K H sid Y n = Ok kY -> kX <> kY.
Proof. exact dir_distinct. Qed.
Print Assumptions C04_dir_distinct_nocollision.

Theorem C04_dir_distinct_injective :
  forall (hash : list Z -> list Z) (hl : nat),
    (forall m, length (hash m) = hl) -> (0 < hl)%nat ->
    forall K kb H sid X Y n kX kY,
      add_mpint K = Ok kb -> X <> Y -> Z.of_nat hl <= n ->
      (forall a b, hash a = hash b -> a = b) ->
      compute_key hash K H sid X n = Ok kX -> compute_key hash K H sid Y n = Ok kY -> kX <> kY.
Proof. exact dir_distinct_inj. Qed.
Print Assumptions C04_dir_distinct_injective.

(* over the generated letter table: the six (direction, purpose) letters of a transport are pairwise
   different, so an inbound key of any purpose equal to an outbound key of any purpose (of the same
   length) exhibits a truncated-hash collision *)
Theorem C04_directions_never_share :
  forall (hash : list Z -> list Z) (hl : nat),
    (forall m, length (hash m) = hl) -> (0 < hl)%nat ->
    forall r p1 p2 c1 m1 c2 m2 K kb H sid k,
      add_mpint K = Ok kb ->
      snd (requested r Inbound p1 c1 m1) = snd (requested r Outbound p2 c2 m2) ->
      0 < snd (requested r Inbound p1 c1 m1) ->
      session_key hash r Inbound p1 c1 m1 K H sid = Ok k ->
      session_key hash r Outbound p2 c2 m2 K H sid = Ok k ->
      let a := kdf_input (kb ++ H) (gen_letter r Inbound p1) sid in
      let b := kdf_input (kb ++ H) (gen_letter r Outbound p2) sid in
      let m := Z.to_nat (Z.min (snd (requested r Inbound p1 c1 m1)) (Z.of_nat hl)) in
      a <> b /\ (0 < m)%nat /\ firstn m (hash a) = firstn m (hash b).
Proof. exact session_dir_distinct. Qed.
Print Assumptions C04_directions_never_share.

Theorem C04_letters_pairwise_distinct :
  forall r d1 p1 d2 p2, gen_letter r d1 p1 = gen_letter r d2 p2 -> d1 = d2 /\ p1 = p2.
Proof. exact letters_injective. Qed.
Print Assumptions C04_letters_pairwise_distinct.

(* requested lengths: IV = the cipher's iv-size if it has one, else its block size; key = key-size;
   MAC key = the digest size of the MAC's hash class (not the truncated transmitted size); and over
   the generated cipher / MAC tables every requested length lies in 1..512 *)
Theorem C04_sizes :
  forall r d c m,
    snd (requested r d IV c m) = match c_iv c with Some v => v | None => c_block c end /\
    snd (requested r d EncKey c m) = c_key c /\
    snd (requested r d MacKey c m) = m_digest m /\
    (In c gen_ciphers -> In m gen_macs ->
       forall p, 1 <= snd (requested r d p c m) <= 512) /\
    (In m gen_macs -> m_size m <= m_digest m).
Proof. exact sizes_all. Qed.
Print Assumptions C04_sizes.

(* per kex algorithm of Transport._kex_info (generated table): the hash _compute_key selects -- the class's
   hash_algo, or the sha1 fallback when it declares none -- has a digest length in 1..64, and for any
   hash function of that length the derivation is the RFC stream *)
Theorem C04_rfc_per_kex :
  forall name declared,
    In (name, declared) gen_kex_hashes ->
    let hlz := kex_hash_len declared in
    1 <= hlz <= 64 /\
    forall (hash : list Z -> list Z),
      (forall m, length (hash m) = Z.to_nat hlz) ->
      forall (K : Z) (kb H sid : list Z) (X n : Z) (i : nat),
        add_mpint K = Ok kb -> 0 <= n -> n <= Z.of_nat (S i) * hlz ->
        compute_key hash K H sid X n = Ok (firstn (Z.to_nat n) (rfc_upto hash (kb ++ H) X sid i)).
Proof. exact rfc_per_kex. Qed.
Print Assumptions C04_rfc_per_kex.

(* for every kex of Transport._kex_info the digest length of the hash _compute_key will select (the class's
   hash_algo, else the sha1 fallback) is the one the kex METHOD specifies (hand-written RFC table by name):
   a class that loses its hash_algo and silently derives keys with sha1 breaks this *)
Theorem C04_kex_hash_spec :
  forall name declared,
    In (name, declared) gen_kex_hashes -> spec_kex_hash_len name = Some (kex_hash_len declared).
Proof. exact kex_hash_spec. Qed.
Print Assumptions C04_kex_hash_spec.

(* the generated _cipher_info / _mac_info rows agree BY NAME with the hand-written RFC tables, so the IV / key /
   integrity-key lengths asked of _compute_key, the block size and the tag length are those the negotiated
   algorithm names specify (a row pointing at a similar hash class, e.g. hmac-md5-96 at sha1, breaks this) *)
Theorem C04_tables_spec :
  forall r d c m,
    In c gen_ciphers -> In m gen_macs ->
    exists k iv b dg tg,
      lookup_name spec_ciphers (c_name c) = Some (k, iv, b) /\
      lookup_name spec_macs (m_name m) = Some (dg, tg) /\
      snd (requested r d IV c m) = iv /\ snd (requested r d EncKey c m) = k /\
      snd (requested r d MacKey c m) = dg /\ c_block c = b /\ m_size m = tg.
Proof. exact tables_spec. Qed.
Print Assumptions C04_tables_spec.

(* non-vacuity: a concrete hash of fixed positive length, a concrete K/H/session id; the model
   computes a 40-byte key from a 3-byte hash (14 turns of the loop), and the keys of the two
   directions differ *)
Example C04_example :
  (forall m, length (toy_hash 3 m) = 3%nat) /\ (0 < 3)%nat /\
  (exists kb, add_mpint (2 ^ 255 - 19) = Ok kb) /\
  (exists k, compute_key (toy_hash 3) (2 ^ 255 - 19) [1; 2; 3] [4; 5] 65 40 = Ok k /\ length k = 40%nat) /\
  compute_key (toy_hash 3) (2 ^ 255 - 19) [1; 2; 3] [4; 5] 65 40 <>
  compute_key (toy_hash 3) (2 ^ 255 - 19) [1; 2; 3] [4; 5] 66 40 /\
  example_pair_exists = true.
Proof.
  split; [intros m; apply toy_hash_len|]. split; [lia|].
  split; [eexists; vm_compute; reflexivity|].
  split; [eexists; split; vm_compute; reflexivity|].
  split; [vm_compute; discriminate|].
  exact example_pair_exists_ok.
Qed.
