(* C07 -- lemmas.  Property statements are in Props/C07_props.v. *)
From Coq Require Import ZArith List Bool Lia.
From PV Require Import Bytes C07_gen C07.
Import ListNotations.
Open Scope Z_scope.

(* ---- list membership ------------------------------------------------------------------- *)
Lemma neq_eq a b : neq a b = true <-> a = b.
Proof. apply zlist_eqb_eq. Qed.

Lemma neq_refl a : neq a a = true.
Proof. now apply neq_eq. Qed.

Lemma mem_In x l : mem x l = true <-> In x l.
Proof.
  unfold mem. rewrite existsb_exists. split.
  - intros [y [Hy E]]. apply neq_eq in E. now subst.
  - intros H. exists x. split; [assumption | apply neq_refl].
Qed.

Lemma mem_false_not_In x l : mem x l = false <-> ~ In x l.
Proof.
  split.
  - intros E H. apply mem_In in H. congruence.
  - intros H. destruct (mem x l) eqn:E; [|reflexivity]. apply mem_In in E. contradiction.
Qed.

Lemma filter_algorithm_In x d dis :
  In x (filter_algorithm d dis) <-> In x d /\ ~ In x dis.
Proof.
  unfold filter_algorithm. rewrite filter_In, negb_true_iff, mem_false_not_In. tauto.
Qed.

(* ---- preferred_keys: every entry's base name is an enabled default entry ------------------- *)
Lemma names_plain_In d y :
  names_plain d = true -> In y d ->
  strip_cert y = y /\ strip_cert (y ++ c07_cert_suffix) = y.
Proof.
  unfold names_plain. rewrite forallb_forall. intros H Hy.
  specialize (H y Hy). apply andb_true_iff in H as [H1 H2].
  apply neq_eq in H1. apply neq_eq in H2. split; assumption.
Qed.

Lemma preferred_keys_base d dis x :
  names_plain d = true -> In x (preferred_keys d dis) ->
  In (strip_cert x) d /\ ~ In (strip_cert x) dis.
Proof.
  intros Hp Hx. unfold preferred_keys in Hx. apply in_app_or in Hx as [Hx | Hx].
  - apply filter_algorithm_In in Hx as [Hd Hn].
    destruct (names_plain_In d x Hp Hd) as [E _]. rewrite E. split; assumption.
  - apply in_map_iff in Hx as [y [Ey Hy]]. subst x.
    apply filter_algorithm_In in Hy as [Hd Hn].
    destruct (names_plain_In d y Hp Hd) as [_ E]. rewrite E. split; assumption.
Qed.

Lemma negotiate_In d dis sl x :
  negotiate_hostkey d dis sl = Ok x -> In x (preferred_keys d dis) /\ In x sl.
Proof.
  unfold negotiate_hostkey.
  destruct (filter (fun y => mem y sl) (preferred_keys d dis)) as [|y r] eqn:E; [discriminate|].
  intros H. injection H as ->.
  assert (Hin : In x (filter (fun y => mem y sl) (preferred_keys d dis))) by (rewrite E; now left).
  apply filter_In in Hin as [H1 H2]. apply mem_In in H2. split; assumption.
Qed.

(* what negotiate_hostkey returns is the client's most preferred name the server offers *)
Lemma negotiate_first d dis sl x :
  negotiate_hostkey d dis sl = Ok x ->
  exists pre post, preferred_keys d dis = pre ++ x :: post /\ forall y, In y pre -> ~ In y sl.
Proof.
  unfold negotiate_hostkey. generalize (preferred_keys d dis) as l.
  induction l as [|a l IH]; cbn [filter]; [discriminate|].
  destruct (mem a sl) eqn:Ea.
  - intros H. injection H as ->. exists [], l. split; [reflexivity | intros y []].
  - intros H. destruct (IH H) as [pre [post [E Hpre]]]. exists (a :: pre), post. split.
    + cbn. now rewrite E.
    + intros y [<- | Hy]; [now apply mem_false_not_In | now apply Hpre].
Qed.

(* ---- verify_ssh_sig / verify_key ------------------------------------------------------------ *)
Section Verify.
  Variable pv : Z -> Z -> list Z -> list Z -> bool.

  Lemma verify_ssh_sig_true k data sg :
    verify_ssh_sig pv k data sg = true ->
    exists h, sig_hash k (s_alg sg) = Some h /\ pv (pk_id k) h data (s_sig sg) = true.
  Proof.
    unfold verify_ssh_sig. destruct (sig_hash k (s_alg sg)) as [h|]; [|discriminate].
    intros H. exists h. split; [reflexivity | assumption].
  Qed.

  Lemma verify_key_ok neg b H sg key :
    verify_key pv neg b H sg = Ok key ->
    s_alg sg = strip_cert neg /\
    exists h, sig_hash key (s_alg sg) = Some h /\ pv (pk_id key) h H (s_sig sg) = true.
  Proof.
    unfold verify_key.
    destruct (assoc neg c07_key_info) as [c|]; [|discriminate].
    destruct (class_of c) as [cls|]; [|discriminate].
    destruct (load_key cls b) as [k|e]; cbn [bind]; [|discriminate].
    destruct (neq (s_alg sg) (strip_cert neg)) eqn:En; cbn [negb]; [|discriminate].
    destruct (verify_ssh_sig pv k H sg) eqn:Ev; [|discriminate].
    intros E. injection E as <-. apply neq_eq in En. split; [assumption|].
    now apply verify_ssh_sig_true.
  Qed.

  Lemma client_accept d dis sl neg b H sg key :
    names_plain d = true ->
    negotiate_hostkey d dis sl = Ok neg ->
    verify_key pv neg b H sg = Ok key ->
    s_alg sg = strip_cert neg /\ In (s_alg sg) d /\ ~ In (s_alg sg) dis /\
    exists h, sig_hash key (s_alg sg) = Some h /\ pv (pk_id key) h H (s_sig sg) = true.
  Proof.
    intros Hp Hn Hv. apply negotiate_In in Hn as [Hin _].
    destruct (preferred_keys_base d dis neg Hp Hin) as [Hd Hdis].
    destruct (verify_key_ok neg b H sg key Hv) as [Ea Hh].
    rewrite Ea. repeat split; try assumption. now rewrite <- Ea.
  Qed.

  (* ---- server ---------------------------------------------------------------------------- *)
  Lemma generate_key_enabled d dis decl b key :
    generate_key d dis decl b = Some key ->
    In (strip_cert decl) d /\ ~ In (strip_cert decl) dis.
  Proof.
    unfold generate_key, preferred_pubkeys.
    destruct (mem (strip_cert decl) (filter_algorithm d dis)) eqn:Em; cbn [negb]; [|discriminate].
    intros _. apply mem_In in Em. now apply filter_algorithm_In.
  Qed.

  Lemma server_accept d dis decl b cbf att data sg key :
    server_pubkey pv d dis decl b cbf att data sg = PkVerified key ->
    generate_key d dis decl b = Some key /\ cbf = false /\ att = true /\
    s_alg sg = strip_cert decl /\ In (s_alg sg) d /\ ~ In (s_alg sg) dis /\
    exists h, sig_hash key (s_alg sg) = Some h /\ pv (pk_id key) h data (s_sig sg) = true.
  Proof.
    unfold server_pubkey.
    destruct (generate_key d dis decl b) as [k|] eqn:Eg; [|discriminate].
    destruct cbf; [discriminate|]. destruct att; cbn [negb]; [|discriminate].
    destruct (neq (s_alg sg) (strip_cert decl)) eqn:En; cbn [negb]; [|discriminate].
    destruct (verify_ssh_sig pv k data sg) eqn:Ev; [|discriminate].
    intros E. injection E as <-. apply neq_eq in En.
    destruct (generate_key_enabled d dis decl b k Eg) as [Hd Hdis].
    rewrite En. repeat split; try assumption. rewrite <- En. now apply verify_ssh_sig_true.
  Qed.

  (* a signature is never examined, and nothing is granted, for a disabled / unknown algorithm *)
  Lemma server_disabled_disconnects d dis decl b cbf att data sg :
    (In (strip_cert decl) dis \/ ~ In (strip_cert decl) d) ->
    server_pubkey pv d dis decl b cbf att data sg = PkDisconnect.
  Proof.
    intros H. unfold server_pubkey, generate_key, preferred_pubkeys.
    destruct (mem (strip_cert decl) (filter_algorithm d dis)) eqn:Em; cbn [negb]; [|reflexivity].
    apply mem_In in Em. apply filter_algorithm_In in Em as [H1 H2]. tauto.
  Qed.

  (* an ECDSA key that is accepted is on the declared / negotiated curve *)
  Lemma ecdsa_curve_matches k alg h :
    pk_class k = KECDSA -> sig_hash k alg = Some h -> pk_ident k = alg.
  Proof.
    unfold sig_hash. intros ->. destruct (neq alg (pk_ident k)) eqn:E; [|discriminate].
    intros _. apply neq_eq in E. now symmetry.
  Qed.
End Verify.

(* ---- the generated defaults ------------------------------------------------------------------- *)
Lemma default_keys_plain : names_plain c07_pref_keys = true.
Proof. vm_compute. reflexivity. Qed.

Lemma default_pubkeys_plain : names_plain c07_pref_pubkeys = true.
Proof. vm_compute. reflexivity. Qed.

Definition n_ssh_rsa : name := [115;115;104;45;114;115;97].
Definition n_rsa256 : name := [114;115;97;45;115;104;97;50;45;50;53;54].
Definition n_rsa512 : name := [114;115;97;45;115;104;97;50;45;53;49;50].
Definition n_p256 : name := [101;99;100;115;97;45;115;104;97;50;45;110;105;115;116;112;50;53;54].
Definition n_p384 : name := [101;99;100;115;97;45;115;104;97;50;45;110;105;115;116;112;51;56;52].

(* among the default preference names only "ssh-rsa" selects SHA-1 *)
Definition sha1_only_ssh_rsa (l : list name) : bool :=
  forallb (fun x => match assoc x c07_rsa_hashes with
                    | Some 1 => neq x n_ssh_rsa
                    | _ => true
                    end) l.

Lemma default_keys_sha1 : sha1_only_ssh_rsa c07_pref_keys = true.
Proof. vm_compute. reflexivity. Qed.
Lemma default_pubkeys_sha1 : sha1_only_ssh_rsa c07_pref_pubkeys = true.
Proof. vm_compute. reflexivity. Qed.

Lemma sha1_needs_ssh_rsa l x :
  sha1_only_ssh_rsa l = true -> In x l -> assoc x c07_rsa_hashes = Some 1 -> x = n_ssh_rsa.
Proof.
  unfold sha1_only_ssh_rsa. rewrite forallb_forall. intros H Hx E.
  specialize (H x Hx). rewrite E in H. now apply neq_eq.
Qed.

Section NoSha1.
  Variable pv : Z -> Z -> list Z -> list Z -> bool.

  (* with "ssh-rsa" disabled, no RSA signature is ever verified under SHA-1 *)
  Lemma client_no_sha1 d dis sl neg b H sg key h :
    names_plain d = true -> sha1_only_ssh_rsa d = true -> In n_ssh_rsa dis ->
    negotiate_hostkey d dis sl = Ok neg ->
    verify_key pv neg b H sg = Ok key ->
    pk_class key = KRSA -> sig_hash key (s_alg sg) = Some h -> h <> 1.
  Proof.
    intros Hp Hs Hdis Hn Hv Hc Hh ->.
    destruct (client_accept pv d dis sl neg b H sg key Hp Hn Hv) as [_ [Hd [Hnd _]]].
    unfold sig_hash in Hh. rewrite Hc in Hh.
    rewrite (sha1_needs_ssh_rsa d (s_alg sg) Hs Hd Hh) in Hnd. contradiction.
  Qed.

  Lemma server_no_sha1 d dis decl b cbf att data sg key h :
    sha1_only_ssh_rsa d = true -> In n_ssh_rsa dis ->
    server_pubkey pv d dis decl b cbf att data sg = PkVerified key ->
    pk_class key = KRSA -> sig_hash key (s_alg sg) = Some h -> h <> 1.
  Proof.
    intros Hs Hdis Hv Hc Hh ->.
    destruct (server_accept pv d dis decl b cbf att data sg key Hv) as [_ [_ [_ [_ [Hd [Hnd _]]]]]].
    unfold sig_hash in Hh. rewrite Hc in Hh.
    rewrite (sha1_needs_ssh_rsa d (s_alg sg) Hs Hd Hh) in Hnd. contradiction.
  Qed.
End NoSha1.

(* ---- the code before the repair ---------------------------------------------------------------- *)
(* a primitive under which the signature bytes are valid for SHA-1 only *)
Definition pv_sha1 : Z -> Z -> list Z -> list Z -> bool := fun _ h _ _ => h =? 1.
Definition rsa_blob : keyblob := MkBlob n_ssh_rsa (Ok 7).
Definition p384_blob : keyblob := MkBlob n_p384 (Ok 9).

Lemma client_v0_refuted :
  exists dis sl neg sg key,
    negotiate_hostkey c07_pref_keys dis sl = Ok neg /\ In n_ssh_rsa dis /\
    neg = n_rsa512 /\
    verify_key_v0 pv_sha1 neg rsa_blob [] sg = Ok key /\
    s_alg sg = n_ssh_rsa /\ s_alg sg <> strip_cert neg /\ sig_hash key (s_alg sg) = Some 1.
Proof.
  exists [n_ssh_rsa], [n_rsa512; n_ssh_rsa], n_rsa512, (MkSig n_ssh_rsa []), (MkKey KRSA n_ssh_rsa 7).
  repeat split; try (vm_compute; reflexivity).
  - now left.
  - vm_compute. discriminate.
Qed.

Lemma server_v0_refuted :
  exists dis decl sg key,
    In n_ssh_rsa dis /\ decl = n_rsa512 /\
    server_pubkey_v0 pv_sha1 c07_pref_pubkeys dis decl rsa_blob false true [] sg = PkVerified key /\
    s_alg sg = n_ssh_rsa /\ s_alg sg <> strip_cert decl /\ sig_hash key (s_alg sg) = Some 1.
Proof.
  exists [n_ssh_rsa], n_rsa512, (MkSig n_ssh_rsa []), (MkKey KRSA n_ssh_rsa 7).
  repeat split; try (vm_compute; reflexivity).
  - now left.
  - vm_compute. discriminate.
Qed.

(* ECDSA before the repair: a key on another (here: disabled) curve than the declared one *)
Lemma server_v0_curve_refuted :
  exists dis decl sg key,
    In n_p384 dis /\ decl = n_p256 /\
    server_pubkey_v0 (fun _ _ _ _ => true) c07_pref_pubkeys dis decl p384_blob false true [] sg
      = PkVerified key /\
    pk_ident key = n_p384 /\ s_alg sg <> strip_cert decl.
Proof.
  exists [n_p384], n_p256, (MkSig n_p384 []), (MkKey KECDSA n_p384 9).
  repeat split; try (vm_compute; reflexivity).
  - now left.
  - vm_compute. discriminate.
Qed.

(* the repaired functions reject those very inputs *)
Lemma client_witness_rejected :
  verify_key pv_sha1 n_rsa512 rsa_blob [] (MkSig n_ssh_rsa []) = Raise SSHExc.
Proof. vm_compute. reflexivity. Qed.
Lemma server_witness_rejected :
  server_pubkey pv_sha1 c07_pref_pubkeys [n_ssh_rsa] n_rsa512 rsa_blob false true [] (MkSig n_ssh_rsa [])
  = PkSigRejected.
Proof. vm_compute. reflexivity. Qed.
