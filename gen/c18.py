"""C18 translator: the client-mode gates of the working tree -> coq/Gen/C18_gen.v.

From the AST (fail-closed: any shape not recognised raises and the check reports a broken obligation):
* Channel._handle_request: the `if key == "...": ... elif ...: ... else: ...` chain.  Every branch is
  classified as  always-ok (`ok = True` only)  or  needs-server (`if server is None: ok = False else:
  ok = server.check_...(...)`); the final else must only set `ok = False`.
* Transport._parse_channel_open: the leading branches `(kind == "...") and (self.<handler> is not None)`,
  followed by `elif not self.server_mode:` whose body sets `reject = True`.
* Transport._parse_global_request: the first branch is `if not self.server_mode:` and only sets `ok = False`.
* the reply hand-over to the waiting thread stores the value before signalling the event
  (Transport.global_response and the event _parse_request_* signal, Channel.event_ready / event), and nothing
  but a stored reply signals the event a global_request(wait=True) waits on (not the end of a re-key).
* every assignment to _x11_handler / _forward_agent_handler / _tcp_handler anywhere in paramiko/ happens in
  one of the known functions (the enable / cancel operations the model's history is made of).
From live objects: message numbers and OPEN_FAILED_ADMINISTRATIVELY_PROHIBITED.
"""
import ast
import glob
import os

HANDLER_IDS = {"_forward_agent_handler": 0, "_x11_handler": 1, "_tcp_handler": 2}
SETTERS = {
    ("transport.py", "__init__"), ("transport.py", "request_port_forward"),
    ("transport.py", "cancel_port_forward"), ("transport.py", "_set_forward_agent_handler"),
    ("transport.py", "_set_x11_handler"),
}


def _bytes(s):
    return "[" + "; ".join(str(b) for b in s.encode("utf-8")) + "]"


def _find_method(tree, cls, name):
    for node in ast.walk(tree):
        if isinstance(node, ast.ClassDef) and node.name == cls:
            for f in node.body:
                if isinstance(f, ast.FunctionDef) and f.name == name:
                    return f
    raise RuntimeError("%s.%s not found" % (cls, name))


def _is_name(n, ident):
    return isinstance(n, ast.Name) and n.id == ident


def _is_self_attr(n, attr=None):
    return isinstance(n, ast.Attribute) and _is_name(n.value, "self") and (attr is None or n.attr == attr)


def _eq_const(test, var):
    """`var == "const"` -> const, else None"""
    if (isinstance(test, ast.Compare) and _is_name(test.left, var) and len(test.ops) == 1
            and isinstance(test.ops[0], ast.Eq) and isinstance(test.comparators[0], ast.Constant)
            and isinstance(test.comparators[0].value, str)):
        return test.comparators[0].value
    return None


def _assigns(body, var):
    """all values assigned to Name `var` anywhere inside the statement list"""
    out = []
    for st in body:
        for n in ast.walk(st):
            if isinstance(n, ast.Assign):
                for t in n.targets:
                    if _is_name(t, var):
                        out.append(n.value)
            elif isinstance(n, (ast.AugAssign, ast.AnnAssign)) and _is_name(n.target, var):
                raise RuntimeError("augmented assignment to %s" % var)
    return out


def _const(v, value):
    return isinstance(v, ast.Constant) and v.value is value


def _request_branches(tree):
    f = _find_method(tree, "Channel", "_handle_request")
    chain = [s for s in f.body if isinstance(s, ast.If) and _eq_const(s.test, "key") is not None]
    if len(chain) != 1:
        raise RuntimeError("_handle_request: expected one `if key == ...` chain, found %d" % len(chain))
    # `server = self.transport.server_object` and no other definition of `server`
    sv = _assigns(f.body, "server")
    if len(sv) != 1 or ast.unparse(sv[0]) != "self.transport.server_object":
        raise RuntimeError("_handle_request: unexpected definition of `server`")
    # outside the chain `ok` may only be initialised to False
    for st in f.body:
        if st is not chain[0]:
            for v in _assigns([st], "ok"):
                if not _const(v, False):
                    raise RuntimeError("_handle_request: `ok` set outside the chain")
    node = chain[0]
    out = []
    while True:
        name = _eq_const(node.test, "key")
        if name is None:
            raise RuntimeError("_handle_request: unrecognised test " + ast.unparse(node.test))
        vals = _assigns(node.body, "ok")
        guards = [s for s in node.body if isinstance(s, ast.If)]
        if vals and all(_const(v, True) for v in vals) and not guards:
            out.append((name, False))
        else:
            if len(guards) != 1 or len(vals) != 2:
                raise RuntimeError("_handle_request[%s]: unrecognised branch shape" % name)
            g = guards[0]
            t = g.test
            ok_test = (isinstance(t, ast.Compare) and _is_name(t.left, "server") and len(t.ops) == 1
                       and isinstance(t.ops[0], ast.Is) and _const(t.comparators[0], None))
            b = _assigns(g.body, "ok")
            e = _assigns(g.orelse, "ok")
            ok_body = len(g.body) == 1 and len(b) == 1 and _const(b[0], False)
            ok_else = (len(g.orelse) == 1 and len(e) == 1 and isinstance(e[0], ast.Call)
                       and isinstance(e[0].func, ast.Attribute) and _is_name(e[0].func.value, "server")
                       and e[0].func.attr.startswith("check_channel_"))
            if not (ok_test and ok_body and ok_else):
                raise RuntimeError("_handle_request[%s]: guard is not `if server is None: ok = False else: "
                                   "ok = server.check_channel_*`" % name)
            out.append((name, True))
        if len(node.orelse) == 1 and isinstance(node.orelse[0], ast.If) and \
                _eq_const(node.orelse[0].test, "key") is not None:
            node = node.orelse[0]
            continue
        vals = _assigns(node.orelse, "ok")
        if not node.orelse or not vals or not all(_const(v, False) for v in vals):
            raise RuntimeError("_handle_request: final else does not set ok = False only")
        break
    names = [n for n, _ in out]
    if len(set(names)) != len(names):
        raise RuntimeError("_handle_request: duplicate request name")
    return out


def _open_branches(tree):
    f = _find_method(tree, "Transport", "_parse_channel_open")
    chain = [s for s in f.body if isinstance(s, ast.If) and any(_is_name(n, "kind") for n in ast.walk(s.test))]
    if not chain:
        raise RuntimeError("_parse_channel_open: no chain on `kind`")
    node = chain[0]
    out = []
    while True:
        t = node.test
        if isinstance(t, ast.BoolOp) and isinstance(t.op, ast.And) and len(t.values) == 2:
            k = _eq_const(t.values[0], "kind")
            h = t.values[1]
            if (k is not None and isinstance(h, ast.Compare) and _is_self_attr(h.left) and len(h.ops) == 1
                    and isinstance(h.ops[0], ast.IsNot) and _const(h.comparators[0], None)
                    and h.left.attr in HANDLER_IDS):
                if _assigns(node.body, "reject"):
                    raise RuntimeError("_parse_channel_open[%s]: handler branch touches `reject`" % k)
                out.append((k, HANDLER_IDS[h.left.attr]))
                if len(node.orelse) == 1 and isinstance(node.orelse[0], ast.If):
                    node = node.orelse[0]
                    continue
                raise RuntimeError("_parse_channel_open: chain ends after a handler branch")
        # must now be the client-mode guard
        if not (isinstance(t, ast.UnaryOp) and isinstance(t.op, ast.Not) and _is_self_attr(t.operand, "server_mode")):
            raise RuntimeError("_parse_channel_open: expected `elif not self.server_mode:`, got " + ast.unparse(t))
        rj = _assigns(node.body, "reject")
        rs = _assigns(node.body, "reason")
        if not (len(rj) == 1 and _const(rj[0], True) and len(rs) == 1 and _is_name(rs[0], "OPEN_FAILED_ADMINISTRATIVELY_PROHIBITED")):
            raise RuntimeError("_parse_channel_open: client branch does not reject with ADMINISTRATIVELY_PROHIBITED")
        break
    # `reject` starts False before the chain
    pre = []
    for st in f.body:
        if st is chain[0]:
            break
        pre += _assigns([st], "reject")
    if len(pre) != 1 or not _const(pre[0], False):
        raise RuntimeError("_parse_channel_open: `reject = False` initialisation not found")
    return out


def _global_guard(tree):
    f = _find_method(tree, "Transport", "_parse_global_request")
    chain = [s for s in f.body if isinstance(s, ast.If) and _assigns([s], "ok")]
    if not chain:
        raise RuntimeError("_parse_global_request: no chain assigning `ok`")
    first = chain[0]
    t = first.test
    if not (isinstance(t, ast.UnaryOp) and isinstance(t.op, ast.Not) and _is_self_attr(t.operand, "server_mode")):
        raise RuntimeError("_parse_global_request: first branch is not `if not self.server_mode:`")
    vals = _assigns(first.body, "ok")
    if not vals or not all(_const(v, False) for v in vals):
        raise RuntimeError("_parse_global_request: client branch does not set ok = False only")
    if any(isinstance(n, ast.Call) and "server_object" in ast.unparse(n) for st in first.body for n in ast.walk(st)):
        raise RuntimeError("_parse_global_request: client branch calls the server object")
    # nothing before the chain may touch `ok`
    for st in f.body:
        if st is first:
            break
        if _assigns([st], "ok"):
            raise RuntimeError("_parse_global_request: `ok` assigned before the role test")
    return True


def _setter_sites(repo):
    sites = set()
    for path in sorted(glob.glob(os.path.join(repo, "paramiko", "*.py"))):
        tree = ast.parse(open(path).read())
        for fn in ast.walk(tree):
            if isinstance(fn, (ast.FunctionDef, ast.AsyncFunctionDef)):
                for n in ast.walk(fn):
                    targets = []
                    if isinstance(n, ast.Assign):
                        targets = n.targets
                    elif isinstance(n, (ast.AugAssign, ast.AnnAssign)):
                        targets = [n.target]
                    for t in targets:
                        for x in ast.walk(t):
                            if isinstance(x, ast.Attribute) and x.attr in HANDLER_IDS:
                                sites.add((os.path.basename(path), fn.name))
        # setattr(..., "_x11_handler", ...) would bypass the scan
        src = open(path).read()
        for h in HANDLER_IDS:
            if ('"%s"' % h) in src or ("'%s'" % h) in src:
                raise RuntimeError("%s mentions %s as a string" % (path, h))
    # nested default_handler functions inside the setters are reported under the inner name too
    sites = {(f, n) for f, n in sites}
    extra = sites - SETTERS
    if extra:
        raise RuntimeError("handler attributes assigned in unexpected places: %s" % sorted(extra))
    missing = SETTERS - sites
    if missing:
        raise RuntimeError("expected handler assignments not found: %s" % sorted(missing))


def _publish_before_signal(tree, cls, entry_points, field, event=None, exclusive=False):
    """Hand-over of a reply to a waiting thread: in class `cls`, every function (other than __init__ and the
    ones that clear it before waiting) that assigns self.<field> must do so BEFORE it calls self.<event>.set(),
    and each entry point must be such a function itself or call exactly one of them.  A waiter woken by the
    event otherwise reads the previous request's value.  event=None: the event is whatever self.X.set() the
    first entry point (or the helper it calls) signals.  exclusive: no other function of the class may signal
    that event (e.g. the end of a key exchange) - the waiter would wake without a reply having been stored."""
    if event is None:
        f0 = _find_method(tree, cls, entry_points[0])
        fns = [f0] + [_find_method(tree, cls, n.func.attr) for n in ast.walk(f0)
                      if isinstance(n, ast.Call) and _is_self_attr(n.func) and n.func.attr.startswith("_")
                      and any(isinstance(g, ast.FunctionDef) and g.name == n.func.attr
                              for k in ast.walk(tree) if isinstance(k, ast.ClassDef) and k.name == cls for g in k.body)]
        evs = {n.func.value.attr for f in fns for n in ast.walk(f)
               if isinstance(n, ast.Call) and isinstance(n.func, ast.Attribute) and n.func.attr == "set"
               and _is_self_attr(n.func.value)}
        if len(evs) != 1:
            raise RuntimeError("%s.%s: expected exactly one self.<event>.set(), found %r" % (cls, entry_points[0], sorted(evs)))
        event = evs.pop()
    klass = None
    for node in ast.walk(tree):
        if isinstance(node, ast.ClassDef) and node.name == cls:
            klass = node
    if klass is None:
        raise RuntimeError("class %s not found" % cls)
    good = set()
    for f in klass.body:
        if not isinstance(f, ast.FunctionDef) or f.name == "__init__":
            continue
        assigns, sets, clears = [], [], []
        for n in ast.walk(f):
            if isinstance(n, (ast.Assign, ast.AugAssign, ast.AnnAssign)):
                targets = n.targets if isinstance(n, ast.Assign) else [n.target]
                for t in targets:
                    if _is_self_attr(t, field):
                        assigns.append(n.lineno)
            if isinstance(n, ast.Call) and isinstance(n.func, ast.Attribute) and _is_self_attr(n.func.value, event):
                if n.func.attr == "set":
                    sets.append(n.lineno)
                elif n.func.attr == "clear":
                    clears.append(n.lineno)
        if not assigns:
            continue
        creates = any(isinstance(n, ast.Assign) and any(_is_self_attr(x, event) for t in n.targets for x in ast.walk(t))
                      for n in ast.walk(f))
        if not sets:
            if clears or creates:
                continue          # preparing to wait (Channel._event_pending, Transport.global_request)
            raise RuntimeError("%s.%s assigns self.%s but never signals self.%s" % (cls, f.name, field, event))
        if max(assigns) >= min(sets):
            raise RuntimeError("%s.%s signals self.%s before storing self.%s: a woken waiter can read the previous "
                               "value" % (cls, f.name, event, field))
        good.add(f.name)
    # whoever re-arms the event for the next request must also forget the previous outcome
    for f in klass.body:
        if isinstance(f, ast.FunctionDef):
            clears = any(isinstance(n, ast.Call) and isinstance(n.func, ast.Attribute) and n.func.attr == "clear"
                         and _is_self_attr(n.func.value, event) for n in ast.walk(f))
            resets = any(isinstance(n, ast.Assign) and any(_is_self_attr(t, field) for t in n.targets)
                         for n in f.body)
            if clears and not resets:
                raise RuntimeError("%s.%s clears self.%s for the next request without resetting self.%s: the "
                                   "previous request's outcome is taken for the next one's" % (cls, f.name, event, field))
    if exclusive:
        for f in klass.body:
            if isinstance(f, ast.FunctionDef) and f.name not in good:
                for n in ast.walk(f):
                    if (isinstance(n, ast.Call) and isinstance(n.func, ast.Attribute) and n.func.attr == "set"
                            and _is_self_attr(n.func.value, event)):
                        raise RuntimeError("%s.%s signals self.%s, the event the waiter for self.%s waits on, without "
                                           "storing a reply: the waiter wakes up with the previous request's value"
                                           % (cls, f.name, event, field))
    for ep in entry_points:
        f = _find_method(tree, cls, ep)
        if ep in good:
            continue
        called = [n.func.attr for n in ast.walk(f) if isinstance(n, ast.Call) and _is_self_attr(n.func)
                  and n.func.attr in good]
        if len(called) != 1:
            raise RuntimeError("%s.%s does not store self.%s and then signal self.%s" % (cls, ep, field, event))


def _cancel_unconditional(tree):
    """Transport.cancel_port_forward drops the handler itself, unconditionally (a top-level statement after the
    `if not self.active: return` guard), before it asks the server: the server's answer must not matter."""
    f = _find_method(tree, "Transport", "cancel_port_forward")
    drop = [i for i, st in enumerate(f.body) if isinstance(st, ast.Assign) and len(st.targets) == 1
            and _is_self_attr(st.targets[0], "_tcp_handler") and _const(st.value, None)]
    ask = [i for i, st in enumerate(f.body) for n in ast.walk(st)
           if isinstance(n, ast.Call) and _is_self_attr(n.func, "global_request")]
    if len(drop) != 1 or not ask or drop[0] > min(ask):
        raise RuntimeError("cancel_port_forward does not drop _tcp_handler unconditionally before asking the server")
    for st in f.body[:drop[0]]:
        if isinstance(st, ast.Expr) and isinstance(st.value, ast.Constant):
            continue
        if not (isinstance(st, ast.If) and ast.unparse(st.test) == "not self.active" and len(st.body) == 1
                and isinstance(st.body[0], ast.Return) and not st.orelse):
            raise RuntimeError("cancel_port_forward: unexpected statement before the handler is dropped: "
                               + ast.unparse(st)[:80])


def generate(repo):
    import paramiko
    from paramiko import common
    got = os.path.realpath(os.path.dirname(paramiko.__file__))
    if got != os.path.realpath(os.path.join(repo, "paramiko")):
        raise RuntimeError("paramiko imported from %s, not from %s" % (got, repo))
    ttree = ast.parse(open(os.path.join(repo, "paramiko", "transport.py")).read())
    ctree = ast.parse(open(os.path.join(repo, "paramiko", "channel.py")).read())
    req = _request_branches(ctree)
    opn = _open_branches(ttree)
    _global_guard(ttree)
    _setter_sites(repo)
    _cancel_unconditional(ttree)
    _publish_before_signal(ttree, "Transport", ["_parse_request_success", "_parse_request_failure"],
                           "global_response", exclusive=True)
    _publish_before_signal(ctree, "Channel", ["_request_success"], "event_ready", "event")
    out = ["(* GENERATED by gen/c18.py from the working tree - do not edit *)",
           "From Coq Require Import ZArith List.", "Import ListNotations.", "Open Scope Z_scope.", ""]
    out.append("(* Channel._handle_request chain: (request name, needs a server object) in source order;")
    out.append("   false = the branch sets ok = True unconditionally; names not listed: ok = False *)")
    out.append("Definition request_branches : list (list Z * bool) := [")
    out.append(";\n".join("  (%s, %s) (* %s *)" % (_bytes(n), "true" if ns else "false", n) for n, ns in req))
    out.append("].")
    out.append("(* Transport._parse_channel_open leading branches: (kind, handler id) with")
    out.append("   0 = _forward_agent_handler, 1 = _x11_handler, 2 = _tcp_handler; then `elif not self.server_mode: reject` *)")
    out.append("Definition open_branches : list (list Z * Z) := [")
    out.append(";\n".join("  (%s, %d) (* %s *)" % (_bytes(k), h, k) for k, h in opn))
    out.append("].")
    for c in ["MSG_REQUEST_SUCCESS", "MSG_REQUEST_FAILURE", "MSG_CHANNEL_OPEN_SUCCESS", "MSG_CHANNEL_OPEN_FAILURE",
              "MSG_CHANNEL_SUCCESS", "MSG_CHANNEL_FAILURE", "OPEN_SUCCEEDED",
              "OPEN_FAILED_ADMINISTRATIVELY_PROHIBITED"]:
        v = getattr(common, c)
        if not isinstance(v, int):
            raise RuntimeError("%s is not an int" % c)
        out.append("Definition %s : Z := %d." % (c, v))
    return {"C18_gen.v": "\n".join(out) + "\n"}
