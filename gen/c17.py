"""C17 translator: fail-closed structural (AST) checks of the orderings the model coq/Model/C17.v assumes.

generate(repo) -> {"C17_gen.v": text}.  Nothing is imported from the repo; the source files are parsed.
Any of the following that no longer holds raises (the check then reports a broken obligation):

 1. every Transport.auth_X method (auth_none, auth_password, auth_publickey, auth_interactive,
    auth_gssapi_with_mic, auth_gssapi_keyex) begins - after the docstring - with
        if (not self.active) or (not self.initial_kex_done): raise SSHException(...)
    auth_interactive_dumb only delegates to auth_interactive; every ServiceRequestingTransport.auth_X
    begins with self.ensure_session(), which begins with the same guard; get_remote_server_key too;
 2. `initial_kex_done` is assigned only in Transport.__init__ (False) and Transport._parse_newkeys
    (True), and there only after self._activate_inbound();
 3. in every non-GSS kex module, a function that calls transport._verify_key calls
    transport._activate_outbound later in the same function, and a function that calls
    _activate_outbound without _verify_key signs (server side);
 4. Transport.connect: start_client() precedes the host key comparison, whose
    raise SSHException("Bad host key from server") precedes every self.auth_X( call;
 5. SSHClient.connect: t.start_client( precedes missing_host_key( and raise BadHostKeyException(,
    which precede auth_strategy.authenticate( and self._auth(; that host key block is the body of the
    top-level `if not self._transport.gss_kex_used:` with exactly the three known inner conditions, and
    gss_kex_used is assigned False in Transport.__init__ / _send_kex_init and True in kex_gss.py only
    (so it reflects a NEGOTIATED gss kex, never what the peer advertises);
 6. AuthHandler._request_auth sends only SERVICE_REQUEST; the credential-bearing USERAUTH_REQUEST is
    built in _parse_service_accept only.
"""
import ast
import glob
import os

GUARD = "(not self.active) or (not self.initial_kex_done)"


def _cls(tree, name):
    for n in tree.body:
        if isinstance(n, ast.ClassDef) and n.name == name:
            return n
    raise RuntimeError("class %s not found" % name)


def _fn(cls, name):
    for n in cls.body:
        if isinstance(n, ast.FunctionDef) and n.name == name:
            return n
    raise RuntimeError("method %s.%s not found" % (cls.name, name))


def _body(fn):
    b = fn.body
    if b and isinstance(b[0], ast.Expr) and isinstance(getattr(b[0], "value", None), ast.Constant) \
            and isinstance(b[0].value.value, str):
        b = b[1:]
    return b


def _is_guard(stmt):
    if not isinstance(stmt, ast.If) or stmt.orelse:
        return False
    if ast.unparse(stmt.test) != "not self.active or not self.initial_kex_done":
        return False
    last = stmt.body[-1]
    return (isinstance(last, ast.Raise) and isinstance(last.exc, ast.Call)
            and ast.unparse(last.exc.func) == "SSHException")


def _calls(fn, attr):
    """line numbers of calls `<something>.attr(...)` inside fn"""
    out = []
    for n in ast.walk(fn):
        if isinstance(n, ast.Call) and isinstance(n.func, ast.Attribute) and n.func.attr == attr:
            out.append(n.lineno)
    return sorted(out)


def _raises(fn, text):
    out = []
    for n in ast.walk(fn):
        if isinstance(n, ast.Raise) and n.exc is not None and ast.unparse(n.exc).startswith(text):
            out.append(n.lineno)
    return sorted(out)


def _need(cond, msg):
    if not cond:
        raise RuntimeError("C17 ordering check failed: " + msg)


def generate(repo):
    pk = os.path.join(repo, "paramiko")
    tsrc = open(os.path.join(pk, "transport.py")).read()
    ttree = ast.parse(tsrc)
    T = _cls(ttree, "Transport")
    SRT = _cls(ttree, "ServiceRequestingTransport")

    # ---- 1. guards ------------------------------------------------------------
    guarded = []
    for fn in T.body:
        if isinstance(fn, ast.FunctionDef) and fn.name.startswith("auth_"):
            b = _body(fn)
            if fn.name == "auth_interactive_dumb":
                _need(not any(_calls(fn, a) for a in ("_send_message", "_send_user_message")) and
                      _calls(fn, "auth_interactive"), "auth_interactive_dumb no longer only delegates")
                continue
            _need(b and _is_guard(b[0]), "Transport.%s does not begin with the session guard" % fn.name)
            guarded.append(fn.name)
    _need(set(guarded) >= {"auth_none", "auth_password", "auth_publickey", "auth_interactive",
                           "auth_gssapi_with_mic", "auth_gssapi_keyex"}, "an auth_X method is missing: %r" % guarded)
    _need(any(_is_guard(s) for s in _body(_fn(T, "get_remote_server_key"))[:1]),
          "get_remote_server_key does not begin with the session guard")
    es = _body(_fn(SRT, "ensure_session"))
    _need(es and _is_guard(es[0]), "ServiceRequestingTransport.ensure_session does not begin with the guard")
    for fn in SRT.body:
        if isinstance(fn, ast.FunctionDef) and fn.name.startswith("auth_"):
            b = _body(fn)
            _need(b and ast.unparse(b[0]) == "self.ensure_session()",
                  "ServiceRequestingTransport.%s does not begin with ensure_session()" % fn.name)
            guarded.append("SRT." + fn.name)

    # ---- 2. initial_kex_done assignments ------------------------------------------
    sites = []
    for cls in (n for n in ttree.body if isinstance(n, ast.ClassDef)):
        for fn in (n for n in cls.body if isinstance(n, ast.FunctionDef)):
            for n in ast.walk(fn):
                if isinstance(n, (ast.Assign, ast.AugAssign, ast.AnnAssign)):
                    tg = n.targets if isinstance(n, ast.Assign) else [n.target]
                    for t in tg:
                        if isinstance(t, ast.Attribute) and t.attr == "initial_kex_done":
                            sites.append((cls.name, fn.name, n.lineno, ast.unparse(n.value)))
    _need(sorted((c, f) for c, f, _, _ in sites) == [("Transport", "__init__"), ("Transport", "_parse_newkeys")],
          "initial_kex_done is assigned at %r" % sites)
    for c, f, ln, val in sites:
        _need(val == ("False" if f == "__init__" else "True"), "unexpected value %s in %s" % (val, f))
    for n in ast.walk(ttree):
        if isinstance(n, ast.Call) and ast.unparse(n.func) in ("setattr", "object.__setattr__") and \
                "initial_kex_done" in ast.unparse(n):
            raise RuntimeError("C17 ordering check failed: setattr of initial_kex_done")
    pn = _fn(T, "_parse_newkeys")
    ai = _calls(pn, "_activate_inbound")
    ln_set = [ln for c, f, ln, _ in sites if f == "_parse_newkeys"][0]
    _need(ai and ai[0] < ln_set, "_parse_newkeys sets initial_kex_done before _activate_inbound()")

    # ---- 3. kex engines: verify before activate_outbound ------------------------------
    nkex = 0
    for path in sorted(glob.glob(os.path.join(pk, "kex_*.py"))):
        if os.path.basename(path) == "kex_gss.py":
            continue
        tree = ast.parse(open(path).read())
        for cls in (n for n in tree.body if isinstance(n, ast.ClassDef)):
            for fn in (n for n in cls.body if isinstance(n, ast.FunctionDef)):
                v, a = _calls(fn, "_verify_key"), _calls(fn, "_activate_outbound")
                if v:
                    _need(a and max(v) < min(a), "%s.%s: _activate_outbound does not follow _verify_key"
                          % (os.path.basename(path), fn.name))
                    nkex += 1
                elif a:
                    _need(_calls(fn, "sign_ssh_data"), "%s.%s activates outbound keys without verifying or signing"
                          % (os.path.basename(path), fn.name))
    _need(nkex >= 4, "fewer client reply handlers with _verify_key than expected (%d)" % nkex)

    # ---- 4. Transport.connect ----------------------------------------------------------
    cn = _fn(T, "connect")
    sc = _calls(cn, "start_client")
    bad = _raises(cn, "SSHException('Bad host key from server')")
    auths = sorted(sum((_calls(cn, a) for a in ("auth_password", "auth_publickey", "auth_gssapi_with_mic",
                                                 "auth_gssapi_keyex", "auth_none", "auth_interactive")), []))
    _need(len(sc) == 1 and len(bad) == 1 and auths, "Transport.connect: start_client / bad host key / auth sites")
    _need(sc[0] < bad[0] < auths[0], "Transport.connect: order start_client < host key check < auth_X broken")
    _need(_calls(cn, "get_remote_server_key") and sc[0] < _calls(cn, "get_remote_server_key")[0] < bad[0],
          "Transport.connect: get_remote_server_key not between start_client and the comparison")

    # ---- 5. SSHClient.connect -------------------------------------------------------------
    ctree = ast.parse(open(os.path.join(pk, "client.py")).read())
    C = _cls(ctree, "SSHClient")
    cc = _fn(C, "connect")
    sc = _calls(cc, "start_client")
    mh = _calls(cc, "missing_host_key")
    bh = _raises(cc, "BadHostKeyException(")
    au = sorted(_calls(cc, "_auth") + _calls(cc, "authenticate"))
    _need(len(sc) == 1 and len(mh) == 1 and len(bh) == 1 and len(au) == 2, "SSHClient.connect: call sites changed")
    _need(sc[0] < mh[0] < au[0] and sc[0] < bh[0] < au[0],
          "SSHClient.connect: order start_client < host key checks < authentication broken")
    for pol, must in (("RejectPolicy", "raise"), ("AutoAddPolicy", "add"), ("WarningPolicy", "warn")):
        fn = _fn(_cls(ctree, pol), "missing_host_key")
        src = ast.unparse(fn)
        if must == "raise":
            _need(isinstance(_body(fn)[-1], ast.Raise), "RejectPolicy.missing_host_key no longer ends in raise")
        else:
            _need(not any(isinstance(n, ast.Raise) for n in ast.walk(fn)) and must in src,
                  "%s.missing_host_key changed" % pol)

    # ---- 5b. gss_kex_used: where it is assigned, and that it alone skips the host key block ------------
    gsites = []
    for path in sorted(glob.glob(os.path.join(pk, "*.py"))):
        tree = ttree if os.path.basename(path) == "transport.py" else ast.parse(open(path).read())
        for cls in (n for n in ast.walk(tree) if isinstance(n, ast.ClassDef)):
            for fn in (n for n in cls.body if isinstance(n, ast.FunctionDef)):
                for n in ast.walk(fn):
                    if isinstance(n, (ast.Assign, ast.AugAssign, ast.AnnAssign)):
                        tg = n.targets if isinstance(n, ast.Assign) else [n.target]
                        for t in tg:
                            if isinstance(t, ast.Attribute) and t.attr == "gss_kex_used":
                                gsites.append((os.path.basename(path), cls.name, fn.name, ast.unparse(n.value)))
        src = open(path).read()
        _need("setattr" not in src or "gss_kex_used" not in "".join(
            l for l in src.splitlines() if "setattr" in l), "setattr of gss_kex_used in %s" % path)
    for f, c, fname, val in gsites:
        if f == "transport.py":
            _need((c, fname, val) in (("Transport", "__init__", "False"), ("Transport", "_send_kex_init", "False")),
                  "gss_kex_used assigned in transport.py at %s.%s = %s (only the reset to False is modelled; "
                  "it must be set by a NEGOTIATED gss kex engine only)" % (c, fname, val))
        else:
            _need(f == "kex_gss.py" and val == "True",
                  "gss_kex_used assigned outside the GSS kex engines: %s %s.%s = %s" % (f, c, fname, val))
    _need(any(f == "kex_gss.py" for f, _, _, _ in gsites) and
          sum(1 for f, _, _, _ in gsites if f == "transport.py") == 2, "gss_kex_used assignment sites changed: %r" % gsites)
    # the kex engine that runs is the negotiated one: self.kex_engine = self._kex_info[agreed_kex[0]](self)
    _need("self.kex_engine = self._kex_info[agreed_kex[0]](self)" in ast.unparse(_fn(T, "_parse_kex_init")),
          "_parse_kex_init no longer instantiates the kex engine of the negotiated algorithm")
    # SSHClient.connect: the host key block is the body of the top-level `if not self._transport.gss_kex_used:`
    blocks = [st for st in cc.body if isinstance(st, ast.If) and "gss_kex_used" in ast.unparse(st.test)]
    _need(len(blocks) == 1 and ast.unparse(blocks[0].test) == "not self._transport.gss_kex_used"
          and not blocks[0].orelse, "SSHClient.connect: host key block is no longer guarded by exactly "
          "`if not self._transport.gss_kex_used:`")
    blk = blocks[0]
    _need(blk.lineno < mh[0] <= blk.end_lineno and blk.lineno < bh[0] <= blk.end_lineno,
          "SSHClient.connect: policy call / BadHostKeyException are outside the host key block")
    for st in cc.body:
        if st is not blk and isinstance(st, (ast.If, ast.Try, ast.With, ast.For, ast.While)):
            _need(not (st.lineno <= mh[0] <= st.end_lineno), "host key block nested under another statement")
    # a refusing policy refuses by raising: nothing in the host key block may catch exceptions
    _need(not any(isinstance(n, (ast.Try, ast.With)) for n in ast.walk(blk)),
          "SSHClient.connect: the host key block contains a try / with (a policy's exception must propagate)")
    inner = [n for n in ast.walk(blk) if isinstance(n, ast.If) and n is not blk]
    _need(sorted(ast.unparse(n.test) for n in inner) ==
          sorted(["our_server_keys is None", "our_key != server_key", "our_key is None"]),
          "SSHClient.connect: the conditions inside the host key block changed: %r"
          % [ast.unparse(n.test) for n in inner])

    # ---- 6. credentials leave in _parse_service_accept only ---------------------------------
    atree = ast.parse(open(os.path.join(pk, "auth_handler.py")).read())
    A = _cls(atree, "AuthHandler")
    ra = ast.unparse(_fn(A, "_request_auth"))
    _need("cMSG_SERVICE_REQUEST" in ra and "USERAUTH" not in ra and "password" not in ra,
          "AuthHandler._request_auth sends more than SERVICE_REQUEST")
    for name in ("auth_none", "auth_publickey", "auth_password", "auth_interactive"):
        src = ast.unparse(_fn(A, name))
        _need("_send_message" not in src and "self._request_auth()" in src,
              "AuthHandler.%s no longer only records the method and calls _request_auth" % name)
    _need("cMSG_USERAUTH_REQUEST" in ast.unparse(_fn(A, "_parse_service_accept")),
          "AuthHandler._parse_service_accept no longer builds the USERAUTH_REQUEST")

    out = ["(* GENERATED by gen/c17.py: the structural ordering checks of transport.py / client.py /",
           "   kex_X.py / auth_handler.py all passed on this source tree - do not edit *)",
           "From Coq Require Import ZArith.", "Open Scope Z_scope.", "",
           "Definition c17_guarded_auth_methods : Z := %d." % len(guarded),
           "Definition c17_client_kex_reply_handlers : Z := %d." % nkex, ""]
    return {"C17_gen.v": "\n".join(out)}
