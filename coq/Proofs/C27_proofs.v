(* C27 — proofs.  The read / seek / tell fragment of SFTPFile refines the reference file
   semantics (Lib/FileSpec.v): the server handle is a prefix reader in the sense of the generic
   section of C42_proofs, so the C42 loop lemmas give the value of every read call; seek and
   tell are handled directly.  Plus: open agrees with the reference for every mode, and the
   witnesses of the known divergences (_refuted). *)
From PV Require Import Bytes C42 C42_proofs FileSpec C27.
From Coq Require Import Lia ZifyBool.
Open Scope Z_scope.

Lemma skipn_skipn' {A} (x y : nat) (l : list A) : skipn x (skipn y l) = skipn (y + x) l.
Proof.
  revert l. induction y as [|y IH]; intros l; cbn; [reflexivity|].
  destruct l; [now rewrite skipn_nil|apply IH].
Qed.
Lemma drop_drop a b l : 0 <= a -> 0 <= b -> drop a (drop b l) = drop (b + a) l.
Proof. intros. rewrite !drop_skipn, skipn_skipn'. f_equal. lia. Qed.

Lemma take_drop_len k l : 0 <= k -> l = take k l ++ drop (zlen (take k l)) l.
Proof.
  intros Hk. rewrite zlen_take by lia. destruct (Z_le_gt_dec k (zlen l)).
  - rewrite Z.min_l by lia. symmetry. apply take_drop.
  - rewrite Z.min_r by lia. rewrite take_all, drop_all by lia. now rewrite app_nil_r.
Qed.

(* ---- the server handle as a prefix reader ---- *)
Definition srv_ok (s : srv) : Prop :=
  match s_tell s with Some t => t = s_fpos s | None => True end.
Definition sRem (s : srv) (rp : Z) : list Z := drop rp (s_content s).
Definition sInv (c : list Z) (s : srv) (rp : Z) : Prop := s_content s = c /\ 0 <= rp /\ srv_ok s.

Lemma s_read_spec c : forall s rp n d s',
  sInv c s rp -> 0 < n -> s_read s rp n = (d, s') ->
  sRem s rp = d ++ sRem s' (rp + zlen d) /\ zlen d <= n /\ (d = [] -> sRem s rp = []) /\
  sInv c s' (rp + zlen d).
Proof.
  intros s rp n d s' (Hc & Hrp & Hok) Hn E. unfold s_read in E.
  set (k := Z.min n MAX_REQUEST_SIZE) in *.
  assert (Hk : 1 <= k <= n) by (unfold k, MAX_REQUEST_SIZE; lia).
  set (t := match s_tell s with Some t => t | None => s_fpos s end) in *.
  assert (Ht : t = s_fpos s) by (unfold t, srv_ok in *; destruct (s_tell s); auto).
  assert (Hfp : (if rp =? t then s_fpos s else rp) = rp) by (destruct (rp =? t) eqn:Eq; lia).
  rewrite Hfp in E. injection E as <- <-. unfold sRem, sInv, srv_ok. cbn.
  set (X := drop rp (s_content s)).
  split.
  { rewrite <- drop_drop by (try lia; apply zlen_nonneg). fold X. apply take_drop_len. lia. }
  split; [rewrite zlen_take by lia; lia|].
  split.
  { intros H. apply (f_equal zlen) in H. rewrite zlen_take, zlen_nil in H by lia.
    apply zlen_zero. pose proof (zlen_nonneg X). lia. }
  split; [exact Hc|]. split; [pose proof (zlen_nonneg (take k X)); lia|reflexivity].
Qed.

(* ---- invariant tying an SFTPFile to the reference file ---- *)
Definition Lf (f : sfile) : list Z := L srv sRem f.

Record tied (c : list Z) (f : sfile) (r : rfile) : Prop := mk_tied {
  t_content : s_content (strm f) = c;
  t_rcontent : r_content r = c;
  t_pos : pos f = r_pos r;
  t_pos0 : 0 <= pos f;
  t_real : realpos f = pos f + zlen (rbuf f);
  t_L : Lf f = drop (pos f) c;
  t_wbuf : wbuf f = [];
  t_closed : closed f = false;
  t_read : fl_read f = true;
  t_rrd : r_rd r = true;
  t_bufsize : 0 < bufsize f;
  t_srv : srv_ok (strm f) }.

Lemma tied_inv c f r : tied c f r -> inv srv (sInv c) f.
Proof.
  intros T. unfold inv, sInv. split; [apply T|]. split; [|apply T].
  rewrite (t_real _ _ _ T). pose proof (t_pos0 _ _ _ T). pose proof (zlen_nonneg (rbuf f)). lia.
Qed.
Lemma tied_fuel c f r fuel : tied c f r -> (length c < fuel)%nat -> fuel_ok srv sRem fuel f.
Proof.
  intros T Hf. unfold fuel_ok, RemOf, sRem. rewrite (t_content _ _ _ T), drop_skipn, skipn_length. lia.
Qed.
Lemma tied_rest c f r : tied c f r -> rest r = Lf f.
Proof. intros T. unfold rest. now rewrite (t_L _ _ _ T), (t_rcontent _ _ _ T), (t_pos _ _ _ T). Qed.

(* a successful read call keeps the tie, the reference position advancing by the result *)
Lemma post_tied c f f' r res :
  tied c f r -> post srv sRem (sInv c) f f' res ->
  tied c f' (set_pos r (r_pos r + zlen res)).
Proof.
  intros T (P1 & (I1 & I2 & I3) & Cfg & P4 & P5).
  destruct Cfg as (C1 & C2 & C3 & C4 & C5 & C6 & C7 & C8 & C9).
  fold (Lf f) in P1. fold (Lf f') in P1.
  assert (HL : Lf f' = drop (pos f') c).
  { destruct (app_take_inv _ _ _ P1) as [_ H2]. rewrite H2, (t_L _ _ _ T), P4.
    apply drop_drop; [apply zlen_nonneg|apply T]. }
  assert (Hreal : realpos f' = pos f' + zlen (rbuf f')).
  { apply (f_equal zlen) in P1. unfold Lf, L in P1. rewrite !zlen_app in P1.
    rewrite (t_real _ _ _ T) in P5. lia. }
  apply mk_tied; cbn;
    [ exact I1 | apply T | rewrite P4, (t_pos _ _ _ T); reflexivity
    | rewrite P4; pose proof (t_pos0 _ _ _ T); pose proof (zlen_nonneg res); lia
    | exact Hreal | exact HL | rewrite C1; apply T | rewrite C9; apply T | rewrite C3; apply T
    | apply T | rewrite C8; apply T | exact I3 ].
Qed.

Lemma tied_read_exn c f r : tied c f r -> closed f = false /\ fl_read f = true.
Proof. intros T. split; apply T. Qed.

Lemma generic_bufsize {S} (hr hw ha hp : bool) bufsz size0 (s : S) :
  0 < bufsize (set_mode hr hw ha hp bufsz size0 s).
Proof. unfold set_mode, DEFAULT_BUFSIZE. cbn. destruct (bufsz <? 0) eqn:E; destruct (1 <? _) eqn:E2; lia. Qed.

(* one call of the fragment *)
Lemma step_refines c fuel f r o :
  tied c f r -> (length c < fuel)%nat -> read_only_op o = true ->
  exists x f' r', sf_step fuel f o = (x, f') /\ ref_step r o = (x, r') /\ tied c f' r'.
Proof.
  intros T Hf Ho. pose proof (tied_inv _ _ _ T) as Hi. pose proof (tied_fuel _ _ _ _ T Hf) as Hfo.
  destruct (tied_read_exn _ _ _ T) as [Hc Hr].
  destruct o as [n|size| |d|off whence| |n|]; try discriminate Ho; cbn [sf_step ref_step].
  - (* read *)
    rewrite (t_rrd _ _ _ T). cbn [negb]. rewrite (tied_rest _ _ _ T).
    destruct n as [n|]; [destruct (Z_lt_ge_dec n 0) as [Hn|Hn]|].
    + destruct (read_all_spec srv s_read sRem (sInv c) (s_read_spec c) fuel f (Some n) Hi Hfo Hc Hr Hn)
        as (f' & E & P & _).
      rewrite E. replace (n <? 0) with true by lia. fold (Lf f). eexists _, f', _.
      split; [reflexivity|]. split; [reflexivity|]. eapply post_tied; eassumption.
    + destruct (read_n_spec srv s_read sRem (sInv c) (s_read_spec c) fuel f n Hi Hfo (t_bufsize _ _ _ T) Hc Hr ltac:(lia))
        as (f' & E & P).
      rewrite E. replace (n <? 0) with false by lia. fold (Lf f). eexists _, f', _.
      split; [reflexivity|]. split; [reflexivity|]. eapply post_tied; eassumption.
    + destruct (read_all_spec srv s_read sRem (sInv c) (s_read_spec c) fuel f None Hi Hfo Hc Hr I)
        as (f' & E & P & _).
      rewrite E. fold (Lf f). eexists _, f', _.
      split; [reflexivity|]. split; [reflexivity|]. eapply post_tied; eassumption.
  - (* readline *)
    rewrite (t_rrd _ _ _ T). cbn [negb]. rewrite (tied_rest _ _ _ T).
    destruct (readline_spec srv s_read sRem (sInv c) (s_read_spec c) fuel f size Hi Hfo (t_bufsize _ _ _ T) Hc Hr)
      as (f' & E & P).
    rewrite E. fold (Lf f). eexists _, f', _.
    split; [reflexivity|]. split; [reflexivity|]. eapply post_tied; eassumption.
  - (* seek *)
    unfold sf_seek, bf_flush. rewrite (t_wbuf _ _ _ T).
    assert (Hw : write_all s_write fuel f [] = Some f) by (destruct fuel; reflexivity).
    rewrite Hw. cbn [pos strm upd_wr].
    rewrite (t_content _ _ _ T), (t_rcontent _ _ _ T), <- (t_pos _ _ _ T).
    set (p := if whence =? 0 then off else if whence =? 1 then pos f + off else zlen c + off).
    destruct (p <? 0) eqn:Ep.
    + eexists _, _, _. split; [reflexivity|]. split; [reflexivity|].
      destruct T. unfold Lf, L, RemOf in *. constructor; unfold Lf, L, RemOf; cbn; try assumption; try reflexivity.
    + eexists _, _, _. split; [reflexivity|]. split; [reflexivity|].
      destruct T. unfold Lf, L, RemOf, sRem in *.
      constructor; unfold Lf, L, RemOf, sRem; cbn; try assumption; try lia; try reflexivity.
      rewrite t_content0. reflexivity.
  - (* tell *)
    rewrite (t_pos _ _ _ T). eexists _, _, _. split; [reflexivity|]. split; [reflexivity|]. exact T.
Qed.

Lemma run_refines c fuel : forall ops f r,
  tied c f r -> (length c < fuel)%nat -> forallb read_only_op ops = true ->
  exists f' r', fst (sf_run fuel f ops) = fst (ref_run r ops) /\
                f' = snd (sf_run fuel f ops) /\ r' = snd (ref_run r ops) /\ tied c f' r'.
Proof.
  induction ops as [|o ops IH]; intros f r T Hf Ho; cbn [sf_run ref_run].
  - exists f, r. split; [reflexivity|]. split; [reflexivity|]. split; [reflexivity|exact T].
  - cbn [forallb] in Ho. apply andb_true_iff in Ho as [Ho1 Ho2].
    destruct (step_refines c fuel f r o T Hf Ho1) as (x & f1 & r1 & E1 & E2 & T1).
    rewrite E1, E2. destruct (IH f1 r1 T1 Hf Ho2) as (f' & r' & H1 & H2 & H3 & T').
    destruct (sf_run fuel f1 ops) as [xs f2]. destruct (ref_run r1 ops) as [ys r2]. cbn in *.
    exists f', r'. subst. split; [now f_equal|]. split; [reflexivity|]. split; [reflexivity|exact T'].
Qed.

Lemma open_tied m bufsz file f0 r0 :
  sf_open m bufsz file = Some f0 -> ref_open m file = Some r0 -> m_read m = true ->
  tied (r_content r0) f0 r0.
Proof.
  intros Hs Hr Hm. unfold sf_open, ref_open in *.
  assert (Hgen : forall c', tied c'
      (set_mode (match m with Mr | Mrp => true | _ => false end)
                (match m with Mw | Mwp | Mx => true | _ => false end) (m_append m)
                (match m with Mrp | Mwp | Map => true | _ => false end) bufsz (zlen c')
                (mksrv c' (if m_append m then zlen c' else 0) None (m_append m)))
      (mkrf c' (if m_append m then zlen c' else 0) (m_read m) (m_write m) (m_append m))).
  { intros c'. apply mk_tied;
      [ reflexivity | reflexivity | reflexivity
      | cbn; destruct (m_append m); [apply zlen_nonneg|lia]
      | cbn; lia
      | unfold Lf, L, RemOf, sRem; cbn; reflexivity
      | reflexivity | reflexivity
      | cbn; destruct m; try discriminate Hm; reflexivity
      | exact Hm
      | apply (generic_bufsize _ _ _ _ bufsz (zlen c')
                 (mksrv c' (if m_append m then zlen c' else 0) None (m_append m)))
      | exact I ]. }
  destruct file as [c0|].
  - destruct (m_excl m); [discriminate|]. injection Hs as <-. injection Hr as <-. cbn [r_content]. apply Hgen.
  - destruct (m_must_exist m); [discriminate|]. injection Hs as <-. injection Hr as <-. cbn [r_content].
    specialize (Hgen []). change (zlen []) with 0 in *.
    destruct (m_append m); exact Hgen.
Qed.

(* the partial refinement theorem *)
Lemma refines_partial :
  forall (m : fmode) (bufsz : Z) (file : option (list Z)) (ops : list fop) (fuel : nat)
         (f0 : sfile) (r0 : rfile),
    sf_open m bufsz file = Some f0 -> ref_open m file = Some r0 ->
    m_read m = true -> forallb read_only_op ops = true ->
    (length (r_content r0) < fuel)%nat ->
    fst (sf_run fuel f0 ops) = fst (ref_run r0 ops) /\
    final_content fuel (snd (sf_run fuel f0 ops)) = r_content (snd (ref_run r0 ops)).
Proof.
  intros m bufsz file ops fuel f0 r0 Hs Hr Hm Ho Hf.
  pose proof (open_tied _ _ _ _ _ Hs Hr Hm) as T0.
  destruct (run_refines _ fuel ops f0 r0 T0 Hf Ho) as (f' & r' & H1 & -> & -> & T').
  split; [exact H1|].
  unfold final_content, bf_close, bf_flush. rewrite (t_wbuf _ _ _ T').
  assert (Hw : forall g : sfile, write_all s_write fuel g [] = Some g) by (intros; destruct fuel; reflexivity).
  rewrite Hw. cbn. rewrite (t_content _ _ _ T'), (t_rcontent _ _ _ T'). reflexivity.
Qed.

(* open succeeds on the SFTP side exactly when it succeeds on the reference, for every mode *)
Lemma open_agrees m bufsz file :
  (sf_open m bufsz file = None <-> ref_open m file = None).
Proof.
  unfold sf_open, ref_open. destruct file as [c|].
  - destruct (m_excl m); split; intros H; try reflexivity; discriminate.
  - destruct (m_must_exist m); split; intros H; try reflexivity; discriminate.
Qed.

(* ---- witnesses of the divergences recorded as known findings ---- *)
Definition diverges (m : fmode) (bufsz : Z) (init : list Z) (ops : list fop) : Prop :=
  exists f0 r0, sf_open m bufsz (Some init) = Some f0 /\ ref_open m (Some init) = Some r0 /\
    (fst (sf_run 100 f0 ops) <> fst (ref_run r0 ops) \/
     final_content 100 (snd (sf_run 100 f0 ops)) <> r_content (snd (ref_run r0 ops))).

Ltac witness := unfold diverges; eexists _, _; split; [reflexivity|]; split; [reflexivity|];
                vm_compute; first [left; discriminate | right; discriminate].

(* r+ with bufsize 8: write(b"a\naa"); readline() *)
Lemma refuted_read_pending :
  diverges Mrp 8 [10;10;121;10;121] [FWrite [97;10;97;97]; FReadline None].
Proof. witness. Qed.
(* w with bufsize 65536: write(b"abc"); tell() *)
Lemma refuted_tell_pending : diverges Mw 65536 [] [FWrite [97;98;99]; FTell].
Proof. witness. Qed.
(* r+ unbuffered: readline(); write(b"X") lands at EOF *)
Lemma refuted_write_after_readline :
  diverges Mrp 0 [97;10;98;10;99] [FReadline None; FWrite [88]].
Proof. witness. Qed.
(* w with bufsize 64: write(b"ab"); truncate(0) -- the later flush re-extends the file *)
Lemma refuted_truncate_pending : diverges Mw 64 [] [FWrite [97;98]; FTruncate 0].
Proof. witness. Qed.
(* r: truncate(1) succeeds *)
Lemma refuted_truncate_readonly : diverges Mr 0 [97;98;99] [FTruncate 1].
Proof. witness. Qed.
(* a: write(b"ab"); truncate(0); write(b"c"); tell() *)
Lemma refuted_stale_after_truncate :
  diverges Ma 0 [] [FWrite [97;98]; FTruncate 0; FWrite [99]; FTell].
Proof. witness. Qed.
(* bare "x": write raises on paramiko, succeeds on the reference *)
Lemma refuted_bare_x :
  exists f0 r0, sf_open Mxbare 0 None = Some f0 /\ ref_open Mxbare None = Some r0 /\
    fst (sf_run 100 f0 [FWrite [97]]) <> fst (ref_run r0 [FWrite [97]]).
Proof. eexists _, _. split; [reflexivity|]. split; [reflexivity|]. vm_compute. discriminate. Qed.
