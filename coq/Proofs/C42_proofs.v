(* C42 — proofs.  Part 1: list lemmas.  Part 2: the read paths of BufferedFile over ANY stream
   satisfying a prefix-reader contract (reused by C27).  Part 3: the channel-like stream:
   op sequences, write completeness, line buffering. *)
From PV Require Import Bytes C42 C42_gen.
From Coq Require Import Lia ZifyBool.
Open Scope Z_scope.

(* ---------------------------------------------------------------- lists -- *)
Lemma is_nil_true d : is_nil d = true <-> d = [].
Proof. destruct d; cbn; split; congruence. Qed.
Lemma is_nil_false d : is_nil d = false <-> d <> [].
Proof. destruct d; cbn; split; congruence. Qed.

Lemma zlen_nonneg l : 0 <= zlen l.
Proof. unfold zlen. lia. Qed.
Lemma zlen_app a b : zlen (a ++ b) = zlen a + zlen b.
Proof. unfold zlen. rewrite app_length. lia. Qed.
Lemma zlen_nil : zlen [] = 0.
Proof. reflexivity. Qed.
Lemma zlen_zero l : zlen l = 0 -> l = [].
Proof. destruct l; cbn; [reflexivity|]. unfold zlen. cbn. lia. Qed.
Lemma zlen_pos l : l <> [] -> 0 < zlen l.
Proof. destruct l; [congruence|]. unfold zlen. cbn. lia. Qed.

Lemma take_firstn n l : take n l = firstn (Z.to_nat n) l.
Proof.
  unfold take, zlen. destruct (Z_le_gt_dec n (Z.of_nat (length l))).
  - rewrite Z.min_l by lia. reflexivity.
  - rewrite Z.min_r by lia. rewrite Nat2Z.id, firstn_all. symmetry. apply firstn_all2. lia.
Qed.
Lemma drop_skipn n l : drop n l = skipn (Z.to_nat n) l.
Proof.
  unfold drop, zlen. destruct (Z_le_gt_dec n (Z.of_nat (length l))).
  - rewrite Z.min_l by lia. reflexivity.
  - rewrite Z.min_r by lia. rewrite Nat2Z.id, skipn_all. symmetry. apply skipn_all2. lia.
Qed.
Lemma take_drop n l : take n l ++ drop n l = l.
Proof. rewrite take_firstn, drop_skipn. apply firstn_skipn. Qed.
Lemma zlen_take n l : 0 <= n -> zlen (take n l) = Z.min n (zlen l).
Proof. intros. rewrite take_firstn. unfold zlen. rewrite firstn_length. lia. Qed.
Lemma zlen_drop n l : 0 <= n -> zlen (drop n l) = zlen l - Z.min n (zlen l).
Proof. intros. rewrite drop_skipn. unfold zlen. rewrite skipn_length. lia. Qed.
Lemma take_all n l : zlen l <= n -> take n l = l.
Proof. unfold zlen. intros. rewrite take_firstn. apply firstn_all2. lia. Qed.
Lemma drop_all n l : zlen l <= n -> drop n l = [].
Proof. unfold zlen. intros. rewrite drop_skipn. apply skipn_all2. lia. Qed.
Lemma take_neg n l : n <= 0 -> take n l = [].
Proof. intros. rewrite take_firstn. replace (Z.to_nat n) with O by lia. reflexivity. Qed.
Lemma drop_neg n l : n <= 0 -> drop n l = l.
Proof. intros. rewrite drop_skipn. replace (Z.to_nat n) with O by lia. reflexivity. Qed.
Lemma take_app_le n a b : n <= zlen a -> take n (a ++ b) = take n a.
Proof.
  unfold zlen. intros. rewrite !take_firstn, firstn_app.
  replace (Z.to_nat n - length a)%nat with O by lia. cbn. apply app_nil_r.
Qed.
Lemma drop_app_le n a b : n <= zlen a -> drop n (a ++ b) = drop n a ++ b.
Proof.
  unfold zlen. intros. rewrite !drop_skipn, skipn_app.
  replace (Z.to_nat n - length a)%nat with O by lia. reflexivity.
Qed.
Lemma take_app_ge n a b : zlen a <= n -> take n (a ++ b) = a ++ take (n - zlen a) b.
Proof.
  unfold zlen. intros. rewrite !take_firstn, firstn_app.
  rewrite (firstn_all2 a) by lia. f_equal. f_equal. lia.
Qed.
Lemma drop_app_ge n a b : zlen a <= n -> drop n (a ++ b) = drop (n - zlen a) b.
Proof.
  unfold zlen. intros. rewrite !drop_skipn, skipn_app.
  rewrite (skipn_all2 a) by lia. cbn. f_equal. lia.
Qed.
Lemma app_take_inv res l l' : l = res ++ l' -> res = take (zlen res) l /\ l' = drop (zlen res) l.
Proof.
  intros ->. split.
  - rewrite take_app_le by lia. symmetry. apply take_all. lia.
  - rewrite drop_app_ge by lia. rewrite drop_neg by lia. reflexivity.
Qed.

(* bytes.find *)
Lemma index_of_app_some c a b i : index_of c a = Some i -> index_of c (a ++ b) = Some i.
Proof.
  revert i. induction a as [|x a IH]; intros i H; cbn in *; [discriminate|].
  destruct (x =? c); [exact H|].
  destruct (index_of c a) as [j|] eqn:E; cbn in H; [|discriminate].
  rewrite (IH j eq_refl). exact H.
Qed.
Lemma index_of_bound c l i : index_of c l = Some i -> (i < length l)%nat.
Proof.
  revert i. induction l as [|x l IH]; intros i H; cbn in *; [discriminate|].
  destruct (x =? c); [injection H as <-; lia|].
  destruct (index_of c l) as [j|] eqn:E; cbn in H; [|discriminate].
  injection H as <-. specialize (IH j eq_refl). lia.
Qed.
Lemma index_of_split c l i : index_of c l = Some i -> firstn (S i) l = firstn i l ++ [c].
Proof.
  revert i. induction l as [|x l IH]; intros i H; cbn in H; [discriminate|].
  destruct (x =? c) eqn:E.
  - injection H as <-. cbn. f_equal. lia.
  - destruct (index_of c l) as [j|] eqn:E2; cbn in H; [|discriminate].
    injection H as <-. specialize (IH j eq_refl).
    change (firstn (S (S j)) (x :: l)) with (x :: firstn (S j) l). rewrite IH. reflexivity.
Qed.
(* no occurrence strictly before the index found *)
Lemma index_of_first c l i : index_of c l = Some i -> index_of c (firstn i l) = None.
Proof.
  revert i. induction l as [|x l IH]; intros i H; cbn in H; [discriminate|].
  destruct (x =? c) eqn:E.
  - injection H as <-. reflexivity.
  - destruct (index_of c l) as [j|] eqn:E2; cbn in H; [|discriminate].
    injection H as <-. cbn. rewrite E. rewrite (IH j eq_refl). reflexivity.
Qed.
Lemma index_of_none_in c l : index_of c l = None -> ~ In c l.
Proof.
  induction l as [|x l IH]; cbn; intros H; [tauto|].
  destruct (x =? c) eqn:E; [discriminate|].
  destruct (index_of c l) eqn:E2; cbn in H; [discriminate|].
  intros [->|Hin]; [rewrite Z.eqb_refl in E; discriminate|]. now apply IH.
Qed.
Lemma index_of_some_in c l i : index_of c l = Some i -> In c l.
Proof.
  revert i. induction l as [|x l IH]; intros i H; cbn in H; [discriminate|].
  destruct (x =? c) eqn:E; [left; lia|].
  destruct (index_of c l) as [j|] eqn:E2; cbn in H; [|discriminate]. right. eapply IH. reflexivity.
Qed.

Lemma has_lf_true l : has_lf l = true -> exists i, index_of LF l = Some i.
Proof. unfold has_lf. destruct (index_of LF l); [eauto|discriminate]. Qed.
Lemma has_lf_false l : has_lf l = false -> index_of LF l = None.
Proof. unfold has_lf. destruct (index_of LF l); [discriminate|reflexivity]. Qed.

Lemma upto_lf_app_some a b i : index_of LF a = Some i -> upto_lf (a ++ b) = upto_lf a.
Proof.
  intros H. unfold upto_lf. rewrite (index_of_app_some _ _ b _ H), H.
  pose proof (index_of_bound _ _ _ H). rewrite firstn_app.
  replace (S i - length a)%nat with O by lia. cbn. apply app_nil_r.
Qed.
Lemma upto_lf_none l : index_of LF l = None -> upto_lf l = l.
Proof. unfold upto_lf. now intros ->. Qed.
Lemma upto_lf_some l i : index_of LF l = Some i -> upto_lf l = firstn i l ++ [LF].
Proof. unfold upto_lf. intros H. rewrite H. now apply index_of_split. Qed.

(* ------------------------------------------------ generic read paths -- *)
Definition same_cfg {S} (f f' : bf S) : Prop :=
  wbuf f' = wbuf f /\ fsize f' = fsize f /\ fl_read f' = fl_read f /\ fl_write f' = fl_write f /\
  fl_append f' = fl_append f /\ fl_buffered f' = fl_buffered f /\ fl_linebuf f' = fl_linebuf f /\
  bufsize f' = bufsize f /\ closed f' = closed f.
Lemma same_cfg_refl {S} (f : bf S) : same_cfg f f.
Proof. unfold same_cfg. tauto. Qed.
Lemma same_cfg_trans {S} (a b c : bf S) : same_cfg a b -> same_cfg b c -> same_cfg a c.
Proof. unfold same_cfg. intuition congruence. Qed.
Lemma same_cfg_upd {S} (f : bf S) rb ps rp s : same_cfg f (upd_rd f rb ps rp s).
Proof. unfold same_cfg. cbn. tauto. Qed.

Section Generic.
  Variable S : Type.
  Variable sread : S -> Z -> Z -> list Z * S.
  (* Rem s rp: the bytes a reader positioned at rp still has to receive from s *)
  Variable Rem : S -> Z -> list Z.
  Variable SInv : S -> Z -> Prop.
  Hypothesis sread_spec : forall s rp n d s',
      SInv s rp -> 0 < n -> sread s rp n = (d, s') ->
      Rem s rp = d ++ Rem s' (rp + zlen d) /\ zlen d <= n /\ (d = [] -> Rem s rp = []) /\
      SInv s' (rp + zlen d).

  Notation bfs := (bf S).
  Definition RemOf (f : bfs) : list Z := Rem (strm f) (realpos f).
  Definition L (f : bfs) : list Z := rbuf f ++ RemOf f.
  Definition inv (f : bfs) : Prop := SInv (strm f) (realpos f).
  Definition fuel_ok (fuel : nat) (f : bfs) : Prop := (length (RemOf f) < fuel)%nat.

  (* what every successful read call guarantees *)
  Definition post (f f' : bfs) (res : list Z) : Prop :=
    L f = res ++ L f' /\ inv f' /\ same_cfg f f' /\ pos f' = pos f + zlen res /\
    realpos f' + zlen (RemOf f') = realpos f + zlen (RemOf f).

  Lemma sread_nil s rp n s' : SInv s rp -> 0 < n -> sread s rp n = ([], s') ->
    Rem s rp = [] /\ Rem s' rp = [] /\ SInv s' rp.
  Proof.
    intros Hi Hn E. destruct (sread_spec _ _ _ _ _ Hi Hn E) as (H1 & _ & H3 & H4).
    rewrite zlen_nil, Z.add_0_r in *. cbn in H1. split; [now apply H3|]. split; [|exact H4].
    rewrite <- H1. now apply H3.
  Qed.


  Lemma post_upd f f1 res rb :
    L f = res ++ rb ++ RemOf f1 -> inv f1 -> same_cfg f f1 -> pos f1 = pos f ->
    realpos f1 + zlen (RemOf f1) = realpos f + zlen (RemOf f) ->
    post f (upd_rd f1 rb (pos f1 + zlen res) (realpos f1) (strm f1)) res.
  Proof.
    intros H1 H2 H3 H4 H5. unfold post. split; [exact H1|]. split; [exact H2|].
    split; [eapply same_cfg_trans; [exact H3|apply same_cfg_upd]|].
    split; [cbn; rewrite H4; reflexivity|exact H5].
  Qed.

  Lemma fill_loop_spec fuel : forall size f,
    inv f -> fuel_ok fuel f -> 0 < bufsize f ->
    exists f', fill_loop sread fuel size f = Some f' /\
      L f' = L f /\ inv f' /\ same_cfg f f' /\ pos f' = pos f /\
      realpos f' + zlen (RemOf f') = realpos f + zlen (RemOf f) /\
      (zlen (rbuf f') < size -> RemOf f' = []).
  Proof.
    induction fuel as [|k IH]; intros size f Hi Hf Hb.
    - unfold fuel_ok in Hf. lia.
    - cbn [fill_loop]. destruct (size <=? zlen (rbuf f)) eqn:E.
      + exists f. repeat split; try reflexivity; try exact Hi; try apply same_cfg_refl. lia.
      + set (rs := if fl_buffered f then Z.max (bufsize f) (size - zlen (rbuf f)) else size - zlen (rbuf f)).
        assert (Hrs : 0 < rs) by (unfold rs; destruct (fl_buffered f); lia).
        destruct (sread (strm f) (realpos f) rs) as [d s'] eqn:Er.
        destruct (is_nil d) eqn:En.
        * apply is_nil_true in En. subst d.
          destruct (sread_nil _ _ _ _ Hi Hrs Er) as (R1 & R2 & R3).
          eexists. split; [reflexivity|].
          unfold L, RemOf, inv. cbn. rewrite R2. fold (RemOf f). unfold RemOf. rewrite R1.
          repeat split; try reflexivity; try exact R3; try apply same_cfg_upd.
        * apply is_nil_false in En.
          destruct (sread_spec _ _ _ _ _ Hi Hrs Er) as (H1 & H2 & H3 & H4).
          set (f1 := upd_rd f (rbuf f ++ d) (pos f) (realpos f + zlen d) s').
          assert (Hf1 : fuel_ok k f1).
          { unfold fuel_ok, RemOf in *. cbn. rewrite H1 in Hf. rewrite app_length in Hf.
            pose proof (zlen_pos _ En). unfold zlen in *. lia. }
          destruct (IH size f1 H4 Hf1 Hb) as (f' & E1 & E2 & E3 & E4 & E5 & E6 & E7).
          exists f'. split; [exact E1|]. split.
          { rewrite E2. unfold L, RemOf. cbn. rewrite H1. now rewrite app_assoc. }
          split; [exact E3|]. split; [eapply same_cfg_trans; [apply same_cfg_upd|exact E4]|].
          split; [exact E5|]. split; [|exact E7].
          rewrite E6. unfold RemOf. cbn. rewrite H1, zlen_app. lia.
  Qed.

  Lemma read_all_loop_spec fuel : forall res f,
    inv f -> fuel_ok fuel f ->
    exists f', read_all_loop sread fuel res f = Some (res ++ RemOf f, f') /\
      RemOf f' = [] /\ rbuf f' = rbuf f /\ inv f' /\ same_cfg f f' /\
      pos f' = pos f + zlen (RemOf f) /\ realpos f' = realpos f + zlen (RemOf f).
  Proof.
    induction fuel as [|k IH]; intros res f Hi Hf.
    - unfold fuel_ok in Hf. lia.
    - cbn [read_all_loop].
      assert (Hn : 0 < DEFAULT_BUFSIZE) by (unfold DEFAULT_BUFSIZE; lia).
      destruct (sread (strm f) (realpos f) DEFAULT_BUFSIZE) as [d s'] eqn:Er.
      destruct (is_nil d) eqn:En.
      + apply is_nil_true in En. subst d.
        destruct (sread_nil _ _ _ _ Hi Hn Er) as (R1 & R2 & R3).
        eexists. split.
        { unfold RemOf. rewrite R1, app_nil_r. reflexivity. }
        unfold RemOf, inv. cbn. rewrite R1, R2. cbn.
        repeat split; try reflexivity; try exact R3; try lia; try apply same_cfg_upd.
      + apply is_nil_false in En.
        destruct (sread_spec _ _ _ _ _ Hi Hn Er) as (H1 & H2 & H3 & H4).
        set (f1 := upd_rd f (rbuf f) (pos f + zlen d) (realpos f + zlen d) s').
        assert (Hf1 : fuel_ok k f1).
        { unfold fuel_ok, RemOf in *. cbn. rewrite H1 in Hf. rewrite app_length in Hf.
          pose proof (zlen_pos _ En). unfold zlen in *. lia. }
        destruct (IH (res ++ d) f1 H4 Hf1) as (f' & E1 & E2 & E3 & E4 & E5 & E6 & E7).
        exists f'. split.
        { rewrite E1. unfold RemOf at 2. rewrite H1. unfold RemOf. cbn. now rewrite app_assoc. }
        split; [exact E2|]. split; [exact E3|]. split; [exact E4|].
        split; [eapply same_cfg_trans; [apply same_cfg_upd|exact E5]|].
        unfold RemOf in *. cbn in E6, E7. rewrite H1, zlen_app. lia.
  Qed.

  (* ---- read(n), read() ---- *)
  Lemma read_n_spec fuel f n :
    inv f -> fuel_ok fuel f -> 0 < bufsize f -> closed f = false -> fl_read f = true -> 0 <= n ->
    exists f', bf_read sread fuel f (Some n) = (Ok (take n (L f)), f') /\ post f f' (take n (L f)).
  Proof.
    intros Hi Hf Hb Hc Hr Hn. unfold bf_read. rewrite Hc, Hr. cbn [negb].
    replace (n <? 0) with false by lia.
    destruct (n <=? zlen (rbuf f)) eqn:E.
    - assert (Ht : take n (L f) = take n (rbuf f)) by (unfold L; apply take_app_le; lia).
      rewrite Ht. eexists. split; [reflexivity|].
      apply post_upd; try assumption; try reflexivity; try apply same_cfg_refl.
      rewrite app_assoc, take_drop. reflexivity.
    - destruct (fill_loop_spec fuel n f Hi Hf Hb) as (f1 & E1 & E2 & E3 & E4 & E5 & E6 & E7).
      rewrite E1.
      assert (Ht : take n (rbuf f1) = take n (L f)).
      { rewrite <- E2. unfold L. destruct (Z_lt_ge_dec (zlen (rbuf f1)) n) as [Hlt|Hge].
        - rewrite (E7 Hlt), app_nil_r. reflexivity.
        - rewrite take_app_le by lia. reflexivity. }
      rewrite <- Ht. eexists. split; [reflexivity|].
      apply post_upd; try assumption.
      rewrite app_assoc, take_drop. symmetry. exact E2.
  Qed.

  Lemma read_all_spec fuel f size :
    inv f -> fuel_ok fuel f -> closed f = false -> fl_read f = true ->
    match size with None => True | Some n => n < 0 end ->
    exists f', bf_read sread fuel f size = (Ok (L f), f') /\ post f f' (L f) /\ L f' = [].
  Proof.
    intros Hi Hf Hc Hr Hs. unfold bf_read. rewrite Hc, Hr. cbn [negb].
    replace (match size with None => true | Some n => n <? 0 end) with true
      by (destruct size; [symmetry; lia|reflexivity]).
    set (f0 := upd_rd f [] (pos f + zlen (rbuf f)) (realpos f) (strm f)).
    assert (Hi0 : inv f0) by exact Hi.
    assert (Hf0 : fuel_ok fuel f0) by exact Hf.
    destruct (read_all_loop_spec fuel (rbuf f) f0 Hi0 Hf0) as (f' & E1 & E2 & E3 & E4 & E5 & E6 & E7).
    rewrite E1. exists f'. split; [reflexivity|].
    assert (HL : L f' = []) by (unfold L; rewrite E2, E3; reflexivity).
    split; [|exact HL]. unfold post. rewrite HL, app_nil_r.
    split; [reflexivity|]. split; [exact E4|].
    split; [eapply same_cfg_trans; [apply same_cfg_upd|exact E5]|].
    change (RemOf f0) with (RemOf f) in *. cbn in E6, E7.
    unfold L. rewrite zlen_app, E2, zlen_nil. lia.
  Qed.

  (* ---- readline ---- *)
  Definition szof (size : option Z) : Z := match size with Some s => s | None => 0 end.

  Lemma rl_loop_spec fuel : forall size line f,
    inv f -> fuel_ok fuel f -> 0 < bufsize f ->
    match rl_loop sread fuel size line f with
    | RLFuel => False
    | RLEof line' f' =>
        line' = line ++ RemOf f /\ RemOf f' = [] /\ has_lf line' = false /\
        (sized size = true -> zlen line' < szof size) /\
        inv f' /\ same_cfg f f' /\ pos f' = pos f /\
        realpos f' + zlen (RemOf f') = realpos f + zlen (RemOf f)
    | RLBreak line' true f' =>
        sized size = true /\
        exists full, full ++ RemOf f' = line ++ RemOf f /\ szof size <= zlen full /\
          line' = take (szof size) full /\ rbuf f' = drop (szof size) full /\
          inv f' /\ same_cfg f f' /\ pos f' = pos f /\
          realpos f' + zlen (RemOf f') = realpos f + zlen (RemOf f)
    | RLBreak line' false f' =>
        line' ++ RemOf f' = line ++ RemOf f /\ has_lf line' = true /\
        (sized size = true -> zlen line' < szof size) /\
        inv f' /\ same_cfg f f' /\ pos f' = pos f /\
        realpos f' + zlen (RemOf f') = realpos f + zlen (RemOf f)
    end.
  Proof.
    induction fuel as [|k IH]; intros size line f Hi Hf Hb.
    - unfold fuel_ok in Hf. lia.
    - cbn [rl_loop]. fold (sized size). fold (szof size).
      destruct (sized size && (szof size <=? zlen line)) eqn:E.
      + apply andb_true_iff in E as [E1 E2].
        split; [exact E1|]. exists line. unfold RemOf, inv. cbn.
        repeat split; try reflexivity; try exact Hi; try lia; try apply same_cfg_upd.
      + destruct (has_lf line) eqn:Hl.
        * repeat split; try reflexivity; try exact Hi; try apply same_cfg_refl; try exact Hl.
          intros Hs. rewrite Hs in E. cbn in E. lia.
        * set (n := if sized size then szof size - zlen line else bufsize f).
          assert (Hn : 0 < n).
          { unfold n. destruct (sized size); [cbn in E; lia|lia]. }
          destruct (sread (strm f) (realpos f) n) as [d s'] eqn:Er.
          destruct (is_nil d) eqn:En.
          -- apply is_nil_true in En. subst d.
             destruct (sread_nil _ _ _ _ Hi Hn Er) as (R1 & R2 & R3).
             unfold RemOf, inv. cbn. rewrite R1, R2, app_nil_r.
             repeat split; try reflexivity; try exact R3; try exact Hl; try apply same_cfg_upd.
             intros Hs. rewrite Hs in E. cbn in E. lia.
          -- apply is_nil_false in En.
             destruct (sread_spec _ _ _ _ _ Hi Hn Er) as (H1 & H2 & H3 & H4).
             set (f1 := upd_rd f (rbuf f) (pos f) (realpos f + zlen d) s').
             assert (Hf1 : fuel_ok k f1).
             { unfold fuel_ok, RemOf in *. cbn. rewrite H1 in Hf. rewrite app_length in Hf.
               pose proof (zlen_pos _ En). unfold zlen in *. lia. }
             assert (HR : RemOf f = d ++ RemOf f1) by exact H1.
             specialize (IH size (line ++ d) f1 H4 Hf1 Hb).
             assert (Hz : realpos f1 + zlen (RemOf f1) = realpos f + zlen (RemOf f)).
             { rewrite HR, zlen_app. cbn. lia. }
             assert (Hline : (line ++ d) ++ RemOf f1 = line ++ RemOf f)
               by (rewrite HR, app_assoc; reflexivity).
             assert (Hcfg : forall f', same_cfg f1 f' -> same_cfg f f')
               by (intros f' Hc; eapply same_cfg_trans; [apply same_cfg_upd|exact Hc]).
             change (pos f1) with (pos f) in IH.
             rewrite Hline, Hz in IH.
             destruct (rl_loop sread k size (line ++ d) f1) as [l' f'|l' [|] f'|].
             ++ destruct IH as (A1 & A2 & A3 & A4 & A5 & A6 & A7 & A8).
                apply Hcfg in A6.
                exact (conj A1 (conj A2 (conj A3 (conj A4 (conj A5 (conj A6 (conj A7 A8))))))).
             ++ destruct IH as (A0 & full & A1 & A2 & A3 & A4 & A5 & A6 & A7 & A8).
                apply Hcfg in A6.
                split; [exact A0|]. exists full.
                exact (conj A1 (conj A2 (conj A3 (conj A4 (conj A5 (conj A6 (conj A7 A8))))))).
             ++ destruct IH as (A1 & A2 & A3 & A5 & A6 & A7 & A8).
                apply Hcfg in A6.
                exact (conj A1 (conj A2 (conj A3 (conj A5 (conj A6 (conj A7 A8)))))).
             ++ exact IH.
  Qed.

  Lemma take_succ_index p line : index_of LF line = Some p ->
    (take (Z.of_nat p) line ++ [LF]) ++ drop (Z.of_nat p + 1) line = line.
  Proof.
    intros H. rewrite take_firstn, drop_skipn, Nat2Z.id.
    replace (Z.to_nat (Z.of_nat p + 1)) with (Datatypes.S p) by lia.
    rewrite <- (index_of_split _ _ _ H). apply firstn_skipn.
  Qed.

  Lemma readline_spec fuel f size :
    inv f -> fuel_ok fuel f -> 0 < bufsize f -> closed f = false -> fl_read f = true ->
    exists f', bf_readline sread fuel f size = (Ok (line_spec size (L f)), f') /\
               post f f' (line_spec size (L f)).
  Proof.
    intros Hi Hf Hb Hc Hr. unfold bf_readline. rewrite Hc, Hr. cbn [negb].
    pose proof (rl_loop_spec fuel size (rbuf f) f Hi Hf Hb) as H.
    fold (L f) in H.
    assert (Hspec : line_spec size (L f) =
                    if sized size then upto_lf (take (szof size) (L f)) else upto_lf (L f)).
    { unfold line_spec, sized, szof. destruct size; reflexivity. }
    destruct (rl_loop sread fuel size (rbuf f) f) as [l' f1|l' [|] f1|].
    - (* EOF *)
      destruct H as (A1 & A2 & A3 & A4 & A5 & A6 & A7 & A8).
      assert (El : line_spec size (L f) = l').
      { rewrite Hspec, <- A1. destruct (sized size) eqn:Es.
        - rewrite take_all by (specialize (A4 eq_refl); lia). apply upto_lf_none. now apply has_lf_false.
        - apply upto_lf_none. now apply has_lf_false. }
      rewrite El. eexists. split; [reflexivity|].
      apply post_upd; try assumption. rewrite A2. cbn. rewrite app_nil_r. symmetry. exact A1.
    - (* truncated break *)
      destruct H as (Es & full & A1 & A2 & A3 & A4 & A5 & A6 & A7 & A8).
      assert (Ht : take (szof size) (L f) = l').
      { rewrite <- A1, take_app_le by lia. now rewrite A3. }
      rewrite Hspec, Es, Ht.
      assert (Hfull : l' ++ rbuf f1 = full) by (rewrite A3, A4; apply take_drop).
      destruct (index_of LF l') as [p|] eqn:Ep.
      + rewrite (upto_lf_some _ _ Ep).
        replace (firstn p l') with (take (Z.of_nat p) l') by (rewrite take_firstn, Nat2Z.id; reflexivity).
        eexists. split; [reflexivity|].
        apply post_upd; try assumption.
        rewrite <- A1, <- Hfull. rewrite <- (take_succ_index _ _ Ep) at 1.
        now rewrite <- !app_assoc.
      + rewrite (upto_lf_none _ Ep). eexists. split; [reflexivity|].
        apply post_upd; try assumption.
        rewrite <- A1, <- Hfull. now rewrite app_assoc.
    - (* newline found *)
      destruct H as (A1 & A2 & A4 & A5 & A6 & A7 & A8).
      destruct (has_lf_true _ A2) as (p & Ep). rewrite Ep.
      assert (El : line_spec size (L f) = take (Z.of_nat p) l' ++ [LF]).
      { rewrite Hspec, <- A1. destruct (sized size) eqn:Es.
        - rewrite take_app_ge by (specialize (A4 eq_refl); lia).
          rewrite (upto_lf_app_some _ _ _ Ep), (upto_lf_some _ _ Ep).
          now rewrite take_firstn, Nat2Z.id.
        - rewrite (upto_lf_app_some _ _ _ Ep), (upto_lf_some _ _ Ep).
          now rewrite take_firstn, Nat2Z.id. }
      rewrite El. eexists. split; [reflexivity|].
      apply post_upd; try assumption.
      rewrite <- A1. rewrite <- (take_succ_index _ _ Ep) at 1. now rewrite <- !app_assoc.
    - contradiction.
  Qed.
End Generic.

(* --------------------------------------------- line structure (spec level) -- *)
Lemma line_spec_structure size Lg :
  let r := line_spec size Lg in
  exists rest, Lg = r ++ rest /\
    ((exists body, r = body ++ [LF] /\ ~ In LF body) \/
     (~ In LF r /\ sized size = true /\ zlen r = szof size) \/
     (~ In LF r /\ rest = [])) /\
    (sized size = true -> zlen r <= szof size).
Proof.
  assert (Hgen : forall L0 tail, Lg = L0 ++ tail ->
            exists rest, Lg = upto_lf L0 ++ rest /\
              ((exists body, upto_lf L0 = body ++ [LF] /\ ~ In LF body) \/
               (~ In LF (upto_lf L0) /\ upto_lf L0 = L0 /\ rest = tail)) /\
              zlen (upto_lf L0) <= zlen L0).
  { intros L0 tail ->. destruct (index_of LF L0) as [i|] eqn:Ei.
    - exists (skipn (Datatypes.S i) L0 ++ tail).
      rewrite app_assoc. unfold upto_lf. rewrite Ei, firstn_skipn.
      split; [reflexivity|]. split.
      + left. exists (firstn i L0). split; [now apply index_of_split|].
        apply index_of_none_in. now apply index_of_first.
      + unfold zlen. rewrite firstn_length. lia.
    - exists tail. rewrite (upto_lf_none _ Ei). split; [reflexivity|]. split; [|lia].
      right. split; [now apply index_of_none_in|]. split; reflexivity. }
  intros r. subst r. unfold line_spec.
  assert (Hun : sized size = false ->
     exists rest, Lg = upto_lf Lg ++ rest /\
       ((exists body, upto_lf Lg = body ++ [LF] /\ ~ In LF body) \/
        (~ In LF (upto_lf Lg) /\ sized size = true /\ zlen (upto_lf Lg) = szof size) \/
        (~ In LF (upto_lf Lg) /\ rest = [])) /\
       (sized size = true -> zlen (upto_lf Lg) <= szof size)).
  { intros Hs. destruct (Hgen Lg [] (eq_sym (app_nil_r Lg))) as (rest & E & [Hb|(H1 & H2 & H3)] & _);
      exists rest; (split; [exact E|]); (split; [|congruence]).
    - left. exact Hb.
    - right. right. split; assumption. }
  destruct size as [s|]; [|apply Hun; reflexivity].
  destruct (0 <=? s) eqn:Es; [|apply Hun; unfold sized; exact Es].
  destruct (Hgen (take s Lg) (drop s Lg) (eq_sym (take_drop s Lg))) as (rest & E & Hcase & Hlen).
  exists rest. split; [exact E|]. unfold sized, szof. rewrite Es.
  assert (Hz : zlen (take s Lg) <= s) by (rewrite zlen_take by lia; lia).
  split; [|intros _; lia].
  destruct Hcase as [Hb|(H1 & H2 & H3)]; [left; exact Hb|].
  destruct (Z_le_gt_dec s (zlen Lg)) as [Hle|Hgt].
  - right. left. split; [exact H1|]. split; [reflexivity|]. rewrite H2, zlen_take by lia. lia.
  - right. right. split; [exact H1|]. rewrite H3. apply drop_all. lia.
Qed.

(* ------------------------------------------------ the channel-like stream -- *)
Definition cRem (s : cstream) (_ : Z) : list Z := sdata s.
Definition cInv (_ : cstream) (_ : Z) : Prop := True.

Lemma c_sread_spec : forall s rp n d s',
  cInv s rp -> 0 < n -> c_sread s rp n = (d, s') ->
  cRem s rp = d ++ cRem s' (rp + zlen d) /\ zlen d <= n /\ (d = [] -> cRem s rp = []) /\
  cInv s' (rp + zlen d).
Proof.
  intros s rp n d s' _ Hn E. unfold c_sread in E. injection E as <- <-. unfold cRem, cInv. cbn.
  set (k := Z.min n (Z.max 1 (hd 1 (roracle s)))).
  assert (Hk : 1 <= k <= n) by (unfold k; lia).
  split; [now rewrite take_drop|]. split; [rewrite zlen_take by lia; lia|]. split; [|exact I].
  intros H. apply (f_equal zlen) in H. rewrite zlen_take, zlen_nil in H by lia.
  apply zlen_zero. pose proof (zlen_nonneg (sdata s)). lia.
Qed.

Lemma logical_L (f : cbf) : logical f = L cstream cRem f.
Proof. reflexivity. Qed.

Definition readable (f : cbf) : Prop := closed f = false /\ fl_read f = true.

(* exact value of every read call on the channel-like stream, for every chunk oracle *)
Lemma c_read_n fuel (f : cbf) n :
  (length (sdata (strm f)) < fuel)%nat -> 0 < bufsize f -> readable f -> 0 <= n ->
  exists f', bf_read c_sread fuel f (Some n) = (Ok (take n (logical f)), f') /\
             post cstream cRem cInv f f' (take n (logical f)).
Proof.
  intros Hf Hb [Hc Hr] Hn.
  exact (read_n_spec cstream c_sread cRem cInv c_sread_spec fuel f n I Hf Hb Hc Hr Hn).
Qed.
Lemma c_read_all fuel (f : cbf) size :
  (length (sdata (strm f)) < fuel)%nat -> readable f ->
  match size with None => True | Some n => n < 0 end ->
  exists f', bf_read c_sread fuel f size = (Ok (logical f), f') /\
             post cstream cRem cInv f f' (logical f) /\ logical f' = [].
Proof.
  intros Hf [Hc Hr] Hs.
  exact (read_all_spec cstream c_sread cRem cInv c_sread_spec fuel f size I Hf Hc Hr Hs).
Qed.
Lemma c_readline fuel (f : cbf) size :
  (length (sdata (strm f)) < fuel)%nat -> 0 < bufsize f -> readable f ->
  exists f', bf_readline c_sread fuel f size = (Ok (line_spec size (logical f)), f') /\
             post cstream cRem cInv f f' (line_spec size (logical f)).
Proof.
  intros Hf Hb [Hc Hr].
  exact (readline_spec cstream c_sread cRem cInv c_sread_spec fuel f size I Hf Hb Hc Hr).
Qed.

(* what the op-sequence induction carries *)
Definition rframe (f f' : cbf) : Prop :=
  bufsize f' = bufsize f /\ (length (logical f') <= length (logical f))%nat.

Lemma post_rframe (f f' : cbf) res :
  post cstream cRem cInv f f' res -> logical f = res ++ logical f' /\ rframe f f'.
Proof.
  intros (H1 & _ & Hc & _ & _). change (logical f = res ++ logical f') in H1. split; [exact H1|].
  split; [apply Hc|]. rewrite H1, app_length. lia.
Qed.

Lemma fuel_sdata fuel (f : cbf) :
  (length (logical f) < fuel)%nat -> (length (sdata (strm f)) < fuel)%nat.
Proof. unfold logical. rewrite app_length. lia. Qed.

Lemma readlines_loop_spec fuel : forall lfuel (f : cbf) hint count,
  (length (logical f) < lfuel)%nat -> (length (logical f) < fuel)%nat ->
  0 < bufsize f -> readable f ->
  exists ls f', readlines_loop c_sread lfuel fuel hint count f = (Ok ls, f') /\
    logical f = concat ls ++ logical f' /\ rframe f f' /\
    Forall (fun l => l <> []) ls.
Proof.
  induction lfuel as [|k IH]; intros f hint count Hl Hf Hb Hr; [lia|].
  cbn [readlines_loop].
  destruct (c_readline fuel f None (fuel_sdata _ _ Hf) Hb Hr) as (f1 & E1 & P1).
  rewrite E1. destruct (post_rframe _ _ _ P1) as (HL & Hb1 & Hlen).
  destruct P1 as (_ & _ & Hcfg & _ & _).
  destruct (is_nil (line_spec None (logical f))) eqn:En.
  - exists [], f1. apply is_nil_true in En. rewrite En in HL. cbn in HL.
    split; [reflexivity|]. split; [exact HL|]. split; [split; [exact Hb1|exact Hlen]|constructor].
  - apply is_nil_false in En. set (line := line_spec None (logical f)) in *.
    assert (Hshort : (length (logical f1) < length (logical f))%nat).
    { rewrite HL, app_length. destruct line; [congruence|cbn; lia]. }
    assert (Hr1 : readable f1).
    { destruct Hr as [Hc Hrd]. destruct Hcfg as (_ & _ & C3 & _ & _ & _ & _ & _ & C9).
      split; congruence. }
    destruct (match hint with Some h => h <=? count + zlen line | None => false end).
    + exists [line], f1. change (concat [line]) with (line ++ []). rewrite app_nil_r.
      split; [reflexivity|]. split; [exact HL|].
      split; [split; [exact Hb1|exact Hlen]|]. constructor; [exact En|constructor].
    + destruct (IH f1 hint (count + zlen line)) as (ls & f2 & E2 & HL2 & (Hb2 & Hlen2) & Hne);
        try lia; try assumption.
      rewrite E2. exists (line :: ls), f2. split; [reflexivity|].
      change (concat (line :: ls)) with (line ++ concat ls).
      split; [rewrite <- app_assoc, <- HL2; exact HL|].
      split; [split; [congruence|lia]|]. constructor; assumption.
Qed.

(* ---- write paths over the channel-like stream ---- *)
Definition wframe (f f' : cbf) : Prop :=
  rbuf f' = rbuf f /\ sdata (strm f') = sdata (strm f) /\ bufsize f' = bufsize f /\
  fl_buffered f' = fl_buffered f /\ fl_linebuf f' = fl_linebuf f /\ fl_write f' = fl_write f /\
  fl_read f' = fl_read f.

Lemma wframe_refl f : wframe f f.
Proof. unfold wframe. tauto. Qed.

Lemma write_all_spec fuel : forall (f : cbf) data,
  (length data < fuel)%nat ->
  exists f', write_all c_swrite fuel f data = Some f' /\
    delivered (strm f') = delivered (strm f) ++ data /\ wbuf f' = wbuf f /\ closed f' = closed f /\
    wframe f f'.
Proof.
  induction fuel as [|k IH]; intros f data Hl; [lia|].
  cbn [write_all]. destruct (is_nil data) eqn:En.
  - apply is_nil_true in En. subst. exists f. rewrite app_nil_r.
    repeat split; reflexivity.
  - apply is_nil_false in En. pose proof (zlen_pos _ En) as Hp.
    unfold c_swrite at 1.
    set (kk := Z.max 1 (Z.min (hd (zlen data) (woracle (strm f))) (zlen data))).
    assert (Hk : 1 <= kk <= zlen data) by (unfold kk; lia).
    match goal with |- exists f', write_all _ _ ?F _ = _ /\ _ => set (f1 := F) end.
    assert (Hd : (length (drop kk data) < k)%nat).
    { pose proof (zlen_drop kk data ltac:(lia)) as Hz. unfold zlen in *. lia. }
    destruct (IH f1 (drop kk data) Hd) as (f' & E & D & W & C & Fr).
    exists f'. split; [exact E|].
    assert (Hf1 : delivered (strm f1) = delivered (strm f) ++ take kk data /\ wbuf f1 = wbuf f /\
                  closed f1 = closed f /\ wframe f f1).
    { unfold f1. destruct (fl_append f); cbn; repeat split; reflexivity. }
    destruct Hf1 as (D1 & W1 & C1 & Fr1).
    split; [rewrite D, D1, <- app_assoc, take_drop; reflexivity|].
    split; [congruence|]. split; [congruence|].
    unfold wframe in *. intuition congruence.
Qed.

Lemma flush_spec fuel (f : cbf) :
  (length (wbuf f) < fuel)%nat ->
  exists f', bf_flush c_swrite fuel f = (Ok tt, f') /\ wbuf f' = [] /\
    delivered (strm f') = delivered (strm f) ++ wbuf f /\ closed f' = closed f /\ wframe f f'.
Proof.
  intros Hl. unfold bf_flush.
  destruct (write_all_spec fuel f (wbuf f) Hl) as (f1 & E & D & W & C & Fr).
  rewrite E. eexists. split; [reflexivity|]. cbn. repeat split; try assumption; apply Fr.
Qed.

(* bytes.rfind *)
Lemma rindex_of_none c l : rindex_of c l = None -> index_of c l = None.
Proof.
  induction l as [|x l IH]; cbn; intros H; [reflexivity|].
  destruct (rindex_of c l); [discriminate|]. destruct (x =? c); [discriminate|].
  now rewrite IH.
Qed.
Lemma rindex_of_some c l p : rindex_of c l = Some p ->
  (p < length l)%nat /\ index_of c (skipn (Datatypes.S p) l) = None.
Proof.
  revert p. induction l as [|x l IH]; intros p H; cbn in H; [discriminate|].
  destruct (rindex_of c l) as [j|] eqn:E.
  - injection H as <-. destruct (IH j eq_refl) as [H1 H2]. cbn [length skipn]. split; [lia|exact H2].
  - destruct (x =? c); [|discriminate]. injection H as <-. cbn [length]. split; [lia|].
    cbn. now apply rindex_of_none.
Qed.
Lemma index_of_none_app c a b :
  index_of c a = None -> index_of c b = None -> index_of c (a ++ b) = None.
Proof.
  induction a as [|x a IH]; cbn; intros Ha Hb; [exact Hb|].
  destruct (x =? c); [discriminate|].
  destruct (index_of c a); [discriminate|]. now rewrite IH.
Qed.

Definition writable (f : cbf) : Prop := closed f = false /\ fl_write f = true.

(* one write call: accepted, nothing lost, mode-specific buffer state *)
Lemma write_spec fuel (f : cbf) d :
  (length (wbuf f) + length d < fuel)%nat -> writable f ->
  (fl_buffered f = false -> wbuf f = []) ->
  exists f', bf_write c_swrite fuel f d = (Ok tt, f') /\
    delivered (strm f') ++ wbuf f' = delivered (strm f) ++ wbuf f ++ d /\
    closed f' = closed f /\ wframe f f' /\
    (length (wbuf f') <= length (wbuf f) + length d)%nat /\
    (fl_buffered f = false -> wbuf f = [] -> wbuf f' = []) /\
    (fl_buffered f = true -> fl_linebuf f = true -> has_lf (wbuf f) = false -> has_lf (wbuf f') = false) /\
    (fl_buffered f = true -> fl_linebuf f = false -> zlen (wbuf f') < Z.max 1 (bufsize f)).
Proof.
  intros Hl [Hc Hw] Hunb.
  destruct (bf_write c_swrite fuel f d) as [r fr] eqn:Ew.
  unfold bf_write in Ew. rewrite Hc, Hw in Ew. cbn [negb] in Ew.
  destruct (fl_buffered f) eqn:Eb; cbn [negb] in Ew.
  - set (wb := wbuf f ++ d) in *.
    set (f1 := upd_wr f wb (pos f) (realpos f) (fsize f) (strm f)) in *.
    destruct (fl_linebuf f) eqn:El.
    + destruct (rindex_of LF d) as [p|] eqn:Ep.
      * destruct (rindex_of_some _ _ _ Ep) as [Hp Hno].
        set (lnp := Z.of_nat p + (zlen wb - zlen d)) in *.
        assert (Hlnp : lnp = zlen (wbuf f) + Z.of_nat p) by (unfold lnp, wb; rewrite zlen_app; lia).
        assert (Hlt : (length (take (lnp + 1) wb) < fuel)%nat).
        { pose proof (zlen_take (lnp + 1) wb ltac:(unfold zlen in *; lia)) as Hz.
          unfold wb in *. unfold zlen in *. rewrite app_length in *. lia. }
        destruct (write_all_spec fuel f1 (take (lnp + 1) wb) Hlt) as (f2 & E & D & W & C & Fr).
        rewrite E in Ew. injection Ew as <- <-. eexists. split; [reflexivity|]. cbn.
        assert (Hdrop : drop (lnp + 1) wb = skipn (Datatypes.S p) d).
        { unfold wb. rewrite drop_app_ge by (unfold zlen in *; lia). rewrite drop_skipn.
          f_equal. unfold zlen in *. lia. }
        split; [rewrite D; cbn; rewrite <- !app_assoc, take_drop; reflexivity|].
        split; [rewrite C; reflexivity|]. split; [unfold wframe in *; cbn in *; intuition congruence|].
        split; [rewrite Hdrop, skipn_length; lia|].
        split; [intros; discriminate|]. split; [|intros; discriminate].
        intros _ _ _. rewrite Hdrop. unfold has_lf. now rewrite Hno.
      * injection Ew as <- <-. exists f1. split; [reflexivity|]. cbn. unfold wb. rewrite app_length.
        split; [reflexivity|]. split; [reflexivity|]. split; [unfold wframe; cbn; tauto|]. split; [lia|].
        split; [intros; discriminate|]. split; [|intros; discriminate].
        intros _ _ Hn. unfold has_lf. rewrite index_of_none_app; [reflexivity| |now apply rindex_of_none].
        now apply has_lf_false.
    + destruct (bufsize f <=? zlen wb) eqn:Ebs.
      * assert (Hlf : (length (wbuf f1) < fuel)%nat) by (cbn; unfold wb; rewrite app_length; lia).
        destruct (flush_spec fuel f1 Hlf) as (f2 & E & W & D & C & Fr).
        rewrite E in Ew. injection Ew as <- <-.
        exists f2. split; [reflexivity|]. rewrite W, D. cbn. rewrite app_nil_r.
        split; [reflexivity|]. split; [exact C|]. split; [exact Fr|]. split; [lia|].
        split; [intros; discriminate|]. split; [intros; discriminate|]. intros _ _. cbn. lia.
      * injection Ew as <- <-. exists f1. split; [reflexivity|]. cbn. unfold wb. rewrite app_length.
        split; [reflexivity|]. split; [reflexivity|]. split; [unfold wframe; cbn; tauto|]. split; [lia|].
        split; [intros; discriminate|]. split; [intros; discriminate|]. intros _ _. fold wb. lia.
  - assert (Hlt : (length d < fuel)%nat) by lia.
    destruct (write_all_spec fuel f d Hlt) as (f2 & E & D & W & C & Fr).
    rewrite E in Ew. injection Ew as <- <-. exists f2. split; [reflexivity|]. rewrite D, W.
    rewrite (Hunb eq_refl). cbn. rewrite app_nil_r.
    split; [reflexivity|].
    split; [exact C|]. split; [exact Fr|]. split; [lia|].
    split; [intros _ H0; congruence|]. split; intros; discriminate.
Qed.

(* ---- frames that need no fuel assumption ---- *)
Lemma write_all_frame fuel : forall (f : cbf) data f',
  write_all c_swrite fuel f data = Some f' -> wframe f f'.
Proof.
  induction fuel as [|k IH]; intros f data f' H; cbn [write_all] in H.
  - destruct (is_nil data); [injection H as <-; apply wframe_refl|discriminate].
  - destruct (is_nil data); [injection H as <-; apply wframe_refl|].
    unfold c_swrite at 1 in H. apply IH in H. unfold wframe in *.
    destruct (fl_append f); cbn in *; intuition congruence.
Qed.
Lemma flush_frame fuel (f : cbf) r f' : bf_flush c_swrite fuel f = (r, f') -> wframe f f'.
Proof.
  unfold bf_flush. destruct (write_all c_swrite fuel f (wbuf f)) as [f1|] eqn:E; intros H; injection H as <- <-.
  - apply write_all_frame in E. unfold wframe in *. cbn. intuition congruence.
  - apply wframe_refl.
Qed.
Lemma wframe_trans a b c : wframe a b -> wframe b c -> wframe a c.
Proof. unfold wframe. intuition congruence. Qed.
Lemma write_frame fuel (f : cbf) d r f' : bf_write c_swrite fuel f d = (r, f') -> wframe f f'.
Proof.
  unfold bf_write. destruct (closed f); [intros H; injection H as <- <-; apply wframe_refl|].
  destruct (fl_write f); cbn [negb]; [|intros H; injection H as <- <-; apply wframe_refl].
  destruct (fl_buffered f); cbn [negb].
  - set (f1 := upd_wr f (wbuf f ++ d) (pos f) (realpos f) (fsize f) (strm f)).
    assert (F1 : wframe f f1) by (unfold wframe; cbn; tauto).
    destruct (fl_linebuf f).
    + destruct (rindex_of LF d).
      * destruct (write_all c_swrite fuel f1 _) as [f2|] eqn:E; intros H; injection H as <- <-.
        -- apply write_all_frame in E. eapply wframe_trans; [exact F1|].
           unfold wframe in *. cbn. intuition congruence.
        -- apply wframe_refl.
      * intros H; injection H as <- <-. exact F1.
    + destruct (bufsize f <=? zlen (wbuf f ++ d)).
      * intros H. apply flush_frame in H. exact (wframe_trans _ _ _ F1 H).
      * intros H; injection H as <- <-. exact F1.
  - destruct (write_all c_swrite fuel f d) as [f2|] eqn:E; intros H; injection H as <- <-.
    + now apply write_all_frame in E.
    + apply wframe_refl.
Qed.
Lemma close_frame fuel (f : cbf) r f' : bf_close c_swrite fuel f = (r, f') -> wframe f f'.
Proof.
  unfold bf_close. destruct (bf_flush c_swrite fuel f) as [[u|e] f1] eqn:E; intros H; injection H as <- <-;
    apply flush_frame in E; unfold wframe in *; cbn; intuition congruence.
Qed.
Lemma wframe_logical f f' : wframe f f' -> logical f' = logical f /\ rframe f f'.
Proof.
  intros (H1 & H2 & H3 & _). unfold rframe, logical. rewrite H1, H2. repeat split; [exact H3|lia].
Qed.

Lemma unreadable_read fuel (f : cbf) size :
  ~ readable f -> bf_read c_sread fuel f size = (Raise IOErr, f).
Proof.
  unfold readable, bf_read. destruct (closed f); [reflexivity|]. destruct (fl_read f); [tauto|reflexivity].
Qed.
Lemma unreadable_readline fuel (f : cbf) size :
  ~ readable f -> bf_readline c_sread fuel f size = (Raise IOErr, f).
Proof.
  unfold readable, bf_readline. destruct (closed f); [reflexivity|]. destruct (fl_read f); [tauto|reflexivity].
Qed.
Lemma readable_dec (f : cbf) : readable f \/ ~ readable f.
Proof.
  unfold readable. destruct (closed f), (fl_read f); intuition congruence.
Qed.
Lemma rframe_refl f : rframe f f.
Proof. unfold rframe. split; [reflexivity|lia]. Qed.

(* every call hands the caller exactly the next bytes of the logical stream *)
Lemma step_logical fuel (f : cbf) o r f' :
  (length (logical f) < fuel)%nat -> 0 < bufsize f -> step fuel f o = (r, f') ->
  logical f = result_bytes r ++ logical f' /\ rframe f f'.
Proof.
  intros Hf Hb H. pose proof (fuel_sdata _ _ Hf) as Hs.
  destruct o as [n| |size|hint| |d| |]; cbn [step] in H.
  - destruct (readable_dec f) as [Hr|Hr].
    + destruct (Z_lt_ge_dec n 0) as [Hn|Hn].
      * destruct (c_read_all fuel f (Some n) Hs Hr Hn) as (f1 & E & P & _).
        rewrite E in H. injection H as <- <-. now apply post_rframe.
      * destruct (c_read_n fuel f n Hs Hb Hr ltac:(lia)) as (f1 & E & P).
        rewrite E in H. injection H as <- <-. now apply post_rframe.
    + rewrite (unreadable_read _ _ _ Hr) in H. injection H as <- <-. split; [reflexivity|apply rframe_refl].
  - destruct (readable_dec f) as [Hr|Hr].
    + destruct (c_read_all fuel f None Hs Hr I) as (f1 & E & P & _).
      rewrite E in H. injection H as <- <-. now apply post_rframe.
    + rewrite (unreadable_read _ _ _ Hr) in H. injection H as <- <-. split; [reflexivity|apply rframe_refl].
  - destruct (readable_dec f) as [Hr|Hr].
    + destruct (c_readline fuel f size Hs Hb Hr) as (f1 & E & P).
      rewrite E in H. injection H as <- <-. now apply post_rframe.
    + rewrite (unreadable_readline _ _ _ Hr) in H. injection H as <- <-. split; [reflexivity|apply rframe_refl].
  - destruct (readable_dec f) as [Hr|Hr].
    + unfold bf_readlines in H.
      destruct (readlines_loop_spec fuel fuel f hint 0 Hf Hf Hb Hr) as (ls & f1 & E & HL & Fr & _).
      rewrite E in H. injection H as <- <-. split; [exact HL|exact Fr].
    + unfold bf_readlines in H. destruct fuel as [|k]; [lia|]. cbn [readlines_loop] in H.
      rewrite (unreadable_readline _ _ _ Hr) in H. injection H as <- <-.
      split; [reflexivity|apply rframe_refl].
  - unfold bf_next in H. destruct (readable_dec f) as [Hr|Hr].
    + destruct (c_readline fuel f None Hs Hb Hr) as (f1 & E & P).
      rewrite E in H. destruct (post_rframe _ _ _ P) as [HL Fr].
      destruct (is_nil (line_spec None (logical f))) eqn:En; injection H as <- <-.
      * apply is_nil_true in En. rewrite En in HL. split; [exact HL|exact Fr].
      * split; [exact HL|exact Fr].
    + rewrite (unreadable_readline _ _ _ Hr) in H. injection H as <- <-. split; [reflexivity|apply rframe_refl].
  - destruct (bf_write c_swrite fuel f d) as [[u|e] f1] eqn:E; cbn in H; injection H as <- <-;
      apply write_frame in E; destruct (wframe_logical _ _ E) as [-> Fr]; (split; [reflexivity|exact Fr]).
  - destruct (bf_flush c_swrite fuel f) as [[u|e] f1] eqn:E; cbn in H; injection H as <- <-;
      apply flush_frame in E; destruct (wframe_logical _ _ E) as [-> Fr]; (split; [reflexivity|exact Fr]).
  - destruct (bf_close c_swrite fuel f) as [[u|e] f1] eqn:E; cbn in H; injection H as <- <-;
      apply close_frame in E; destruct (wframe_logical _ _ E) as [-> Fr]; (split; [reflexivity|exact Fr]).
Qed.

Lemma run_ops_read_stream fuel : forall ops (f : cbf) rs f',
  (length (logical f) < fuel)%nat -> 0 < bufsize f -> run_ops fuel f ops = (rs, f') ->
  logical f = concat (map result_bytes rs) ++ logical f'.
Proof.
  induction ops as [|o ops IH]; intros f rs f' Hf Hb H; cbn [run_ops] in H.
  - injection H as <- <-. reflexivity.
  - destruct (step fuel f o) as [x f1] eqn:E1.
    destruct (run_ops fuel f1 ops) as [xs f2] eqn:E2. injection H as <- <-.
    destruct (step_logical _ _ _ _ _ Hf Hb E1) as [HL [Hb1 Hlen]].
    cbn [map concat]. rewrite <- app_assoc, <- (IH f1 xs f2); [exact HL|lia|lia|exact E2].
Qed.

Lemma set_mode_bufsize (hr hw ha hp : bool) bufsz size0 (s : cstream) :
  0 < bufsize (set_mode hr hw ha hp bufsz size0 s).
Proof. unfold set_mode, DEFAULT_BUFSIZE. cbn. destruct (bufsz <? 0) eqn:E; destruct (1 <? _) eqn:E2; lia. Qed.

(* ---- read calls never touch the write side (no fuel assumption) ---- *)
Definition rdframe (f f' : cbf) : Prop :=
  wbuf f' = wbuf f /\ delivered (strm f') = delivered (strm f) /\ fl_buffered f' = fl_buffered f /\
  fl_linebuf f' = fl_linebuf f /\ fl_write f' = fl_write f /\ closed f' = closed f /\
  bufsize f' = bufsize f.
Ltac rd := unfold rdframe in *; cbn in *; intuition congruence.
Lemma rdframe_refl f : rdframe f f. Proof. rd. Qed.

Lemma fill_loop_rd fuel : forall size (f f' : cbf),
  fill_loop c_sread fuel size f = Some f' -> rdframe f f'.
Proof.
  induction fuel as [|k IH]; intros size f f' H; cbn [fill_loop] in H;
    (destruct (size <=? zlen (rbuf f)); [injection H as <-; apply rdframe_refl|]); [discriminate|].
  unfold c_sread at 1 in H.
  match type of H with (if is_nil ?d then _ else _) = _ => destruct (is_nil d) end.
  - injection H as <-. rd.
  - apply IH in H. rd.
Qed.
Lemma read_all_loop_rd fuel : forall res (f : cbf) res' f',
  read_all_loop c_sread fuel res f = Some (res', f') -> rdframe f f'.
Proof.
  induction fuel as [|k IH]; intros res f res' f' H; cbn [read_all_loop] in H; [discriminate|].
  unfold c_sread at 1 in H.
  match type of H with (if is_nil ?d then _ else _) = _ => destruct (is_nil d) end.
  - injection H as <- <-. rd.
  - apply IH in H. rd.
Qed.
Lemma rl_loop_rd fuel : forall size line (f : cbf),
  match rl_loop c_sread fuel size line f with
  | RLEof _ f' => rdframe f f' | RLBreak _ _ f' => rdframe f f' | RLFuel => True end.
Proof.
  induction fuel as [|k IH]; intros size line f; cbn [rl_loop];
    (match goal with |- context [if ?c && ?d then _ else _] => destruct (c && d) end; [rd|]);
    (destruct (has_lf line); [rd|]); [exact I|].
  unfold c_sread at 1.
  match goal with |- context [if is_nil ?d then _ else _] => destruct (is_nil d) end; [rd|].
  match goal with |- context [rl_loop c_sread k size ?l ?g] => specialize (IH size l g);
    destruct (rl_loop c_sread k size l g) end; try exact I; rd.
Qed.
Lemma read_rd fuel (f : cbf) size r f' : bf_read c_sread fuel f size = (r, f') -> rdframe f f'.
Proof.
  unfold bf_read. destruct (closed f); [intros H; injection H as <- <-; apply rdframe_refl|].
  destruct (fl_read f); cbn [negb]; [|intros H; injection H as <- <-; apply rdframe_refl].
  match goal with |- context [if ?c then _ else _] => destruct c end.
  - match goal with |- context [read_all_loop c_sread fuel ?a ?g] =>
      destruct (read_all_loop c_sread fuel a g) as [[res f1]|] eqn:E end;
      intros H; injection H as <- <-; [apply read_all_loop_rd in E; rd|apply rdframe_refl].
  - match goal with |- context [if ?c then _ else _] => destruct c end.
    + intros H; injection H as <- <-. rd.
    + match goal with |- context [fill_loop c_sread fuel ?a ?g] =>
        destruct (fill_loop c_sread fuel a g) as [f1|] eqn:E end;
        intros H; injection H as <- <-; [apply fill_loop_rd in E; rd|apply rdframe_refl].
Qed.
Lemma readline_rd fuel (f : cbf) size r f' : bf_readline c_sread fuel f size = (r, f') -> rdframe f f'.
Proof.
  unfold bf_readline. destruct (closed f); [intros H; injection H as <- <-; apply rdframe_refl|].
  destruct (fl_read f); cbn [negb]; [|intros H; injection H as <- <-; apply rdframe_refl].
  pose proof (rl_loop_rd fuel size (rbuf f) f) as R.
  destruct (rl_loop c_sread fuel size (rbuf f) f) as [l f1|l t f1|].
  - intros H; injection H as <- <-. rd.
  - destruct (index_of LF l); intros H; injection H as <- <-; rd.
  - intros H; injection H as <- <-. apply rdframe_refl.
Qed.
Lemma rdframe_trans a b c : rdframe a b -> rdframe b c -> rdframe a c.
Proof. rd. Qed.
Lemma readlines_rd fuel : forall lfuel (f : cbf) hint count r f',
  readlines_loop c_sread lfuel fuel hint count f = (r, f') -> rdframe f f'.
Proof.
  induction lfuel as [|k IH]; intros f hint count r f' H; cbn [readlines_loop] in H.
  - injection H as <- <-. apply rdframe_refl.
  - destruct (bf_readline c_sread fuel f None) as [[line|e] f1] eqn:E; apply readline_rd in E.
    + destruct (is_nil line); [injection H as <- <-; exact E|].
      match type of H with (if ?c then _ else _) = _ => destruct c end; [injection H as <- <-; exact E|].
      destruct (readlines_loop c_sread k fuel hint (count + zlen line) f1) as [[ls|e] f2] eqn:E2;
        apply IH in E2; injection H as <- <-; eapply rdframe_trans; eassumption.
    + injection H as <- <-. exact E.
Qed.

(* ---- write completeness over op sequences ---- *)
Definition opw (o : op) : nat := match o with OWrite d => length d | _ => O end.
Definition wtotal (ops : list op) : nat := fold_right (fun o a => (opw o + a)%nat) O ops.
(* data of the write calls that were accepted (returned None) *)
Definition accepted1 (o : op) (r : oresult) : list Z :=
  match o, r with OWrite d, RNone => d | _, _ => [] end.
Fixpoint accepted (ops : list op) (rs : list oresult) : list Z :=
  match ops, rs with
  | o :: ops', r :: rs' => accepted1 o r ++ accepted ops' rs'
  | _, _ => []
  end.
Definition winv (f : cbf) : Prop := fl_buffered f = false -> wbuf f = [].
(* the whole data handed to write so far is split between the stream and the buffer *)
Definition wview (f : cbf) : list Z := delivered (strm f) ++ wbuf f.

Lemma step_wview fuel (f : cbf) o r f' :
  (length (wbuf f) + opw o < fuel)%nat -> winv f -> step fuel f o = (r, f') ->
  wview f' = wview f ++ accepted1 o r /\ winv f' /\
  (length (wbuf f') <= length (wbuf f) + opw o)%nat /\
  (fl_buffered f' = fl_buffered f /\ fl_linebuf f' = fl_linebuf f /\ bufsize f' = bufsize f) /\
  (fl_buffered f = true -> fl_linebuf f = true -> has_lf (wbuf f) = false -> has_lf (wbuf f') = false) /\
  (match o with OFlush | OClose => wbuf f' = [] /\ r = RNone | _ => True end).
Proof.
  intros Hf Hw H.
  assert (Hread : rdframe f f' -> accepted1 o r = [] ->
     wview f' = wview f ++ accepted1 o r /\ winv f' /\
     (length (wbuf f') <= length (wbuf f) + opw o)%nat /\
     (fl_buffered f' = fl_buffered f /\ fl_linebuf f' = fl_linebuf f /\ bufsize f' = bufsize f) /\
     (fl_buffered f = true -> fl_linebuf f = true -> has_lf (wbuf f) = false -> has_lf (wbuf f') = false)).
  { intros (R1 & R2 & R3 & R4 & R5 & R6 & R7) ->. unfold wview, winv in *. rewrite R1, R2, R3, app_nil_r.
    repeat split; try assumption; try lia. }
  destruct o as [n| |size|hint| |d| |]; cbn [step] in H.
  - destruct (bf_read c_sread fuel f (Some n)) as [[b|e] f1] eqn:E; cbn in H; injection H as <- <-;
      apply read_rd in E; pose proof (Hread E eq_refl); tauto.
  - destruct (bf_read c_sread fuel f None) as [[b|e] f1] eqn:E; cbn in H; injection H as <- <-;
      apply read_rd in E; pose proof (Hread E eq_refl); tauto.
  - destruct (bf_readline c_sread fuel f size) as [[b|e] f1] eqn:E; cbn in H; injection H as <- <-;
      apply readline_rd in E; pose proof (Hread E eq_refl); tauto.
  - unfold bf_readlines in H.
    destruct (readlines_loop c_sread fuel fuel hint 0 f) as [[b|e] f1] eqn:E; injection H as <- <-;
      apply readlines_rd in E; pose proof (Hread E eq_refl); tauto.
  - unfold bf_next in H.
    destruct (bf_readline c_sread fuel f None) as [[b|e] f1] eqn:E; apply readline_rd in E.
    + destruct (is_nil b); cbn in H; injection H as <- <-; pose proof (Hread E eq_refl); tauto.
    + cbn in H; injection H as <- <-; pose proof (Hread E eq_refl); tauto.
  - cbn [opw] in Hf.
    destruct (closed f) eqn:Ec; [|destruct (fl_write f) eqn:Ewr].
    + unfold bf_write in H. rewrite Ec in H. cbn in H. injection H as <- <-.
      pose proof (Hread (rdframe_refl f) eq_refl). tauto.
    + destruct (write_spec fuel f d Hf (conj Ec Ewr) Hw) as (f1 & E & V & C & Fr & Hlen & U & Lb & _).
      rewrite E in H. cbn in H. injection H as <- <-. cbn [accepted1].
      destruct Fr as (_ & _ & F3 & F4 & F5 & _).
      split; [unfold wview; rewrite V; now rewrite <- app_assoc|].
      split; [unfold winv in *; intros Hb; apply U; [congruence|apply Hw; congruence]|].
      split; [exact Hlen|]. split; [tauto|]. split; [exact Lb|exact I].
    + unfold bf_write in H. rewrite Ec, Ewr in H. cbn in H. injection H as <- <-.
      pose proof (Hread (rdframe_refl f) eq_refl). tauto.
  - cbn [opw] in Hf. destruct (flush_spec fuel f ltac:(lia)) as (f1 & E & W & D & C & Fr).
    rewrite E in H. cbn in H. injection H as <- <-. cbn [accepted1]. rewrite app_nil_r.
    destruct Fr as (_ & _ & F3 & F4 & F5 & _).
    split; [unfold wview; rewrite W, D, app_nil_r; reflexivity|].
    split; [intros _; exact W|]. split; [rewrite W; cbn; lia|]. split; [tauto|].
    split; [intros; rewrite W; reflexivity|]. split; [exact W|reflexivity].
  - cbn [opw] in Hf. unfold bf_close in H. destruct (flush_spec fuel f ltac:(lia)) as (f1 & E & W & D & C & Fr).
    rewrite E in H. cbn in H. injection H as <- <-. cbn [accepted1]. rewrite app_nil_r.
    destruct Fr as (_ & _ & F3 & F4 & F5 & _).
    split; [unfold wview; cbn; rewrite W, D, app_nil_r; reflexivity|].
    split; [intros _; exact W|]. split; [cbn; rewrite W; cbn; lia|]. split; [cbn; tauto|].
    split; [intros; cbn; rewrite W; reflexivity|]. split; [exact W|reflexivity].
Qed.

Lemma run_ops_wview fuel : forall ops (f : cbf) rs f',
  (length (wbuf f) + wtotal ops < fuel)%nat -> winv f -> run_ops fuel f ops = (rs, f') ->
  wview f' = wview f ++ accepted ops rs /\ winv f'.
Proof.
  induction ops as [|o ops IH]; intros f rs f' Hf Hw H; cbn [run_ops] in H.
  - injection H as <- <-. cbn. rewrite app_nil_r. tauto.
  - destruct (step fuel f o) as [x f1] eqn:E1.
    destruct (run_ops fuel f1 ops) as [xs f2] eqn:E2. injection H as <- <-.
    cbn [wtotal fold_right] in Hf. fold (wtotal ops) in Hf.
    destruct (step_wview fuel f o x f1 ltac:(lia) Hw E1) as (V & W1 & Hl & _).
    destruct (IH f1 xs f2 ltac:(lia) W1 E2) as (V2 & W2).
    split; [|exact W2]. cbn [accepted]. rewrite V2, V. now rewrite app_assoc.
Qed.

(* line-buffered mode: after every call of any op sequence the buffer holds no newline *)
Lemma run_ops_line_buffered fuel : forall ops (f : cbf) rs f',
  (length (wbuf f) + wtotal ops < fuel)%nat -> winv f ->
  fl_buffered f = true -> fl_linebuf f = true -> has_lf (wbuf f) = false ->
  run_ops fuel f ops = (rs, f') -> has_lf (wbuf f') = false.
Proof.
  induction ops as [|o ops IH]; intros f rs f' Hf Hw Hb Hl Hn H; cbn [run_ops] in H.
  - injection H as <- <-. exact Hn.
  - destruct (step fuel f o) as [x f1] eqn:E1.
    destruct (run_ops fuel f1 ops) as [xs f2] eqn:E2. injection H as <- <-.
    cbn [wtotal fold_right] in Hf. fold (wtotal ops) in Hf.
    destruct (step_wview fuel f o x f1 ltac:(lia) Hw E1) as (V & W1 & Hlen & (B1 & B2 & _) & Lb & _).
    apply (IH f1 xs f2); try assumption; try lia; try congruence; try (now apply Lb).
Qed.

Lemma set_mode_winv (hr hw ha hp : bool) bufsz size0 (s : cstream) :
  winv (set_mode hr hw ha hp bufsz size0 s).
Proof. unfold winv. reflexivity. Qed.

(* ---- statements exported by Props/C42_props.v ---- *)
Lemma p_read_exact :
  forall (fuel : nat) (f : cbf) (n : Z),
    (length (sdata (strm f)) < fuel)%nat -> 0 < bufsize f -> readable f -> 0 <= n ->
    exists f', bf_read c_sread fuel f (Some n) = (Ok (take n (logical f)), f') /\
               logical f = take n (logical f) ++ logical f'.
Proof.
  intros fuel f n H1 H2 H3 H4. destruct (c_read_n fuel f n H1 H2 H3 H4) as (f' & E & P).
  exists f'. split; [exact E|]. exact (proj1 (post_rframe _ _ _ P)).
Qed.

Lemma p_read_all_exact :
  forall (fuel : nat) (f : cbf),
    (length (sdata (strm f)) < fuel)%nat -> readable f ->
    exists f', bf_read c_sread fuel f None = (Ok (logical f), f') /\ logical f' = [].
Proof.
  intros fuel f H1 H2. destruct (c_read_all fuel f None H1 H2 I) as (f' & E & _ & P).
  exists f'. split; assumption.
Qed.

Lemma p_readline_exact :
  forall (fuel : nat) (f : cbf) (size : option Z),
    (length (sdata (strm f)) < fuel)%nat -> 0 < bufsize f -> readable f ->
    exists f', bf_readline c_sread fuel f size = (Ok (line_spec size (logical f)), f') /\
               logical f = line_spec size (logical f) ++ logical f'.
Proof.
  intros fuel f size H1 H2 H3. destruct (c_readline fuel f size H1 H2 H3) as (f' & E & P).
  exists f'. split; [exact E|]. exact (proj1 (post_rframe _ _ _ P)).
Qed.

Lemma p_write_complete :
  forall (fuel : nat) (ops : list op) (f : cbf) (rs : list oresult) (f' : cbf),
    (length (wbuf f) + wtotal ops < fuel)%nat -> winv f ->
    run_ops fuel f ops = (rs, f') ->
    delivered (strm f') ++ wbuf f' = (delivered (strm f) ++ wbuf f) ++ accepted ops rs.
Proof. intros fuel ops f rs f' H1 H2 H3. exact (proj1 (run_ops_wview fuel ops f rs f' H1 H2 H3)). Qed.

Lemma p_flush_empties :
  forall (fuel : nat) (f : cbf) (o : op) (r : oresult) (f' : cbf),
    (o = OFlush \/ o = OClose) -> (length (wbuf f) < fuel)%nat -> winv f ->
    step fuel f o = (r, f') ->
    r = RNone /\ wbuf f' = [] /\ delivered (strm f') = delivered (strm f) ++ wbuf f.
Proof.
  intros fuel f o r f' Ho Hf Hw H.
  assert (Hf' : (length (wbuf f) + opw o < fuel)%nat) by (destruct Ho; subst; cbn; lia).
  destruct (step_wview fuel f o r f' Hf' Hw H) as (V & _ & _ & _ & _ & Hlast).
  assert (Hacc : accepted1 o r = []) by (destruct Ho; subst; reflexivity).
  assert (Hl : wbuf f' = [] /\ r = RNone) by (destruct Ho; subst; exact Hlast).
  destruct Hl as [Hl1 Hl2]. split; [exact Hl2|]. split; [exact Hl1|].
  unfold wview in V. rewrite Hl1, Hacc, !app_nil_r in V. exact V.
Qed.

Lemma p_initial_state :
  forall (hr hw ha hp : bool) (bufsz size0 : Z) (s : cstream),
    let f := set_mode hr hw ha hp bufsz size0 s in
    0 < bufsize f /\ winv f /\ has_lf (wbuf f) = false /\ logical f = sdata s.
Proof.
  intros. split; [apply set_mode_bufsize|]. split; [apply set_mode_winv|]. split; reflexivity.
Qed.

(* ---- tie to the source: constants and the mode / buffering table of _set_mode, regenerated from
   paramiko/file.py on every run (coq/Gen/C42_gen.v, gen/c42.py) ---- *)
Definition flags_of {S} (f : bf S) : Z :=
  (if fl_read f then G_FLAG_READ else 0) + (if fl_write f then G_FLAG_WRITE else 0) +
  (if fl_append f then G_FLAG_APPEND else 0) + (if fl_buffered f then G_FLAG_BUFFERED else 0) +
  (if fl_linebuf f then G_FLAG_LINE_BUFFERED else 0).
Definition set_mode_row_ok (row : (bool * bool * bool * bool) * Z * Z * (Z * Z * Z)) : bool :=
  let '((r, w, a, p), bs, size, (fl, bsz, ps)) := row in
  let f := set_mode r w a p bs size tt in
  (flags_of f =? fl) && (bufsize f =? bsz) && (pos f =? ps) && (realpos f =? ps) &&
  (if a then fsize f =? size else true).
Lemma source_constants :
  DEFAULT_BUFSIZE = G_DEFAULT_BUFSIZE /\ LF = G_LF /\
  forallb set_mode_row_ok G_set_mode_table = true /\ (100 < length G_set_mode_table)%nat.
Proof. split; [reflexivity|]. split; [reflexivity|]. split; [vm_compute; reflexivity|vm_compute; lia]. Qed.

(* ---- timeouts: nothing is lost when _read raises between two chunks of one read(n) ---- *)
Lemma take_nil_drop k l : take k l = [] -> drop k l = l.
Proof. intros H. rewrite <- (take_drop k l) at 2. now rewrite H. Qed.

Lemma fill_loop_ev_pres fuel : forall size (f f' : ebf),
  fill_loop e_sread fuel size f = Some f' -> elogical f' = elogical f.
Proof.
  induction fuel as [|k IH]; intros size f f' H; cbn [fill_loop] in H;
    (destruct (size <=? zlen (rbuf f)); [injection H as <-; reflexivity|]); [discriminate|].
  unfold e_sread at 1 in H.
  destruct (efaults (strm f)) as [|[|] r] eqn:Ef.
  - unfold c_sread at 1 in H.
    match type of H with (if is_nil ?d then _ else _) = _ => destruct (is_nil d) eqn:En end.
    + injection H as <-. apply is_nil_true in En. unfold elogical. cbn.
      f_equal. apply take_nil_drop. exact En.
    + apply IH in H. rewrite H. unfold elogical. cbn. rewrite <- app_assoc, take_drop. reflexivity.
  - cbn in H. injection H as <-. reflexivity.
  - unfold c_sread at 1 in H.
    match type of H with (if is_nil ?d then _ else _) = _ => destruct (is_nil d) eqn:En end.
    + injection H as <-. apply is_nil_true in En. unfold elogical. cbn.
      f_equal. apply take_nil_drop. exact En.
    + apply IH in H. rewrite H. unfold elogical. cbn. rewrite <- app_assoc, take_drop. reflexivity.
Qed.

Lemma read_ev_pres fuel (f : ebf) n r f' :
  bf_read_ev fuel f n = (r, f') -> elogical f = ok_bytes r ++ elogical f'.
Proof.
  unfold bf_read_ev. destruct (closed f); [intros H; injection H as <- <-; reflexivity|].
  destruct (fl_read f); cbn [negb]; [|intros H; injection H as <- <-; reflexivity].
  destruct (n <? 0); [intros H; injection H as <- <-; reflexivity|].
  destruct (n <=? zlen (rbuf f)).
  - intros H; injection H as <- <-. unfold elogical. cbn. now rewrite app_assoc, take_drop.
  - destruct (fill_loop e_sread fuel n f) as [f1|] eqn:E; [|intros H; injection H as <- <-; reflexivity].
    apply fill_loop_ev_pres in E. destruct (efault (strm f1)); intros H; injection H as <- <-.
    + symmetry. exact E.
    + rewrite <- E. unfold elogical. cbn. now rewrite app_assoc, take_drop.
Qed.

Lemma erun_pres fuel : forall ns (f : ebf) rs f',
  erun fuel f ns = (rs, f') -> elogical f = concat (map ok_bytes rs) ++ elogical f'.
Proof.
  induction ns as [|n ns IH]; intros f rs f' H; cbn [erun] in H.
  - injection H as <- <-. reflexivity.
  - destruct (bf_read_ev fuel f n) as [x f1] eqn:E1. destruct (erun fuel f1 ns) as [xs f2] eqn:E2.
    injection H as <- <-. cbn [map concat]. rewrite <- app_assoc, <- (IH f1 xs f2 E2).
    exact (read_ev_pres _ _ _ _ _ E1).
Qed.
