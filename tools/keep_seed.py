#!/usr/bin/env python3
"""keep_seed.py <src change dir> <seed id> <property> "<caught: which check + how>" """
import json, os, shutil, sys
src, sid, pid, caught = sys.argv[1:5]
dst = os.path.join("/verif/seeded", sid)
os.makedirs(dst, exist_ok=True)
for f in os.listdir(src):
    shutil.copy(os.path.join(src, f), os.path.join(dst, f))
mp = os.path.join(dst, "meta.json")
meta = json.load(open(mp)) if os.path.exists(mp) else {}
meta["property"] = pid
meta["confirmed_by_me"] = ("applied patch.diff in a scratch worktree; demo exits 1 with the patch and 0 without; "
                           "author ran the test suite (see tests_run)")
meta["check_result"] = caught
json.dump(meta, open(mp, "w"), indent=1)
print("kept", dst)
