(* C45 -- lemmas about Model/C45.v (over Gen/C45_gen.v and C39's codec lemmas) *)
From Coq Require Import ZArith List Bool Lia ZifyBool.
From PV Require Import Bytes C39 C39_proofs C45_gen C45.
Import ListNotations.
Open Scope Z_scope.

(* ---- flags ------------------------------------------------------------------ *)
(* the generated map implements the statement's rule, for every algorithm name *)
Lemma flags_spec alg : sign_flags alg = spec_flags alg.
Proof.
  destruct alg as [a|]; [|reflexivity].
  unfold sign_flags, spec_flags, flag_map, n_rsa_sha2_256, n_rsa_sha2_512, cert_suffix.
  cbn [map_get app].
  repeat match goal with
         | |- context [zlist_eqb a ?k] =>
             let E := fresh "E" in destruct (zlist_eqb a k) eqn:E
         end;
    cbn [orb]; try reflexivity;
    repeat match goal with
           | H : zlist_eqb _ _ = true |- _ => apply zlist_eqb_eq in H
           end;
    subst; discriminate.
Qed.

Lemma spec_flags_cases alg :
  (spec_flags alg = 2 /\ (alg = Some n_rsa_sha2_256 \/ alg = Some (n_rsa_sha2_256 ++ cert_suffix))) \/
  (spec_flags alg = 4 /\ (alg = Some n_rsa_sha2_512 \/ alg = Some (n_rsa_sha2_512 ++ cert_suffix))) \/
  (spec_flags alg = 0 /\ alg <> Some n_rsa_sha2_256 /\ alg <> Some (n_rsa_sha2_256 ++ cert_suffix)
                      /\ alg <> Some n_rsa_sha2_512 /\ alg <> Some (n_rsa_sha2_512 ++ cert_suffix)).
Proof.
  destruct alg as [a|].
  - unfold spec_flags.
    destruct (zlist_eqb a n_rsa_sha2_256) eqn:E1; [apply zlist_eqb_eq in E1; subst; left; auto|].
    destruct (zlist_eqb a (n_rsa_sha2_256 ++ cert_suffix)) eqn:E2;
      [apply zlist_eqb_eq in E2; subst; left; auto|].
    destruct (zlist_eqb a n_rsa_sha2_512) eqn:E3;
      [apply zlist_eqb_eq in E3; subst; right; left; auto|].
    destruct (zlist_eqb a (n_rsa_sha2_512 ++ cert_suffix)) eqn:E4;
      [apply zlist_eqb_eq in E4; subst; right; left; auto|].
    right. right. cbn [orb]. split; [reflexivity|].
    assert (R : forall x, zlist_eqb x x = true) by (intros x; now apply zlist_eqb_eq).
    split; [intros H; injection H as ->; rewrite R in E1; discriminate|].
    split; [intros H; injection H as ->; rewrite R in E2; discriminate|].
    split; [intros H; injection H as ->; rewrite R in E3; discriminate|].
    intros H; injection H as ->; rewrite R in E4; discriminate.
  - right. right. cbn. repeat split; discriminate.
Qed.

Lemma flags_exact alg :
  (sign_flags alg = 2 <-> alg = Some n_rsa_sha2_256 \/ alg = Some (n_rsa_sha2_256 ++ cert_suffix)) /\
  (sign_flags alg = 4 <-> alg = Some n_rsa_sha2_512 \/ alg = Some (n_rsa_sha2_512 ++ cert_suffix)) /\
  (sign_flags alg = 2 \/ sign_flags alg = 4 \/ sign_flags alg = 0).
Proof.
  rewrite flags_spec.
  destruct (spec_flags_cases alg) as [(E & H)|[(E & H)|(E & N1 & N2 & N3 & N4)]]; rewrite E.
  - split; [tauto|]. split; [|auto]. split; [discriminate|].
    intros [->| ->]; destruct H as [H|H]; vm_compute in E; discriminate.
  - split; [|split; [tauto | auto]]. split; [discriminate|].
    intros [->| ->]; destruct H as [H|H]; vm_compute in E; discriminate.
  - split; [|split; [|auto]]; (split; [discriminate | intros [H|H]; contradiction]).
Qed.

Lemma flags_u32 alg : (0 <=? sign_flags alg) && (sign_flags alg <? 2 ^ 32) = true.
Proof. destruct (flags_exact alg) as (_ & _ & [E|[E|E]]); rewrite E; reflexivity. Qed.

(* ---- request ------------------------------------------------------------------ *)
Lemma request_is_encode_all blob inner data alg :
  sign_request blob inner data alg =
  encode_all [FByte 13; FString (key_asbytes blob inner); FString data; FU32 (spec_flags alg)].
Proof.
  unfold sign_request. rewrite <- flags_spec. cbn [encode_all encode_field].
  change c_sign_request with [13].
  destruct (add_string (key_asbytes blob inner)) as [a|e]; cbn [bind]; [|reflexivity].
  destruct (add_string data) as [b|e]; cbn [bind]; [|reflexivity].
  destruct (pack_u32 (sign_flags alg)) as [c|e]; cbn [bind]; [|reflexivity].
  now rewrite app_nil_r.
Qed.

(* a reader of the wire format gets back exactly (13, blob, data, flags), whatever follows *)
Lemma request_decodes blob inner data alg msg rest :
  bytes_ok (key_asbytes blob inner) = true -> bytes_ok data = true ->
  sign_request blob inner data alg = Ok msg ->
  decode_all [KByte; KString; KString; KU32] (msg ++ rest) 0 =
  ([FByte 13; FString (key_asbytes blob inner); FString data; FU32 (spec_flags alg)], length msg).
Proof.
  intros Hb Hd H. rewrite request_is_encode_all in H.
  apply (roundtrip [FByte 13; FString (key_asbytes blob inner); FString data; FU32 (spec_flags alg)] msg rest);
    [|exact H].
  cbn [forallb field_wf]. rewrite Hb, Hd. rewrite <- flags_spec, flags_u32. reflexivity.
Qed.

(* ---- reply -------------------------------------------------------------------- *)
Lemma get_bytes_head t rest : get_bytes (t :: rest) 0 1 = ([t], 1%nat).
Proof.
  unfold get_bytes. cbn [skipn].
  rewrite Z.min_l by (cbn [length]; lia).
  change (Z.to_nat 1) with 1%nat. cbn [firstn length Nat.add].
  change (Z.of_nat 1 <? 1) with false. reflexivity.
Qed.

Lemma reply_other_type t rest : t <> sign_response -> parse_reply (t :: rest) = Raise SSHExc.
Proof.
  intros H. unfold parse_reply. rewrite get_bytes_head. cbn [hd].
  destruct (t =? sign_response) eqn:E; [lia | reflexivity].
Qed.

Lemma reply_empty : parse_reply [] = Raise SSHExc.
Proof. reflexivity. Qed.

Lemma reply_ok_only_response body s :
  parse_reply body = Ok s -> exists rest, body = sign_response :: rest.
Proof.
  destruct body as [|t rest]; [discriminate|].
  intros H. destruct (Z.eq_dec t sign_response) as [->|N]; [eauto|].
  rewrite (reply_other_type t rest N) in H. discriminate.
Qed.

Lemma reply_signature sig enc rest :
  bytes_ok sig = true -> add_string sig = Ok enc ->
  parse_reply (sign_response :: enc ++ rest) = Ok sig.
Proof.
  intros Hs He.
  assert (Henc : encode_all [FByte sign_response; FString sig] = Ok (sign_response :: enc)).
  { cbn [encode_all encode_field bind]. rewrite He. cbn [bind]. now rewrite app_nil_r. }
  assert (Hwf : forallb field_wf [FByte sign_response; FString sig] = true).
  { cbn [forallb field_wf]. now rewrite Hs. }
  pose proof (roundtrip _ _ rest Hwf Henc) as H.
  cbn [map kind_of decode_all decode_field] in H.
  change ((sign_response :: enc) ++ rest) with (sign_response :: enc ++ rest) in H.
  unfold parse_reply.
  destruct (get_bytes (sign_response :: enc ++ rest) 0 1) as [b p] eqn:E1.
  destruct (get_string (sign_response :: enc ++ rest) p) as [s p2] eqn:E2.
  injection H as H1 H2 _. rewrite H1. cbn [fst]. now rewrite H2.
Qed.

(* ---- end to end over a well-behaved agent ---------------------------------------- *)
Lemma take_app (a b : list Z) : firstn (length a) (a ++ b) = a /\ skipn (length a) (a ++ b) = b.
Proof. induction a as [|x a [IH1 IH2]]; cbn; [auto|]. now rewrite IH1, IH2. Qed.

Lemma read_all_app a b : read_all (a ++ b) (Z.of_nat (length a)) = Ok (a, b).
Proof.
  unfold read_all. rewrite app_length.
  assert (E : (Z.of_nat (length a + length b) <? Z.of_nat (length a)) = false) by lia.
  rewrite E, Nat2Z.id. destruct (take_app a b) as [-> ->]. reflexivity.
Qed.

Lemma add_string_ok (s : list Z) :
  Z.of_nat (length s) < 2 ^ 32 -> add_string s = Ok (be_encode 4 (Z.of_nat (length s)) ++ s).
Proof.
  intros H. unfold add_string, pack_u32.
  assert (E : (0 <=? Z.of_nat (length s)) && (Z.of_nat (length s) <? 2 ^ 32) = true) by lia.
  rewrite E. reflexivity.
Qed.

Lemma read_frame body extra :
  Z.of_nat (length body) < 2 ^ 32 ->
  bind (read_all (frame body ++ extra) 4) (fun '(d, rest) =>
  bind (read_all rest (be_decode d)) (fun '(b, _) => parse_reply b)) = parse_reply body.
Proof.
  intros H. unfold frame. rewrite <- app_assoc.
  pose proof (read_all_app (be_encode 4 (Z.of_nat (length body))) (body ++ extra)) as R.
  rewrite be_encode_length in R. change (Z.of_nat 4) with 4 in R. rewrite R. cbn [bind].
  rewrite be_decode_encode by (change (256 ^ Z.of_nat 4) with (2 ^ 32); lia).
  rewrite read_all_app. reflexivity.
Qed.

Lemma sign_end_to_end blob inner data alg msg sig extra :
  sign_request blob inner data alg = Ok msg ->
  Z.of_nat (length msg) < 2 ^ 32 ->
  bytes_ok sig = true -> Z.of_nat (length sig) + 5 < 2 ^ 32 ->
  sign_ssh_data blob inner data alg
    (frame (sign_response :: be_encode 4 (Z.of_nat (length sig)) ++ sig) ++ extra)
  = (frame msg, Ok sig).
Proof.
  intros Hm Hl Hs Hn. unfold sign_ssh_data. rewrite Hm. unfold pack_u32.
  assert (E : (0 <=? Z.of_nat (length msg)) && (Z.of_nat (length msg) <? 2 ^ 32) = true) by lia.
  rewrite E. cbv zeta. unfold frame at 2. f_equal.
  rewrite read_frame.
  - rewrite <- (app_nil_r (be_encode 4 (Z.of_nat (length sig)) ++ sig)).
    apply reply_signature; [exact Hs | apply add_string_ok; lia].
  - cbn [length]. rewrite app_length, be_encode_length. lia.
Qed.

(* any reply of another type (or an empty reply) makes sign_ssh_data raise, after the request
   was sent *)
Lemma sign_other_reply blob inner data alg msg t rest extra :
  sign_request blob inner data alg = Ok msg ->
  Z.of_nat (length msg) < 2 ^ 32 ->
  t <> sign_response -> Z.of_nat (length (t :: rest)) < 2 ^ 32 ->
  sign_ssh_data blob inner data alg (frame (t :: rest) ++ extra) = (frame msg, Raise SSHExc).
Proof.
  intros Hm Hl Ht Hn. unfold sign_ssh_data. rewrite Hm. unfold pack_u32.
  assert (E : (0 <=? Z.of_nat (length msg)) && (Z.of_nat (length msg) <? 2 ^ 32) = true) by lia.
  rewrite E. cbv zeta. unfold frame at 2. f_equal.
  rewrite read_frame by exact Hn. now apply reply_other_type.
Qed.
