"""C02 — tampered encrypted traffic is never accepted as different data.

Proof: coq/Props/C02_props.v over coq/Model/C01.v (shared packet model) + coq/Model/C02.v.
Tie: real paramiko.packet.Packetizer receivers with toy engines reading tampered, randomly
fragmented streams, compared with the model's run_recv (delivered list + error class).
Search oracle: real ciphers / MACs; recorded encrypted streams; EVERY single-byte position x
{flip low bit, flip high bit, set 0, delete, insert} plus multi-fault edits, packet swaps, drops,
replays; oracle "delivered messages are a prefix of the sent messages, then error / blocked".
"""
from common import coq

import c01
from c01 import (PinnedUrandom, FragSocket, CaptureSocket, chunk_like_model, mkmsg, read_until_stop, gen_cfg,
                 coq_cfg, install_out, install_in, gen_payload, gen_sizes, MODE_NAMES, real_suites, real_keys,
                 real_install, suite_kind)

PID = "C02"
LEVEL_TEXT = ("Machine-checked proof (Coq, closed under the global context) over the executable model of "
              "Packetizer.read_message shared with C01: constant_time_bytes_eq a b = true <-> a = b for all byte "
              "lists; in every protected path (classic with MAC, encrypt-then-MAC, AEAD) a payload is produced only "
              "after the tag comparison / AEAD decryption succeeded on bytes containing the receiver's current "
              "sequence number or bound to its current IV (truncated MACs treated as the tag); for AEAD and "
              "encrypt-then-MAC, for every byte string presented to the receiver, under the symbolic MAC/AEAD "
              "premise and the stated bound that nonces (seqno / IV) of one key epoch are pairwise distinct, the "
              "delivered messages are a prefix of the sent messages then error/NeedMore (C02_prefix); the classic "
              "MAC-then-encrypt instance of that theorem is NOT proved (needs an injectivity law for "
              "decryption). Tied to packet.py by a "
              "differential run of real Packetizer receivers with toy engines on tampered streams; the real "
              "primitives are covered by an exhaustive single-byte-fault enumeration on recorded encrypted streams.")
LEVEL_NOTE = ("Partial proof: the multi-packet theorem C02_prefix is proved for AEAD and ETM; for the classic "
              "(MAC-then-encrypt) path only C02_no_deliver_before_check, C02_mac_covers_packet and the single-step "
              "C02_classic_step_packet_partial are proved (missing: a byte-range law for decryption output and the "
              "induction with states equal up to the cipher context); nonce distinctness "
              "(< 2^32 packets per key, IV counter < 2^64) is an explicit hypothesis; symbolic MAC/AEAD premise (an accepted event was produced by the key "
              "owner) is a premise, not a property of HMAC/GCM. Trusted: Coq kernel + vm_compute; hand-written "
              "model coq/Model/C01.v validated by the correspondence run; real primitives tested only.")
TECHNIQUE = "fail-closed AST translator gen/c02.py (comparison function, MAC input, statement order of read_message) + Coq proof (inversion of the reader) + vm_compute differential correspondence on tampered streams + exhaustive single-fault enumeration on real ciphers"


def is_prefix(a, b):
    return len(a) <= len(b) and list(a) == list(b[:len(a)])


def toy_record(rng, cfg, seq0, kex, nmsgs):
    from paramiko.packet import Packetizer
    cap = CaptureSocket()
    s = Packetizer(cap)
    s._initial_kex_done = kex
    s._Packetizer__sequence_number_out = seq0
    install_out(s, cfg)
    payloads = [gen_payload(rng, cfg["bs"], 60) if rng.random() < 0.7
                else bytes(rng.randrange(256) for _ in range(rng.randrange(1, 8)))      # fits in the first block
                for _ in range(nmsgs)]
    wires = []
    sent = []
    with PinnedUrandom(rng):
        for pl in payloads:
            n0 = len(cap.sent)
            try:
                s.send_message(mkmsg(pl))
            except BaseException:  # noqa  (seqno / IV overflow: stop sending)
                break
            wires.append(b"".join(cap.sent[n0:]))
            sent.append(pl)
    return sent, wires


def tamper(rng, wires):
    """One random edit of the recorded stream; returns (kind, bytes)."""
    stream = b"".join(wires)
    k = rng.randrange(12)
    if k == 0 or not stream:
        return "none", stream
    if k <= 3:
        i = rng.randrange(len(stream))
        return "flip", stream[:i] + bytes([stream[i] ^ (1 << rng.randrange(8))]) + stream[i + 1:]
    if k == 4:
        i = rng.randrange(len(stream))
        return "delete", stream[:i] + stream[i + 1:]
    if k == 5:
        i = rng.randrange(len(stream) + 1)
        return "insert", stream[:i] + bytes([rng.randrange(256)]) + stream[i:]
    if k == 6 and len(wires) >= 2:
        i = rng.randrange(len(wires) - 1)
        w = list(wires)
        w[i], w[i + 1] = w[i + 1], w[i]
        return "swap", b"".join(w)
    if k == 7 and len(wires) >= 2:
        i = rng.randrange(len(wires))
        return "drop", b"".join(wires[:i] + wires[i + 1:])
    if k == 8:
        i = rng.randrange(len(wires))
        j = rng.randrange(i, len(wires))
        return "replay", b"".join(wires[:j + 1] + [wires[i]] + wires[j + 1:])
    if k == 9:
        return "truncate", stream[:rng.randrange(len(stream))]
    if k == 10:
        b = bytearray(stream)
        for _ in range(rng.randrange(2, 5)):
            b[rng.randrange(len(b))] = rng.randrange(256)
        return "multi", bytes(b)
    # length field of the first packet (cleartext in ETM / AEAD)
    i = rng.randrange(min(4, len(stream)))
    return "lenfield", stream[:i] + bytes([rng.choice([0, 1, 255, stream[i] ^ 1])]) + stream[i + 1:]


def toy_receive(cfg, seq0, kex, chunks):
    from paramiko.packet import Packetizer
    r = Packetizer(FragSocket(chunks))
    r._initial_kex_done = kex
    r._Packetizer__sequence_number_in = seq0
    install_in(r, cfg)
    # outbound direction of the same object: a different framing mode (never in == out)
    other = gen_cfg(__import__("random").Random(cfg["ckey"] * 1000 + cfg["ak"]),
                    modes=tuple(m for m in (1, 2, 3) if m != cfg["mode"]))
    install_out(r, other)
    got, fin = read_until_stop(r)
    return got, fin, read_after_failure(r, fin)


def toy_tamper_corr(ctx):
    rng = ctx.rng
    n = 1200 if ctx.thorough else 150
    cases, descs = [], []
    for _ in range(n):
        cfg = gen_cfg(rng, modes=(0, 1, 1, 1, 2, 2, 2, 3, 3, 3))
        seq0 = rng.choice([0, 0, 5, rng.randrange(2 ** 32), 2 ** 32 - 1, 2 ** 32 - 2])
        kex = rng.random() < 0.8
        sent, wires = toy_record(rng, cfg, seq0, kex, rng.randrange(1, 5))
        kind, stream = tamper(rng, wires)
        chunks = chunk_like_model(gen_sizes(rng, len(stream)), stream)
        got, fin, after = toy_receive(cfg, seq0, kex, chunks)
        if after and cfg["mode"] != 0 and cfg["msz"] > 0 and not is_prefix(got + after, sent):
            ctx.fail("toy-non-prefix-after-integrity-failure-" + MODE_NAMES[cfg["mode"]],
                     "read_message called again after an integrity failure delivered messages that do not "
                     "continue the sent sequence (toy engines)",
                     case={"cfg": cfg, "seq0": seq0, "kex": kex, "edit": kind, "stream": stream.hex(),
                           "sent": [p.hex() for p in sent]},
                     expected="before + after is a prefix of the sent messages",
                     observed={"before": [g.hex() for g in got], "fin": fin, "after": [g.hex() for g in after]})
        if len(fin) > 2:       # exception class outside the model's vocabulary
            ctx.count(("odd", kind, repr(fin)), nontrivial=False, kind="toy-other-exc-" + str(fin[2]))
            continue
        out = []
        for g in got:
            out += [len(g)] + list(g)
        out += fin
        mname = MODE_NAMES[cfg["mode"]]
        desc = {"cfg": cfg, "seq0": seq0, "kex": kex, "edit": kind, "sent": [p.hex() for p in sent],
                "stream": stream.hex(), "chunks": [len(c) for c in chunks], "impl": out}
        if cfg["mode"] != 0 and cfg["msz"] > 0 and not is_prefix(got, sent):
            ctx.fail("toy-forgery-" + mname, "tampered stream delivered as different data (toy engines)",
                     case=desc, expected="a prefix of the sent messages", observed=[g.hex() for g in got])
        ctx.count(("toytamper", repr(cfg), seq0, kex, stream, [len(c) for c in chunks]),
                  nontrivial=True, kind="toy-%s-%s" % (mname, kind))
        cases.append(("(%s, %s, %s, %s)" % (coq(seq0), coq(kex), coq_cfg(cfg), coq([list(c) for c in chunks])), out))
        descs.append(desc)
    bad = c01.safe_mismatches(ctx, "run_recv", "(Z * bool * tcfg * list (list Z))", cases,
                              imports="From PV Require Import C01 C02.", shard=60)
    for i in bad[:3]:
        ctx.disagree("read_message on a tampered stream differs from the model", case=descs[i], impl=cases[i][1])
    if descs:
        ctx.sample(descs[0])


# --------------------------------------------------------------------------
# real primitives


def real_record(rng, suite, zlib_on, nmsgs):
    from paramiko.packet import Packetizer
    keys = real_keys(rng, suite)
    cap = CaptureSocket()
    s = Packetizer(cap)
    s._initial_kex_done = True
    seq0 = rng.choice([0, 3, 2 ** 32 - 2])
    s._Packetizer__sequence_number_out = seq0
    real_install(s, suite, keys, True, zlib_on)
    payloads = [bytes([rng.randrange(1, 256)]) + rng.randbytes(rng.randrange(0, 40)) for _ in range(nmsgs)]
    wires = []
    for pl in payloads:
        n0 = len(cap.sent)
        s.send_message(mkmsg(pl))
        wires.append(b"".join(cap.sent[n0:]))
    return {"suite": suite, "zlib": zlib_on, "keys": keys, "seq0": seq0, "sent": payloads, "wires": wires}


OTHER_KEYS = {}


def real_receive(rec, chunks):
    from paramiko.packet import Packetizer
    r = Packetizer(FragSocket(chunks))
    r._initial_kex_done = True
    r._Packetizer__sequence_number_in = rec["seq0"]
    real_install(r, rec["suite"], rec["keys"], False, rec["zlib"])
    # the receiver's OUTBOUND direction carries an independently chosen suite of another kind
    kind = suite_kind(rec["suite"])
    other = {"classic": ("aes128-ctr", "hmac-sha2-256-etm@openssh.com"), "etm": ("aes128-ctr", "hmac-sha1"),
             "aead": ("aes256-cbc", "hmac-sha2-512-etm@openssh.com")}[kind]
    if rec["keys"]["key"][0] % 2:
        other = {"classic": ("aes128-gcm@openssh.com", None), "etm": ("aes256-gcm@openssh.com", None),
                 "aead": ("3des-cbc", "hmac-md5")}[kind]
    real_install(r, other, OTHER_KEYS.setdefault(other, real_keys(__import__("random").Random(7), other)), True, False)
    got, fin = read_until_stop(r, limit=len(rec["sent"]) + 4)
    return got, fin, read_after_failure(r, fin)


def read_after_failure(p, fin, tries=6):
    """Fail-stop after detection: once read_message raised an integrity error, later calls must never
    deliver anything (they fail again or run dry).  Returns what was delivered after the first failure."""
    after = []
    if fin[:1] != [-2]:
        return after
    for _ in range(tries):
        more, f2 = read_until_stop(p, limit=4)
        after += more
        if f2 == [-1]:
            break
    return after


def check_real(ctx, rec, stream, edit, chunks=None, max_delivered=None):
    got, fin, after = real_receive(rec, chunks if chunks is not None else [stream])
    kind = suite_kind(rec["suite"])
    if after and not is_prefix(got + after, rec["sent"]):
        # the Packetizer alone is not fail-stop (Transport closes on the exception); but whatever further calls
        # deliver after a failure must still continue the unmodified prefix - never skip, repeat or alter
        ctx.fail("non-prefix-after-integrity-failure-" + kind,
                 "read_message called again after an integrity failure delivered messages that do not continue "
                 "the sent sequence (a rejected packet was skipped over / the receiver resynchronised)",
                 case={"suite": list(rec["suite"]), "zlib": rec["zlib"], "keys": rec["keys"], "seq0": rec["seq0"],
                       "sent": [p.hex() for p in rec["sent"]], "edit": list(edit), "stream": stream.hex()},
                 expected="everything delivered, before and after the failure, is a prefix of the sent messages",
                 observed={"delivered_before": len(got), "fin": fin, "delivered_after": [g.hex()[:80] for g in after]})
        return False
    if max_delivered is not None and is_prefix(got, rec["sent"]) and len(got) > max_delivered:
        # every byte of an encrypted packet (length, ciphertext, padding, tag) is authenticated:
        # a packet with a modified byte must be rejected, not delivered
        ctx.fail("modified-packet-accepted-" + kind, "a packet with a modified byte passed the integrity check",
                 case={"suite": list(rec["suite"]), "zlib": rec["zlib"], "keys": rec["keys"], "seq0": rec["seq0"],
                       "sent": [p.hex() for p in rec["sent"]], "edit": list(edit), "stream": stream.hex(),
                       "max_delivered": max_delivered},
                 expected="at most %d messages delivered, then error" % max_delivered,
                 observed={"delivered": len(got), "fin": fin})
        return False
    ctx.count(("real", rec["suite"], edit, stream), nontrivial=True,
              kind="real-%s-%s" % (kind, edit[0]) + ("" if len(fin) <= 2 else "-exc-" + str(fin[2])))
    if not is_prefix(got, rec["sent"]):
        ctx.fail("forgery-accepted-" + kind, "tampered ciphertext was delivered as data the sender never sent "
                 "(or out of order)",
                 case={"suite": list(rec["suite"]), "zlib": rec["zlib"], "keys": rec["keys"], "seq0": rec["seq0"],
                       "sent": [p.hex() for p in rec["sent"]], "edit": list(edit), "stream": stream.hex()},
                 expected="a prefix of the sent messages, then error or blocked",
                 observed={"delivered": [g.hex() for g in got], "fin": fin})
        return False
    return True


def real_exhaustive(ctx, rec):
    rng = ctx.rng
    wires = rec["wires"]
    stream = b"".join(wires)
    ok = check_real(ctx, rec, stream, ("none", 0))
    # untouched stream must deliver everything (sanity of the recording)
    bounds = []
    for k, w in enumerate(wires):
        bounds += [k] * len(w)
    for i in range(len(stream)):
        b = stream[i]
        variants = [("flip-low", b ^ 1), ("flip-high", b ^ 0x80)] + ([("zero", 0)] if b not in (0, 1, 0x80) else [])
        for name, v in variants:
            ok = check_real(ctx, rec, stream[:i] + bytes([v]) + stream[i + 1:], (name, i),
                            max_delivered=bounds[i]) and ok
        ok = check_real(ctx, rec, stream[:i] + stream[i + 1:], ("delete", i)) and ok
        ok = check_real(ctx, rec, stream[:i] + bytes([rng.randrange(256)]) + stream[i:], ("insert", i)) and ok
        if not ok:
            return
    # packet-level edits
    n = len(wires)
    for i in range(n):
        check_real(ctx, rec, b"".join(wires[:i] + wires[i + 1:]), ("drop", i))
        for j in range(i, n):
            check_real(ctx, rec, b"".join(wires[:j + 1] + [wires[i]] + wires[j + 1:]), ("replay", i, j))
        for j in range(i + 1, n):
            w = list(wires)
            w[i], w[j] = w[j], w[i]
            check_real(ctx, rec, b"".join(w), ("swap", i, j))
    # seeded multi-fault edits, with random fragmentation
    for t in range(60 if ctx.thorough else 25):
        b = bytearray(stream)
        for _ in range(rng.randrange(2, 6)):
            op = rng.randrange(3)
            i = rng.randrange(len(b))
            if op == 0:
                b[i] ^= 1 << rng.randrange(8)
            elif op == 1:
                del b[i]
            else:
                b.insert(i, rng.randrange(256))
        bb = bytes(b)
        chunks = chunk_like_model(gen_sizes(rng, len(bb)), bb)
        check_real(ctx, rec, bb, ("multi", t), chunks)


def real_large(ctx, suite):
    """Large packets (> 32 KiB and > 64 KiB): sampled single-byte faults incl. the last blocks / bytes,
    positions around 32 KiB multiples and the tag."""
    from paramiko.packet import Packetizer
    rng = ctx.rng
    keys = real_keys(rng, suite)
    cap = CaptureSocket()
    s = Packetizer(cap)
    s._initial_kex_done = True
    real_install(s, suite, keys, True, False)
    payloads = [bytes([rng.randrange(1, 256)]) + rng.randbytes(n - 1)
                for n in (rng.randrange(33000, 41000), rng.randrange(66000, 70001), 20)]
    wires = []
    for pl in payloads:
        n0 = len(cap.sent)
        s.send_message(mkmsg(pl))
        wires.append(b"".join(cap.sent[n0:]))
    rec = {"suite": suite, "zlib": False, "keys": keys, "seq0": 0, "sent": payloads, "wires": wires}
    stream = b"".join(wires)
    if not check_real(ctx, rec, stream, ("none", 0)):
        return
    start = 0
    for k, w in enumerate(wires[:2]):
        n = len(w)
        from paramiko.transport import Transport
        msz = 16 if suite[1] is None else Transport._mac_info[suite[1]]["size"]
        pos = set(range(n - msz - 40, n)) | set(range(0, 8))
        for m in (32768, 65536):
            pos |= set(range(m - 8, m + 8))
        pos |= {rng.randrange(n) for _ in range(24 if ctx.thorough else 6)}
        for i in sorted(x for x in pos if 0 <= x < n):
            j = start + i
            v = stream[j] ^ (1 << rng.randrange(8))
            if not check_real(ctx, rec, stream[:j] + bytes([v]) + stream[j + 1:], ("flip-large", j),
                              max_delivered=k):
                return
        start += n


def real_small_grid(ctx):
    """Every payload size 1 .. 2 blocks + 1 x every cipher / MAC family: the packet (incl. those that fit in the
    first cipher block, packets of exactly one and two blocks, ...) is followed by a trailer message; every byte
    of the first packet (sampled for the larger ones in the quick tier) is flipped: nothing may be delivered."""
    from paramiko.packet import Packetizer
    from paramiko.transport import Transport
    rng = ctx.rng
    suites = real_suites()
    if ctx.thorough:
        grid = suites
    else:
        cs = ["aes128-ctr", "aes256-cbc", "3des-cbc"]
        ms = ["hmac-sha1-96", "hmac-sha2-256", "hmac-md5", "hmac-sha2-512-etm@openssh.com", "hmac-sha1",
              "hmac-sha2-256-etm@openssh.com", "hmac-md5-96", "hmac-sha2-512"]
        grid = [(c, ms[(i * 3 + j + ctx.seed) % len(ms)]) for i, c in enumerate(cs) for j in range(3)]
        grid = [g for g in grid if g in suites] + [su for su in suites if su[1] is None][:1]
        # every MAC of the table appears at least once across the cipher families
        seen = {g[1] for g in grid}
        grid += [(cs[k % len(cs)], m) for k, m in enumerate(ms) if m not in seen and (cs[k % len(cs)], m) in suites]
    for suite in grid:
        bs = Transport._cipher_info[suite[0]]["block-size"]
        keys = real_keys(rng, suite)
        for n in range(1, 2 * bs + 2):
            cap = CaptureSocket()
            s = Packetizer(cap)
            s._initial_kex_done = True
            seq0 = rng.choice([0, 7, 2 ** 32 - 1])
            s._Packetizer__sequence_number_out = seq0
            real_install(s, suite, keys, True, False)
            payloads = [bytes([rng.randrange(1, 256)]) + rng.randbytes(n - 1), bytes([rng.randrange(1, 256)]) + b"tr"]
            wires = []
            for pl in payloads:
                n0 = len(cap.sent)
                s.send_message(mkmsg(pl))
                wires.append(b"".join(cap.sent[n0:]))
            rec = {"suite": suite, "zlib": False, "keys": keys, "seq0": seq0, "sent": payloads, "wires": wires}
            stream = b"".join(wires)
            w0 = len(wires[0])
            if ctx.thorough or n <= bs:
                pos = range(w0)
            else:
                pos = sorted({0, 3, 4, 5, bs - 1, bs, w0 - 1} | {rng.randrange(w0) for _ in range(5)})
            if n in (1, bs, 2 * bs + 1) and not check_real(ctx, rec, stream, ("none", n)):
                return
            for i in pos:
                v = stream[i] ^ (1 << rng.randrange(8))
                if not check_real(ctx, rec, stream[:i] + bytes([v]) + stream[i + 1:], ("flip-small", n, i),
                                  max_delivered=0):
                    return


def hmac_oracle(ctx):
    """packet.compute_hmac must be HMAC over the whole message (stdlib reference), any length."""
    import hmac
    from hashlib import md5, sha1, sha256, sha512
    from paramiko import packet
    rng = ctx.rng
    for n in [0, 1, 63, 64, 65, 4096, 32767, 32768, 32769, 40000, 65535, 65536, 65537, 70000, 98304, 98305,
              rng.randrange(1, 140000)]:
        msg = rng.randbytes(n)
        for dg in (md5, sha1, sha256, sha512):
            key = rng.randbytes(dg().digest_size)
            got = packet.compute_hmac(key, msg, dg)
            want = hmac.new(key, msg, dg).digest()
            ctx.count(("hmac", n, dg().name, key), kind="compute-hmac")
            if got != want:
                # find a byte the result does not depend on
                blind = None
                for i in (n - 1, n // 2, n - 40, 32768, 65536):
                    if 0 <= i < n:
                        m2 = msg[:i] + bytes([msg[i] ^ 1]) + msg[i + 1:]
                        if packet.compute_hmac(key, m2, dg) == got:
                            blind = i
                            break
                ctx.fail("compute-hmac-not-over-whole-message",
                         "packet.compute_hmac is not the HMAC of the whole message (bytes left unauthenticated)",
                         case={"len": n, "digest": dg().name, "key": key, "msg_sha256": sha256(msg).hexdigest(),
                               "byte_not_covered": blind},
                         expected=want, observed=got)
                return


def replay_across_epochs(ctx):
    """Real client/server Transports: record the client's first encrypted packets of key epoch 1, re-key, and
    replay them to the server as the first packets of epoch 2 (strict-kex resets the sequence numbers, so
    only fresh keys / IVs protect against this)."""
    rng = ctx.rng
    plans = [(None, None), ("aes128-gcm@openssh.com", None), ("aes256-cbc", "hmac-sha2-512-etm@openssh.com")]
    if ctx.thorough:
        plans += [("aes256-ctr", "hmac-sha1"), ("aes256-gcm@openssh.com", None), ("3des-cbc", "hmac-md5")]
    for ci, ma in plans:
        res = c01.transport_session(ctx, "none", ci, ma, replay_across_epochs=True)
        if res["error"] is not None or "replayed" not in res:
            res = c01.transport_session(ctx, "none", ci, ma, replay_across_epochs=True)   # retry once
        ctx.count(("epoch-replay", ci, ma, res.get("replayed", {}).get("bytes")), kind="epoch-replay")
        if "replayed" not in res:
            ctx.notes.append("epoch replay not performed for %s/%s: %s" % (ci, ma, res["error"]))
            continue
        delivered = res["server_delivered_after_replay"]
        i = c01.first_deviation(res["s_recv"], res["c_sent"])
        if delivered or i is not None:
            ctx.fail("replay-across-epochs-accepted",
                     "ciphertext recorded in key epoch 1 was accepted when replayed at the start of epoch 2 "
                     "(keys / IVs not fresh after re-key)",
                     case={"cipher": ci, "mac": ma, "replayed": res["replayed"], "steps": res["steps"]},
                     expected="MAC / tag failure, nothing delivered",
                     observed={"delivered": delivered, "server_still_active": res["server_active_after_replay"]})


def real_search(ctx):
    rng = ctx.rng
    suites = real_suites()
    if ctx.thorough:
        chosen = suites
    else:
        classic = [s for s in suites if suite_kind(s) == "classic"]
        etm = [s for s in suites if suite_kind(s) == "etm"]
        aead = [s for s in suites if suite_kind(s) == "aead"]
        chosen = [classic[(ctx.seed * 7 + 3) % len(classic)], etm[ctx.seed % len(etm)], aead[ctx.seed % len(aead)]]
        extra = classic[(ctx.seed * 11 + 5) % len(classic)]
        if extra not in chosen:
            chosen.append(extra)
    for si, suite in enumerate(chosen):
        zlib_on = ctx.thorough and si % 5 == 4
        rec = real_record(rng, suite, zlib_on, rng.randrange(4, 7) if ctx.thorough else 4)
        real_exhaustive(ctx, rec)
    # large packets: one classic, one ETM, one AEAD suite (all CTR/CBC x MAC suites in the thorough tier)
    large = chosen if ctx.thorough else chosen[:3]
    for suite in large:
        real_large(ctx, suite)
    ctx.notes.append("exhaustive single-byte faults on suites: %s" % [list(s) for s in chosen])


def run(ctx):
    from paramiko import util
    rng = ctx.rng
    ctx.rule = ("seeded generator (random.Random('C02-<seed>')): toy receivers on recorded toy streams with one "
                "random edit (flip/delete/insert/swap/drop/replay/truncate/multi/length-field) and random "
                "fragmentation; compute_hmac vs stdlib HMAC on lengths around 32 KiB multiples; large packets (33-41 KB, "
                "66-70 KB) with faults sampled at the last 40 bytes before the tag, the tag, the first 8, around 32768/65536 and random; real "
                "suites (quick: 3-4 rotating by seed incl. classic, ETM, GCM; thorough: all "
                "cipher x MAC): streams of 4-6 messages, every byte position x {flip low, flip high, zero, delete, "
                "insert}, all packet drops/replays/swaps, seeded multi-fault edits; every case distinct")
    ctx.trusted += ["model coq/Model/C01.v (shared with C01) is hand-written; tied to paramiko/packet.py by the "
                    "differential run on tampered toy streams and by the C02_source_* theorems over "
                    "coq/Gen/C02_gen.v (translator gen/c02.py, fail closed)",
                    "HMAC / AES-GCM unforgeability is a symbolic premise; real primitives covered by the "
                    "exhaustive single-fault enumeration only"]
    ctx.assumptions += ["symbolic MAC/AEAD premise: an accepted tag was produced by the key owner for exactly these "
                        "bytes", "fewer than 2^32 packets under one key (rekeying, C10)"]
    ctx.prove()

    toy_tamper_corr(ctx)

    # constant_time_bytes_eq(a, b) == (a == b)
    for a, b in c01.cteq_cases(rng, 2000):
        ctx.count(("cteq", a, b), nontrivial=len(a) > 0, kind="cteq")
        if util.constant_time_bytes_eq(a, b) != (a == b):
            ctx.fail("cteq-wrong", "constant_time_bytes_eq(a, b) differs from a == b", case={"a": a, "b": b},
                     expected=(a == b), observed=util.constant_time_bytes_eq(a, b))

    hmac_oracle(ctx)
    replay_across_epochs(ctx)
    real_small_grid(ctx)
    real_search(ctx)
    ctx.exhaustive = False


def replay(ctx, rep):
    case = rep.get("case") or {}
    if "stream" in case and "suite" in case and "keys" in case:
        k = case["keys"]
        rec = {"suite": tuple(case["suite"]), "zlib": case["zlib"], "seq0": case["seq0"],
               "keys": {n: bytes.fromhex(k[n]["hex"]) for n in k},
               "sent": [bytes.fromhex(x) for x in case["sent"]], "wires": []}
        check_real(ctx, rec, bytes.fromhex(case["stream"]), tuple(case["edit"]),
                   max_delivered=case.get("max_delivered"))
        ctx.count(("replay",), kind="replay")
    else:
        run(ctx)
