(* C42 — proofs.  Part 1: list lemmas.  Part 2: the read paths of BufferedFile over ANY stream
   satisfying a prefix-reader contract (reused by C27).  Part 3: the channel-like stream:
   op sequences, write completeness, line buffering. *)
From PV Require Import Bytes C42.
From Coq Require Import Lia ZifyBool.
Open Scope Z_scope.

(* ---------------------------------------------------------------- lists -- *)
Lemma is_nil_true d : is_nil d = true <-> d = [].
Proof. destruct d; cbn; split; congruence. Qed.
Lemma is_nil_false d : is_nil d = false <-> d <> [].
Proof. destruct d; cbn; split; congruence. Qed.

Lemma zlen_nonneg l : 0 <= zlen l.
Proof. unfold zlen. lia. Qed.
Lemma zlen_app a b : zlen (a ++ b) = zlen a + zlen b.
Proof. unfold zlen. rewrite app_length. lia. Qed.
Lemma zlen_nil : zlen [] = 0.
Proof. reflexivity. Qed.
Lemma zlen_zero l : zlen l = 0 -> l = [].
Proof. destruct l; cbn; [reflexivity|]. unfold zlen. cbn. lia. Qed.
Lemma zlen_pos l : l <> [] -> 0 < zlen l.
Proof. destruct l; [congruence|]. unfold zlen. cbn. lia. Qed.

Lemma take_firstn n l : take n l = firstn (Z.to_nat n) l.
Proof.
  unfold take, zlen. destruct (Z_le_gt_dec n (Z.of_nat (length l))).
  - rewrite Z.min_l by lia. reflexivity.
  - rewrite Z.min_r by lia. rewrite Nat2Z.id, firstn_all. symmetry. apply firstn_all2. lia.
Qed.
Lemma drop_skipn n l : drop n l = skipn (Z.to_nat n) l.
Proof.
  unfold drop, zlen. destruct (Z_le_gt_dec n (Z.of_nat (length l))).
  - rewrite Z.min_l by lia. reflexivity.
  - rewrite Z.min_r by lia. rewrite Nat2Z.id, skipn_all. symmetry. apply skipn_all2. lia.
Qed.
Lemma take_drop n l : take n l ++ drop n l = l.
Proof. rewrite take_firstn, drop_skipn. apply firstn_skipn. Qed.
Lemma zlen_take n l : 0 <= n -> zlen (take n l) = Z.min n (zlen l).
Proof. intros. rewrite take_firstn. unfold zlen. rewrite firstn_length. lia. Qed.
Lemma zlen_drop n l : 0 <= n -> zlen (drop n l) = zlen l - Z.min n (zlen l).
Proof. intros. rewrite drop_skipn. unfold zlen. rewrite skipn_length. lia. Qed.
Lemma take_all n l : zlen l <= n -> take n l = l.
Proof. unfold zlen. intros. rewrite take_firstn. apply firstn_all2. lia. Qed.
Lemma drop_all n l : zlen l <= n -> drop n l = [].
Proof. unfold zlen. intros. rewrite drop_skipn. apply skipn_all2. lia. Qed.
Lemma take_neg n l : n <= 0 -> take n l = [].
Proof. intros. rewrite take_firstn. replace (Z.to_nat n) with O by lia. reflexivity. Qed.
Lemma drop_neg n l : n <= 0 -> drop n l = l.
Proof. intros. rewrite drop_skipn. replace (Z.to_nat n) with O by lia. reflexivity. Qed.
Lemma take_app_le n a b : n <= zlen a -> take n (a ++ b) = take n a.
Proof.
  unfold zlen. intros. rewrite !take_firstn, firstn_app.
  replace (Z.to_nat n - length a)%nat with O by lia. cbn. apply app_nil_r.
Qed.
Lemma drop_app_le n a b : n <= zlen a -> drop n (a ++ b) = drop n a ++ b.
Proof.
  unfold zlen. intros. rewrite !drop_skipn, skipn_app.
  replace (Z.to_nat n - length a)%nat with O by lia. reflexivity.
Qed.
Lemma take_app_ge n a b : zlen a <= n -> take n (a ++ b) = a ++ take (n - zlen a) b.
Proof.
  unfold zlen. intros. rewrite !take_firstn, firstn_app.
  rewrite (firstn_all2 a) by lia. f_equal. f_equal. lia.
Qed.
Lemma drop_app_ge n a b : zlen a <= n -> drop n (a ++ b) = drop (n - zlen a) b.
Proof.
  unfold zlen. intros. rewrite !drop_skipn, skipn_app.
  rewrite (skipn_all2 a) by lia. cbn. f_equal. lia.
Qed.
Lemma app_take_inv res l l' : l = res ++ l' -> res = take (zlen res) l /\ l' = drop (zlen res) l.
Proof.
  intros ->. split.
  - rewrite take_app_le by lia. symmetry. apply take_all. lia.
  - rewrite drop_app_ge by lia. rewrite drop_neg by lia. reflexivity.
Qed.

(* bytes.find *)
Lemma index_of_app_some c a b i : index_of c a = Some i -> index_of c (a ++ b) = Some i.
Proof.
  revert i. induction a as [|x a IH]; intros i H; cbn in *; [discriminate|].
  destruct (x =? c); [exact H|].
  destruct (index_of c a) as [j|] eqn:E; cbn in H; [|discriminate].
  rewrite (IH j eq_refl). exact H.
Qed.
Lemma index_of_bound c l i : index_of c l = Some i -> (i < length l)%nat.
Proof.
  revert i. induction l as [|x l IH]; intros i H; cbn in *; [discriminate|].
  destruct (x =? c); [injection H as <-; lia|].
  destruct (index_of c l) as [j|] eqn:E; cbn in H; [|discriminate].
  injection H as <-. specialize (IH j eq_refl). lia.
Qed.
Lemma index_of_split c l i : index_of c l = Some i -> firstn (S i) l = firstn i l ++ [c].
Proof.
  revert i. induction l as [|x l IH]; intros i H; cbn in H; [discriminate|].
  destruct (x =? c) eqn:E.
  - injection H as <-. cbn. f_equal. lia.
  - destruct (index_of c l) as [j|] eqn:E2; cbn in H; [|discriminate].
    injection H as <-. specialize (IH j eq_refl).
    change (firstn (S (S j)) (x :: l)) with (x :: firstn (S j) l). rewrite IH. reflexivity.
Qed.
(* no occurrence strictly before the index found *)
Lemma index_of_first c l i : index_of c l = Some i -> index_of c (firstn i l) = None.
Proof.
  revert i. induction l as [|x l IH]; intros i H; cbn in H; [discriminate|].
  destruct (x =? c) eqn:E.
  - injection H as <-. reflexivity.
  - destruct (index_of c l) as [j|] eqn:E2; cbn in H; [|discriminate].
    injection H as <-. cbn. rewrite E. rewrite (IH j eq_refl). reflexivity.
Qed.
Lemma index_of_none_in c l : index_of c l = None -> ~ In c l.
Proof.
  induction l as [|x l IH]; cbn; intros H; [tauto|].
  destruct (x =? c) eqn:E; [discriminate|].
  destruct (index_of c l) eqn:E2; cbn in H; [discriminate|].
  intros [->|Hin]; [rewrite Z.eqb_refl in E; discriminate|]. now apply IH.
Qed.
Lemma index_of_some_in c l i : index_of c l = Some i -> In c l.
Proof.
  revert i. induction l as [|x l IH]; intros i H; cbn in H; [discriminate|].
  destruct (x =? c) eqn:E; [left; lia|].
  destruct (index_of c l) as [j|] eqn:E2; cbn in H; [|discriminate]. right. eapply IH. reflexivity.
Qed.

Lemma has_lf_true l : has_lf l = true -> exists i, index_of LF l = Some i.
Proof. unfold has_lf. destruct (index_of LF l); [eauto|discriminate]. Qed.
Lemma has_lf_false l : has_lf l = false -> index_of LF l = None.
Proof. unfold has_lf. destruct (index_of LF l); [discriminate|reflexivity]. Qed.

Lemma upto_lf_app_some a b i : index_of LF a = Some i -> upto_lf (a ++ b) = upto_lf a.
Proof.
  intros H. unfold upto_lf. rewrite (index_of_app_some _ _ b _ H), H.
  pose proof (index_of_bound _ _ _ H). rewrite firstn_app.
  replace (S i - length a)%nat with O by lia. cbn. apply app_nil_r.
Qed.
Lemma upto_lf_none l : index_of LF l = None -> upto_lf l = l.
Proof. unfold upto_lf. now intros ->. Qed.
Lemma upto_lf_some l i : index_of LF l = Some i -> upto_lf l = firstn i l ++ [LF].
Proof. unfold upto_lf. intros H. rewrite H. now apply index_of_split. Qed.

(* ------------------------------------------------ generic read paths -- *)
Definition same_cfg {S} (f f' : bf S) : Prop :=
  wbuf f' = wbuf f /\ fsize f' = fsize f /\ fl_read f' = fl_read f /\ fl_write f' = fl_write f /\
  fl_append f' = fl_append f /\ fl_buffered f' = fl_buffered f /\ fl_linebuf f' = fl_linebuf f /\
  bufsize f' = bufsize f /\ closed f' = closed f.
Lemma same_cfg_refl {S} (f : bf S) : same_cfg f f.
Proof. unfold same_cfg. tauto. Qed.
Lemma same_cfg_trans {S} (a b c : bf S) : same_cfg a b -> same_cfg b c -> same_cfg a c.
Proof. unfold same_cfg. intuition congruence. Qed.
Lemma same_cfg_upd {S} (f : bf S) rb ps rp s : same_cfg f (upd_rd f rb ps rp s).
Proof. unfold same_cfg. cbn. tauto. Qed.

Section Generic.
  Variable S : Type.
  Variable sread : S -> Z -> Z -> list Z * S.
  (* Rem s rp: the bytes a reader positioned at rp still has to receive from s *)
  Variable Rem : S -> Z -> list Z.
  Variable SInv : S -> Z -> Prop.
  Hypothesis sread_spec : forall s rp n d s',
      SInv s rp -> 0 < n -> sread s rp n = (d, s') ->
      Rem s rp = d ++ Rem s' (rp + zlen d) /\ zlen d <= n /\ (d = [] -> Rem s rp = []) /\
      SInv s' (rp + zlen d).

  Notation bfs := (bf S).
  Definition RemOf (f : bfs) : list Z := Rem (strm f) (realpos f).
  Definition L (f : bfs) : list Z := rbuf f ++ RemOf f.
  Definition inv (f : bfs) : Prop := SInv (strm f) (realpos f).
  Definition fuel_ok (fuel : nat) (f : bfs) : Prop := (length (RemOf f) < fuel)%nat.

  (* what every successful read call guarantees *)
  Definition post (f f' : bfs) (res : list Z) : Prop :=
    L f = res ++ L f' /\ inv f' /\ same_cfg f f' /\ pos f' = pos f + zlen res /\
    realpos f' + zlen (RemOf f') = realpos f + zlen (RemOf f).

  Lemma sread_nil s rp n s' : SInv s rp -> 0 < n -> sread s rp n = ([], s') ->
    Rem s rp = [] /\ Rem s' rp = [] /\ SInv s' rp.
  Proof.
    intros Hi Hn E. destruct (sread_spec _ _ _ _ _ Hi Hn E) as (H1 & _ & H3 & H4).
    rewrite zlen_nil, Z.add_0_r in *. cbn in H1. split; [now apply H3|]. split; [|exact H4].
    rewrite <- H1. now apply H3.
  Qed.

  Lemma fill_loop_spec fuel : forall size f,
    inv f -> fuel_ok fuel f -> 0 < bufsize f ->
    exists f', fill_loop sread fuel size f = Some f' /\
      L f' = L f /\ inv f' /\ same_cfg f f' /\ pos f' = pos f /\
      realpos f' + zlen (RemOf f') = realpos f + zlen (RemOf f) /\
      (zlen (rbuf f') < size -> RemOf f' = []).
  Proof.
    induction fuel as [|k IH]; intros size f Hi Hf Hb.
    - unfold fuel_ok in Hf. lia.
    - cbn [fill_loop]. destruct (size <=? zlen (rbuf f)) eqn:E.
      + exists f. repeat split; try reflexivity; try exact Hi; try apply same_cfg_refl. lia.
      + set (rs := if fl_buffered f then Z.max (bufsize f) (size - zlen (rbuf f)) else size - zlen (rbuf f)).
        assert (Hrs : 0 < rs) by (unfold rs; destruct (fl_buffered f); lia).
        destruct (sread (strm f) (realpos f) rs) as [d s'] eqn:Er.
        destruct (is_nil d) eqn:En.
        * apply is_nil_true in En. subst d.
          destruct (sread_nil _ _ _ _ Hi Hrs Er) as (R1 & R2 & R3).
          eexists. split; [reflexivity|].
          unfold L, RemOf, inv. cbn. rewrite R2. fold (RemOf f). unfold RemOf. rewrite R1.
          repeat split; try reflexivity; try exact R3. apply same_cfg_upd.
        * apply is_nil_false in En.
          destruct (sread_spec _ _ _ _ _ Hi Hrs Er) as (H1 & H2 & H3 & H4).
          set (f1 := upd_rd f (rbuf f ++ d) (pos f) (realpos f + zlen d) s').
          assert (Hf1 : fuel_ok k f1).
          { unfold fuel_ok, RemOf in *. cbn. rewrite H1 in Hf. rewrite app_length in Hf.
            pose proof (zlen_pos _ En). unfold zlen in *. lia. }
          destruct (IH size f1 H4 Hf1 Hb) as (f' & E1 & E2 & E3 & E4 & E5 & E6 & E7).
          exists f'. split; [exact E1|]. split.
          { rewrite E2. unfold L, RemOf. cbn. rewrite H1. now rewrite app_assoc. }
          split; [exact E3|]. split; [eapply same_cfg_trans; [apply same_cfg_upd|exact E4]|].
          split; [exact E5|]. split; [|exact E7].
          rewrite E6. unfold RemOf. cbn. rewrite H1, zlen_app. lia.
  Qed.

  Lemma read_all_loop_spec fuel : forall res f,
    inv f -> fuel_ok fuel f ->
    exists f', read_all_loop sread fuel res f = Some (res ++ RemOf f, f') /\
      RemOf f' = [] /\ rbuf f' = rbuf f /\ inv f' /\ same_cfg f f' /\
      pos f' = pos f + zlen (RemOf f) /\ realpos f' = realpos f + zlen (RemOf f).
  Proof.
    induction fuel as [|k IH]; intros res f Hi Hf.
    - unfold fuel_ok in Hf. lia.
    - cbn [read_all_loop].
      assert (Hn : 0 < DEFAULT_BUFSIZE) by (unfold DEFAULT_BUFSIZE; lia).
      destruct (sread (strm f) (realpos f) DEFAULT_BUFSIZE) as [d s'] eqn:Er.
      destruct (is_nil d) eqn:En.
      + apply is_nil_true in En. subst d.
        destruct (sread_nil _ _ _ _ Hi Hn Er) as (R1 & R2 & R3).
        eexists. split.
        { unfold RemOf. rewrite R1, app_nil_r. reflexivity. }
        unfold RemOf, inv. cbn. rewrite R1, R2. cbn.
        repeat split; try reflexivity; try exact R3; try lia. apply same_cfg_upd.
      + apply is_nil_false in En.
        destruct (sread_spec _ _ _ _ _ Hi Hn Er) as (H1 & H2 & H3 & H4).
        set (f1 := upd_rd f (rbuf f) (pos f + zlen d) (realpos f + zlen d) s').
        assert (Hf1 : fuel_ok k f1).
        { unfold fuel_ok, RemOf in *. cbn. rewrite H1 in Hf. rewrite app_length in Hf.
          pose proof (zlen_pos _ En). unfold zlen in *. lia. }
        destruct (IH (res ++ d) f1 H4 Hf1) as (f' & E1 & E2 & E3 & E4 & E5 & E6 & E7).
        exists f'. split.
        { rewrite E1. unfold RemOf at 2. rewrite H1. unfold RemOf. cbn. now rewrite app_assoc. }
        split; [exact E2|]. split; [exact E3|]. split; [exact E4|].
        split; [eapply same_cfg_trans; [apply same_cfg_upd|exact E5]|].
        unfold RemOf in *. cbn in E6, E7. rewrite H1, zlen_app. lia.
  Qed.

  (* ---- read(n), read() ---- *)
  Lemma read_n_spec fuel f n :
    inv f -> fuel_ok fuel f -> 0 < bufsize f -> closed f = false -> fl_read f = true -> 0 <= n ->
    exists f', bf_read sread fuel f (Some n) = (Ok (take n (L f)), f') /\ post f f' (take n (L f)).
  Proof.
    intros Hi Hf Hb Hc Hr Hn. unfold bf_read. rewrite Hc, Hr. cbn [negb].
    replace (n <? 0) with false by lia.
    destruct (n <=? zlen (rbuf f)) eqn:E.
    - eexists. split.
      { unfold L. rewrite take_app_le by lia. reflexivity. }
      unfold post, L, RemOf, inv. cbn. rewrite take_app_le by lia.
      rewrite app_assoc, take_drop. repeat split; try reflexivity; try exact Hi. apply same_cfg_upd.
    - destruct (fill_loop_spec fuel n f Hi Hf Hb) as (f1 & E1 & E2 & E3 & E4 & E5 & E6 & E7).
      rewrite E1.
      assert (Ht : take n (rbuf f1) = take n (L f)).
      { rewrite <- E2. unfold L. destruct (Z_lt_ge_dec (zlen (rbuf f1)) n) as [Hlt|Hge].
        - rewrite (E7 Hlt), app_nil_r. reflexivity.
        - rewrite take_app_le by lia. reflexivity. }
      eexists. split; [rewrite Ht; reflexivity|].
      unfold post. rewrite <- Ht. unfold L at 2, RemOf, inv. cbn.
      rewrite app_assoc, take_drop. fold (RemOf f1). fold (L f1).
      split; [now rewrite E2|]. split; [exact E3|].
      split; [eapply same_cfg_trans; [exact E4|apply same_cfg_upd]|].
      split; [rewrite E5; reflexivity|]. exact E6.
  Qed.

  Lemma read_all_spec fuel f size :
    inv f -> fuel_ok fuel f -> closed f = false -> fl_read f = true ->
    match size with None => True | Some n => n < 0 end ->
    exists f', bf_read sread fuel f size = (Ok (L f), f') /\ post f f' (L f) /\ L f' = [].
  Proof.
    intros Hi Hf Hc Hr Hs. unfold bf_read. rewrite Hc, Hr. cbn [negb].
    replace (match size with None => true | Some n => n <? 0 end) with true
      by (destruct size; [symmetry; lia|reflexivity]).
    set (f0 := upd_rd f [] (pos f + zlen (rbuf f)) (realpos f) (strm f)).
    assert (Hi0 : inv f0) by exact Hi.
    assert (Hf0 : fuel_ok fuel f0) by exact Hf.
    destruct (read_all_loop_spec fuel (rbuf f) f0 Hi0 Hf0) as (f' & E1 & E2 & E3 & E4 & E5 & E6 & E7).
    rewrite E1. exists f'. split; [reflexivity|].
    assert (HL : L f' = []) by (unfold L; rewrite E2, E3; reflexivity).
    split; [|exact HL]. unfold post. rewrite HL, app_nil_r.
    split; [reflexivity|]. split; [exact E4|].
    split; [eapply same_cfg_trans; [apply same_cfg_upd|exact E5]|].
    change (RemOf f0) with (RemOf f) in *. cbn in E6, E7.
    unfold L. rewrite zlen_app, E2, zlen_nil. lia.
  Qed.

  (* ---- readline ---- *)
  Definition szof (size : option Z) : Z := match size with Some s => s | None => 0 end.

  Lemma rl_loop_spec fuel : forall size line f,
    inv f -> fuel_ok fuel f -> 0 < bufsize f ->
    match rl_loop sread fuel size line f with
    | RLFuel => False
    | RLEof line' f' =>
        line' = line ++ RemOf f /\ RemOf f' = [] /\ has_lf line' = false /\
        (sized size = true -> zlen line' < szof size) /\
        inv f' /\ same_cfg f f' /\ pos f' = pos f /\
        realpos f' + zlen (RemOf f') = realpos f + zlen (RemOf f)
    | RLBreak line' true f' =>
        sized size = true /\
        exists full, full ++ RemOf f' = line ++ RemOf f /\ szof size <= zlen full /\
          line' = take (szof size) full /\ rbuf f' = drop (szof size) full /\
          inv f' /\ same_cfg f f' /\ pos f' = pos f /\
          realpos f' + zlen (RemOf f') = realpos f + zlen (RemOf f)
    | RLBreak line' false f' =>
        line' ++ RemOf f' = line ++ RemOf f /\ has_lf line' = true /\
        (sized size = true -> zlen line' < szof size) /\
        inv f' /\ same_cfg f f' /\ pos f' = pos f /\
        realpos f' + zlen (RemOf f') = realpos f + zlen (RemOf f)
    end.
  Proof.
    induction fuel as [|k IH]; intros size line f Hi Hf Hb.
    - unfold fuel_ok in Hf. lia.
    - cbn [rl_loop]. fold (sized size). fold (szof size).
      destruct (sized size && (szof size <=? zlen line)) eqn:E.
      + apply andb_true_iff in E as [E1 E2].
        split; [exact E1|]. exists line. unfold RemOf, inv. cbn.
        repeat split; try reflexivity; try exact Hi; try lia. apply same_cfg_upd.
      + destruct (has_lf line) eqn:Hl.
        * repeat split; try reflexivity; try exact Hi; try apply same_cfg_refl; try exact Hl.
          intros Hs. rewrite Hs in E. cbn in E. lia.
        * set (n := if sized size then szof size - zlen line else bufsize f).
          assert (Hn : 0 < n).
          { unfold n. destruct (sized size); [cbn in E; lia|lia]. }
          destruct (sread (strm f) (realpos f) n) as [d s'] eqn:Er.
          destruct (is_nil d) eqn:En.
          -- apply is_nil_true in En. subst d.
             destruct (sread_nil _ _ _ _ Hi Hn Er) as (R1 & R2 & R3).
             unfold RemOf, inv. cbn. rewrite R1, R2, app_nil_r.
             repeat split; try reflexivity; try exact R3; try exact Hl; try apply same_cfg_upd.
             intros Hs. rewrite Hs in E. cbn in E. lia.
          -- apply is_nil_false in En.
             destruct (sread_spec _ _ _ _ _ Hi Hn Er) as (H1 & H2 & H3 & H4).
             set (f1 := upd_rd f (rbuf f) (pos f) (realpos f + zlen d) s').
             assert (Hf1 : fuel_ok k f1).
             { unfold fuel_ok, RemOf in *. cbn. rewrite H1 in Hf. rewrite app_length in Hf.
               pose proof (zlen_pos _ En). unfold zlen in *. lia. }
             assert (HR : RemOf f = d ++ RemOf f1) by exact H1.
             specialize (IH size (line ++ d) f1 H4 Hf1 Hb).
             assert (Hz : realpos f1 + zlen (RemOf f1) = realpos f + zlen (RemOf f)).
             { rewrite HR, zlen_app. cbn. lia. }
             destruct (rl_loop sread k size (line ++ d) f1) as [l' f'|l' [|] f'|].
             ++ destruct IH as (A1 & A2 & A3 & A4 & A5 & A6 & A7 & A8).
                rewrite HR, app_assoc.
                repeat split; try assumption.
                ** eapply same_cfg_trans; [apply same_cfg_upd|exact A6].
                ** rewrite A8. rewrite <- HR. exact Hz.
             ++ destruct IH as (A0 & full & A1 & A2 & A3 & A4 & A5 & A6 & A7 & A8).
                split; [exact A0|]. exists full. rewrite HR, app_assoc.
                repeat split; try assumption.
                ** eapply same_cfg_trans; [apply same_cfg_upd|exact A6].
                ** rewrite A8. rewrite <- HR. exact Hz.
             ++ destruct IH as (A1 & A2 & A3 & A5 & A6 & A7 & A8).
                rewrite HR, app_assoc.
                repeat split; try assumption.
                ** eapply same_cfg_trans; [apply same_cfg_upd|exact A6].
                ** rewrite A8. rewrite <- HR. exact Hz.
             ++ exact IH.
  Qed.

  Lemma take_succ_index p line : index_of LF line = Some p ->
    (take (Z.of_nat p) line ++ [LF]) ++ drop (Z.of_nat p + 1) line = line.
  Proof.
    intros H. rewrite take_firstn, drop_skipn, Nat2Z.id.
    replace (Z.to_nat (Z.of_nat p + 1)) with (Datatypes.S p) by lia.
    rewrite <- (index_of_split _ _ _ H). apply firstn_skipn.
  Qed.

  Lemma readline_spec fuel f size :
    inv f -> fuel_ok fuel f -> 0 < bufsize f -> closed f = false -> fl_read f = true ->
    exists f', bf_readline sread fuel f size = (Ok (line_spec size (L f)), f') /\
               post f f' (line_spec size (L f)).
  Proof.
    intros Hi Hf Hb Hc Hr. unfold bf_readline. rewrite Hc, Hr. cbn [negb].
    pose proof (rl_loop_spec fuel size (rbuf f) f Hi Hf Hb) as H.
    fold (L f) in H.
    assert (Hspec : line_spec size (L f) =
                    if sized size then upto_lf (take (szof size) (L f)) else upto_lf (L f)).
    { unfold line_spec, sized, szof. destruct size; reflexivity. }
    destruct (rl_loop sread fuel size (rbuf f) f) as [l' f1|l' [|] f1|].
    - (* EOF *)
      destruct H as (A1 & A2 & A3 & A4 & A5 & A6 & A7 & A8).
      assert (El : line_spec size (L f) = l').
      { rewrite Hspec, <- A1. destruct (sized size) eqn:Es.
        - rewrite take_all by (specialize (A4 eq_refl); lia). apply upto_lf_none. now apply has_lf_false.
        - apply upto_lf_none. now apply has_lf_false. }
      rewrite El. eexists. split; [reflexivity|].
      unfold post, L, RemOf, inv. cbn. fold (RemOf f1). rewrite A2, app_nil_r.
      split; [exact A1|]. split; [exact A5|].
      split; [eapply same_cfg_trans; [exact A6|apply same_cfg_upd]|].
      split; [rewrite A7; reflexivity|]. rewrite <- A8, A2. reflexivity.
    - (* truncated break *)
      destruct H as (Es & full & A1 & A2 & A3 & A4 & A5 & A6 & A7 & A8).
      assert (Ht : take (szof size) (L f) = l').
      { rewrite <- A1, take_app_le by lia. now rewrite A3. }
      rewrite Hspec, Es, Ht.
      assert (Hfull : l' ++ rbuf f1 = full) by (rewrite A3, A4; apply take_drop).
      destruct (index_of LF l') as [p|] eqn:Ep.
      + rewrite (upto_lf_some _ _ Ep).
        replace (firstn p l') with (take (Z.of_nat p) l') by (rewrite take_firstn, Nat2Z.id; reflexivity).
        eexists. split; [reflexivity|].
        unfold post, L, RemOf, inv. cbn. fold (RemOf f1).
        split.
        { rewrite <- A1, <- Hfull. rewrite <- (take_succ_index _ _ Ep) at 1.
          now rewrite <- !app_assoc. }
        split; [exact A5|]. split; [eapply same_cfg_trans; [exact A6|apply same_cfg_upd]|].
        split; [rewrite A7; reflexivity|exact A8].
      + rewrite (upto_lf_none _ Ep). eexists. split; [reflexivity|].
        unfold post, L, RemOf, inv. cbn. fold (RemOf f1).
        split; [rewrite <- A1, <- Hfull; now rewrite app_assoc|].
        split; [exact A5|]. split; [eapply same_cfg_trans; [exact A6|apply same_cfg_upd]|].
        split; [rewrite A7; reflexivity|exact A8].
    - (* newline found *)
      destruct H as (A1 & A2 & A4 & A5 & A6 & A7 & A8).
      destruct (has_lf_true _ A2) as (p & Ep). rewrite Ep.
      assert (El : line_spec size (L f) = take (Z.of_nat p) l' ++ [LF]).
      { rewrite Hspec, <- A1. destruct (sized size) eqn:Es.
        - rewrite take_app_ge by (specialize (A4 eq_refl); lia).
          rewrite (upto_lf_app_some _ _ _ Ep), (upto_lf_some _ _ Ep).
          now rewrite take_firstn, Nat2Z.id.
        - rewrite (upto_lf_app_some _ _ _ Ep), (upto_lf_some _ _ Ep).
          now rewrite take_firstn, Nat2Z.id. }
      rewrite El. eexists. split; [reflexivity|].
      unfold post, L, RemOf, inv. cbn. fold (RemOf f1).
      split.
      { rewrite <- A1. rewrite <- (take_succ_index _ _ Ep) at 1. now rewrite <- !app_assoc. }
      split; [exact A5|]. split; [eapply same_cfg_trans; [exact A6|apply same_cfg_upd]|].
      split; [rewrite A7; reflexivity|exact A8].
    - contradiction.
  Qed.
End Generic.
