(* C43 -- lemmas about the model in Model/C43.v *)
From Coq Require Import ZArith List Bool Lia ZifyBool.
From PV Require Import Bytes C43_gen C43.
Import ListNotations.
Open Scope Z_scope.

(* ---- sorted() ------------------------------------------------------------ *)
Lemma In_insert a x l : In a (insert x l) <-> a = x \/ In a l.
Proof.
  induction l as [|y r IH]; cbn.
  - intuition.
  - destruct (x <=? y); cbn; rewrite ?IH; intuition.
Qed.

Lemma In_sort a l : In a (sort l) <-> In a l.
Proof.
  induction l as [|x r IH]; cbn; [tauto|]. rewrite In_insert, IH. intuition.
Qed.

Inductive sorted : list Z -> Prop :=
  | s_nil : sorted []
  | s_cons x l : sorted l -> (forall y, In y l -> x <= y) -> sorted (x :: l).

Lemma insert_sorted x l : sorted l -> sorted (insert x l).
Proof.
  induction 1 as [|y l Hs IH Hy]; cbn.
  - constructor; [constructor | intros ? []].
  - destruct (x <=? y) eqn:E.
    + constructor.
      * constructor; auto.
      * intros z [<-|Hz]; [lia | specialize (Hy z Hz); lia].
    + constructor; auto. intros z Hz. apply In_insert in Hz as [->|Hz]; [lia | auto].
Qed.

Lemma sort_sorted l : sorted (sort l).
Proof. induction l as [|x r IH]; cbn; [constructor | now apply insert_sorted]. Qed.

Lemma sorted_hd l : sorted l -> forall y, In y l -> hd 0 l <= y.
Proof.
  destruct 1 as [|x l Hs Hx]; intros y Hy; [destruct Hy|].
  cbn. destruct Hy as [<-|Hy]; [lia | auto].
Qed.

Lemma sorted_last l : sorted l -> forall y, In y l -> y <= last l 0.
Proof.
  induction 1 as [|x l Hs IH Hx]; intros y Hy; [destruct Hy|].
  destruct l as [|z t].
  - cbn. destruct Hy as [<-|[]]. lia.
  - change (last (x :: z :: t) 0) with (last (z :: t) 0).
    destruct Hy as [<-|Hy]; [|auto].
    specialize (Hx z (or_introl eq_refl)). specialize (IH z (or_introl eq_refl)). lia.
Qed.

Lemma hd_In (l : list Z) : l <> [] -> In (hd 0 l) l.
Proof. destruct l; [congruence | intros _; now left]. Qed.

Lemma last_In (l : list Z) : l <> [] -> In (last l 0) l.
Proof.
  induction l as [|x l IH]; [congruence|]. intros _.
  destruct l as [|z t]; [now left|].
  right. change (last (x :: z :: t) 0) with (last (z :: t) 0). apply IH. discriminate.
Qed.

Lemma sort_nonempty l : l <> [] -> sort l <> [].
Proof.
  destruct l as [|x r]; [congruence|]. intros _ H.
  assert (Hin : In x (sort (x :: r))) by (apply In_sort; now left).
  rewrite H in Hin. destruct Hin.
Qed.

(* ---- the two scans --------------------------------------------------------- *)
Lemma scan1_step_cases_gen hm mn prefer mx good b :
  (scan1_step hm mn prefer mx good b = b /\
   (prefer <= b /\ (hm = true -> mn <= b) /\ b <= mx) /\ (b < good \/ good = -1)) \/
  (scan1_step hm mn prefer mx good b = good /\
   ((prefer <= b /\ (hm = true -> mn <= b) /\ b <= mx) -> good <> -1 /\ good <= b)).
Proof.
  unfold scan1_step.
  destruct (prefer <=? b) eqn:E1; destruct hm; destruct (mn <=? b) eqn:E2;
    destruct (b <=? mx) eqn:E3; destruct (b <? good) eqn:E4; destruct (good =? -1) eqn:E5;
    cbn [andb orb negb];
    solve [ left; repeat split; try lia; intros; lia
          | right; split; [reflexivity|]; intros (H1 & H2 & H3);
            try specialize (H2 eq_refl); lia ].
Qed.

Section Scan.
  Variables (hm : bool) (mn prefer mx : Z).

  Definition Q (b : Z) : Prop := prefer <= b /\ (hm = true -> mn <= b) /\ b <= mx.
  Definition R (b : Z) : Prop := mn <= b <= mx.

  Lemma scan1_step_cases good b :
    (scan1_step hm mn prefer mx good b = b /\ Q b /\ (b < good \/ good = -1)) \/
    (scan1_step hm mn prefer mx good b = good /\ (Q b -> good <> -1 /\ good <= b)).
  Proof. apply scan1_step_cases_gen. Qed.

  Lemma scan1_inv l : forall good,
    (forall b, In b l -> 0 <= b) -> (good = -1 \/ 0 <= good) ->
    let r := fold_left (scan1_step hm mn prefer mx) l good in
    (r = good \/ (In r l /\ Q r)) /\
    (good <> -1 -> r <> -1 /\ r <= good) /\
    (forall b, In b l -> Q b -> r <> -1 /\ r <= b).
  Proof.
    induction l as [|b t IH]; intros good Hpos Hgood; cbn [fold_left].
    - split; [now left|]. split; [intros; lia|]. intros ? [].
    - assert (Hb : 0 <= b) by (apply Hpos; now left).
      assert (Hpos' : forall x, In x t -> 0 <= x) by (intros x Hx; apply Hpos; now right).
      pose proof (scan1_step_cases good b) as Hc.
      set (good' := scan1_step hm mn prefer mx good b) in *.
      assert (Hgood' : good' = -1 \/ 0 <= good') by lia.
      specialize (IH good' Hpos' Hgood'). cbn zeta in IH.
      set (r := fold_left (scan1_step hm mn prefer mx) t good') in *.
      destruct IH as (I1 & I2 & I3).
      split; [|split].
      + destruct I1 as [I1|[I1 I1']]; [|right; split; [now right | assumption]].
        destruct Hc as [(Hc & HQ & _)|(Hc & _)].
        * right. split; [left; congruence | congruence].
        * left. congruence.
      + intros Hg. assert (Hg' : good' <> -1 /\ good' <= good) by lia.
        destruct (I2 (proj1 Hg')) as [J1 J2]. lia.
      + intros x [<-|Hx] HQ; [|now apply I3].
        assert (Hg' : good' <> -1 /\ good' <= b).
        { destruct Hc as [(Hc & _ & _)|(Hc & Hc')]; [lia|]. specialize (Hc' HQ). lia. }
        destruct (I2 (proj1 Hg')) as [J1 J2]. lia.
  Qed.

  Lemma scan1_spec l :
    (forall b, In b l -> 0 <= b) ->
    let r := scan1 hm mn prefer mx l in
    (r = -1 /\ forall b, In b l -> ~ Q b) \/
    (r <> -1 /\ In r l /\ Q r /\ forall b, In b l -> Q b -> r <= b).
  Proof.
    intros Hpos. unfold scan1.
    destruct (scan1_inv l (-1) Hpos (or_introl eq_refl)) as (I1 & _ & I3).
    set (r := fold_left (scan1_step hm mn prefer mx) l (-1)) in *. cbn zeta.
    destruct (Z.eq_dec r (-1)) as [E|E].
    - left. split; [assumption|]. intros b Hb HQ. destruct (I3 b Hb HQ). contradiction.
    - right. destruct I1 as [I1|[I1 I1']]; [contradiction|].
      split; [assumption|]. split; [assumption|]. split; [assumption|].
      intros b Hb HQ. now destruct (I3 b Hb HQ).
  Qed.

  Lemma scan2_step_cases good b :
    (scan2_step mn mx good b = b /\ R b /\ good < b) \/
    (scan2_step mn mx good b = good /\ (R b -> b <= good)).
  Proof.
    unfold scan2_step, R.
    destruct (mn <=? b) eqn:E1; destruct (b <=? mx) eqn:E2; destruct (good <? b) eqn:E3;
      cbn [andb]; first [left; lia | right; lia].
  Qed.

  Lemma scan2_inv l : forall good,
    let r := fold_left (scan2_step mn mx) l good in
    (r = good \/ (In r l /\ R r)) /\ good <= r /\ (forall b, In b l -> R b -> b <= r).
  Proof.
    induction l as [|b t IH]; intros good; cbn [fold_left].
    - split; [now left|]. split; [lia|]. intros ? [].
    - pose proof (scan2_step_cases good b) as Hc.
      set (good' := scan2_step mn mx good b) in *.
      specialize (IH good'). cbn zeta in IH.
      set (r := fold_left (scan2_step mn mx) t good') in *.
      destruct IH as (I1 & I2 & I3).
      split; [|split].
      + destruct I1 as [I1|[I1 I1']]; [|right; split; [now right | assumption]].
        destruct Hc as [(Hc & HR & _)|(Hc & _)].
        * right. split; [left; congruence | congruence].
        * left. congruence.
      + lia.
      + intros x [<-|Hx] HR; [|now apply I3].
        destruct Hc as [(Hc & _ & _)|(Hc & Hc')]; [lia|]. specialize (Hc' HR). lia.
  Qed.

  Lemma scan2_spec l :
    (forall b, In b l -> 0 <= b) ->
    let r := scan2 mn mx l (-1) in
    (r = -1 /\ forall b, In b l -> ~ R b) \/
    (r <> -1 /\ In r l /\ R r /\ forall b, In b l -> R b -> b <= r).
  Proof.
    intros Hpos. unfold scan2.
    destruct (scan2_inv l (-1)) as (I1 & I2 & I3).
    set (r := fold_left (scan2_step mn mx) l (-1)) in *. cbn zeta.
    destruct (Z.eq_dec r (-1)) as [E|E].
    - left. split; [assumption|]. intros b Hb HR. specialize (I3 b Hb HR). specialize (Hpos b Hb). lia.
    - right. destruct I1 as [I1|[I1 I1']]; [contradiction|].
      split; [assumption|]. split; [assumption|]. split; assumption.
  Qed.
End Scan.

(* ---- choose_size over the sorted list ---------------------------------------- *)
Lemma eqb_m1 x : (x =? -1) = true <-> x = -1.
Proof. apply Z.eqb_eq. Qed.

(* repaired code: first scan honours min *)
Lemma size_smallest_ge_pref sizes mn prefer mx :
  (forall s, In s sizes -> 0 <= s) ->
  (exists s, In s sizes /\ mn <= s <= mx /\ prefer <= s) ->
  let g := get_modulus_size sizes mn prefer mx in
  In g sizes /\ mn <= g <= mx /\ prefer <= g /\
  forall s, In s sizes -> mn <= s <= mx -> prefer <= s -> g <= s.
Proof.
  intros Hpos (s0 & Hs0 & Hr0 & Hp0).
  unfold get_modulus_size, get_modulus_size_gen, choose_size.
  assert (Hpos' : forall b, In b (sort sizes) -> 0 <= b) by (intros b Hb; apply Hpos, In_sort, Hb).
  destruct (scan1_spec true mn prefer mx (sort sizes) Hpos') as [(E & Hno)|(E & Hin & HQ & Hmin)].
  - exfalso. apply (Hno s0); [now apply In_sort|]. unfold Q. repeat split; lia.
  - cbn zeta. set (r := scan1 true mn prefer mx (sort sizes)) in *.
    assert (E1 : (r =? -1) = false) by lia. rewrite E1. rewrite E1.
    destruct HQ as (Q1 & Q2 & Q3). specialize (Q2 eq_refl).
    repeat split; try lia; [now apply In_sort|].
    intros s Hs Hr Hp. apply Hmin; [now apply In_sort|]. unfold Q. repeat split; lia.
Qed.

Lemma size_else_largest sizes mn prefer mx :
  (forall s, In s sizes -> 0 <= s) ->
  (exists s, In s sizes /\ mn <= s <= mx) ->
  (forall s, In s sizes -> mn <= s <= mx -> s < prefer) ->
  let g := get_modulus_size sizes mn prefer mx in
  In g sizes /\ mn <= g <= mx /\ forall s, In s sizes -> mn <= s <= mx -> s <= g.
Proof.
  intros Hpos (s0 & Hs0 & Hr0) Hlt.
  unfold get_modulus_size, get_modulus_size_gen, choose_size.
  assert (Hpos' : forall b, In b (sort sizes) -> 0 <= b) by (intros b Hb; apply Hpos, In_sort, Hb).
  destruct (scan1_spec true mn prefer mx (sort sizes) Hpos') as [(E & Hno)|(E & Hin & HQ & Hmin)].
  - cbn zeta. rewrite E. change (-1 =? -1) with true. cbv iota.
    destruct (scan2_spec mn mx (sort sizes) Hpos') as [(E2 & Hno2)|(E2 & Hin2 & HR2 & Hmax2)].
    + exfalso. apply (Hno2 s0); [now apply In_sort | exact Hr0].
    + cbn zeta in *. set (r := scan2 mn mx (sort sizes) (-1)) in *.
      assert (E3 : (r =? -1) = false) by lia. rewrite E3.
      unfold R in HR2. repeat split; try lia; [now apply In_sort|].
      intros s Hs Hr. apply Hmax2; [now apply In_sort | exact Hr].
  - exfalso. destruct HQ as (Q1 & Q2 & Q3). specialize (Q2 eq_refl).
    apply (proj1 (In_sort _ _)) in Hin. specialize (Hlt _ Hin (conj Q2 Q3)). lia.
Qed.

Lemma size_fallback sizes mn prefer mx :
  (forall s, In s sizes -> 0 <= s) ->
  sizes <> [] ->
  (forall s, In s sizes -> ~ (mn <= s <= mx)) ->
  let g := get_modulus_size sizes mn prefer mx in
  In g sizes /\
  ((mn <= g /\ forall s, In s sizes -> g <= s) \/
   ((exists s, In s sizes /\ s < mn) /\ forall s, In s sizes -> s <= g)).
Proof.
  intros Hpos Hne Hno.
  unfold get_modulus_size, get_modulus_size_gen, choose_size.
  assert (Hpos' : forall b, In b (sort sizes) -> 0 <= b) by (intros b Hb; apply Hpos, In_sort, Hb).
  pose proof (sort_sorted sizes) as Hsorted. pose proof (sort_nonempty sizes Hne) as Hne'.
  destruct (scan1_spec true mn prefer mx (sort sizes) Hpos') as [(E & _)|(E & Hin & HQ & _)].
  - cbn zeta. rewrite E. change (-1 =? -1) with true. cbv iota.
    destruct (scan2_spec mn mx (sort sizes) Hpos') as [(E2 & _)|(E2 & Hin2 & HR2 & _)].
    + cbn zeta in E2. rewrite E2. change (-1 =? -1) with true. cbv iota.
      destruct (hd 0 (sort sizes) <? mn) eqn:E3.
      * split; [apply In_sort, last_In, Hne'|]. right. split.
        -- exists (hd 0 (sort sizes)). split; [apply In_sort, hd_In, Hne' | lia].
        -- intros s Hs. apply sorted_last; [assumption | now apply In_sort].
      * split; [apply In_sort, hd_In, Hne'|]. left. split; [lia|].
        intros s Hs. apply sorted_hd; [assumption | now apply In_sort].
    + exfalso. apply (proj1 (In_sort _ _)) in Hin2. exact (Hno _ Hin2 HR2).
  - exfalso. destruct HQ as (Q1 & Q2 & Q3). specialize (Q2 eq_refl).
    apply (proj1 (In_sort _ _)) in Hin. apply (Hno _ Hin). lia.
Qed.

(* the size served is always one of the sizes in the pack *)
Lemma size_in_sizes hm sizes mn prefer mx :
  (forall s, In s sizes -> 0 <= s) -> sizes <> [] ->
  In (get_modulus_size_gen hm sizes mn prefer mx) sizes.
Proof.
  intros Hpos Hne. unfold get_modulus_size_gen, choose_size.
  assert (Hpos' : forall b, In b (sort sizes) -> 0 <= b) by (intros b Hb; apply Hpos, In_sort, Hb).
  pose proof (sort_nonempty sizes Hne) as Hne'.
  destruct (scan1_spec hm mn prefer mx (sort sizes) Hpos') as [(E & _)|(E & Hin & _ & _)].
  - cbn zeta. rewrite E. change (-1 =? -1) with true. cbv iota.
    destruct (scan2_spec mn mx (sort sizes) Hpos') as [(E2 & _)|(E2 & Hin2 & _ & _)].
    + cbn zeta in E2. rewrite E2. change (-1 =? -1) with true. cbv iota.
      destruct (hd 0 (sort sizes) <? mn); [apply In_sort, last_In, Hne' | apply In_sort, hd_In, Hne'].
    + cbn zeta in *. set (r := scan2 mn mx (sort sizes) (-1)) in *.
      assert (E3 : (r =? -1) = false) by lia. rewrite E3. now apply In_sort.
  - cbn zeta in *. set (r := scan1 hm mn prefer mx (sort sizes)) in *.
    assert (E1 : (r =? -1) = false) by lia. rewrite E1, E1. now apply In_sort.
Qed.

(* the code before the repair: an in-range size at least the preferred size exists, yet a
   size below min is served *)
Lemma v0_refuted :
  exists sizes mn prefer mx,
    (exists s, In s sizes /\ mn <= s <= mx /\ prefer <= s) /\
    ~ (mn <= get_modulus_size_v0 sizes mn prefer mx <= mx).
Proof.
  exists [2048; 4096], 4096, 2048, 8192. split.
  - exists 4096. cbn. lia.
  - vm_compute. intros [H _]. apply H. reflexivity.
Qed.

(* ---- the pack ------------------------------------------------------------- *)
Lemma bit_length_nonneg n : 0 <= bit_length n.
Proof. unfold bit_length. destruct (n =? 0); [lia|]. pose proof (Z.log2_nonneg (Z.abs n)). lia. Qed.

Lemma pack_get_add p k e k' e' :
  In e' (pack_get (pack_add p k e) k') <-> In e' (pack_get p k') \/ (k' = k /\ e' = e).
Proof.
  induction p as [|[k0 es] r IH]; cbn [pack_add pack_get].
  - destruct (Z.eqb_spec k k') as [Ek|Ek]; cbn [In].
    + subst. split; [intros [<-|[]]; right; auto | intros [[]|[_ ->]]; now left].
    + split; [intros [] | intros [[]|[-> _]]; congruence].
  - destruct (Z.eqb_spec k0 k) as [E0|E0]; cbn [pack_get].
    + subst k0. destruct (Z.eqb_spec k k') as [Ek|Ek].
      * subst. rewrite in_app_iff. cbn [In].
        split; [intros [H|[<-|[]]]; auto | intros [H|[_ ->]]; auto].
      * split; [auto | intros [H|[-> _]]; [auto | congruence]].
    + destruct (Z.eqb_spec k0 k') as [Ek|Ek].
      * subst. split; [auto | intros [H|[-> _]]; [auto | congruence]].
      * apply IH.
Qed.

Lemma pack_sizes_add p k e k' :
  In k' (pack_sizes (pack_add p k e)) <-> k' = k \/ In k' (pack_sizes p).
Proof.
  unfold pack_sizes. induction p as [|[k0 es] r IH]; cbn [pack_add map fst In].
  - split; [intros [<-|[]]; auto | intros [->|[]]; auto].
  - destruct (Z.eqb_spec k0 k) as [E0|E0]; cbn [map fst In].
    + subst k0. split; [intros [<-|H]; auto | intros [->|[<-|H]]; auto].
    + rewrite IH. split; [intros [<-|[->|H]]; auto | intros [->|[<-|H]]; auto].
Qed.

Definition pack_wf (p : pack) : Prop := forall k, In k (pack_sizes p) -> pack_get p k <> [].

Lemma pack_wf_add p k e : pack_wf p -> pack_wf (pack_add p k e).
Proof.
  intros Hwf k' Hk' Hnil. apply pack_sizes_add in Hk' as [->|Hk'].
  - assert (H : In e (pack_get (pack_add p k e) k)) by (apply pack_get_add; right; auto).
    rewrite Hnil in H. destruct H.
  - specialize (Hwf k' Hk'). destruct (pack_get p k') as [|e0 es] eqn:E; [congruence|].
    assert (H : In e0 (pack_get (pack_add p k e) k')) by (apply pack_get_add; left; rewrite E; now left).
    rewrite Hnil in H. destruct H.
Qed.

(* everything stored came from an accepted line of the file (or was there before) *)
Lemma read_inv ls : forall p0,
  let p := fold_left read_step ls p0 in
  (forall k e, In e (pack_get p k) <->
     In e (pack_get p0 k) \/ exists l, In l ls /\ parse_modulus l = Some (k, e)) /\
  (forall k, In k (pack_sizes p) <->
     In k (pack_sizes p0) \/ exists l e, In l ls /\ parse_modulus l = Some (k, e)) /\
  (pack_wf p0 -> pack_wf p).
Proof.
  induction ls as [|l t IH]; intros p0; cbn [fold_left].
  - repeat split; try tauto; intros; firstorder.
  - specialize (IH (read_step p0 l)). cbn zeta in IH. destruct IH as (I1 & I2 & I3).
    unfold read_step in *. destruct (parse_modulus l) as [[bl e0]|] eqn:E.
    + split; [|split].
      * intros k e. rewrite I1, pack_get_add. split.
        -- intros [[H|[-> ->]]|(l' & Hl' & Hp)]; [now left | |].
           ++ right. exists l. split; [now left | assumption].
           ++ right. exists l'. split; [now right | assumption].
        -- intros [H|(l' & [<-|Hl'] & Hp)]; [left; now left | |].
           ++ left. right. rewrite E in Hp. injection Hp as -> ->. auto.
           ++ right. exists l'. auto.
      * intros k. rewrite I2, pack_sizes_add. split.
        -- intros [[->|H]|(l' & e' & Hl' & Hp)]; [| now left |].
           ++ right. exists l, e0. split; [now left | assumption].
           ++ right. exists l', e'. split; [now right | assumption].
        -- intros [H|(l' & e' & [<-|Hl'] & Hp)]; [left; now right | |].
           ++ left. left. rewrite E in Hp. now injection Hp as -> _.
           ++ right. exists l', e'. auto.
      * intros Hwf. apply I3, pack_wf_add, Hwf.
    + split; [|split].
      * intros k e. rewrite I1. split.
        -- intros [H|(l' & Hl' & Hp)]; [now left|]. right. exists l'. split; [now right | assumption].
        -- intros [H|(l' & [<-|Hl'] & Hp)]; [now left | congruence |]. right. exists l'. auto.
      * intros k. rewrite I2. split.
        -- intros [H|(l' & e' & Hl' & Hp)]; [now left|]. right. exists l', e'. split; [now right | assumption].
        -- intros [H|(l' & e' & [<-|Hl'] & Hp)]; [now left | congruence |]. right. exists l', e'. auto.
      * assumption.
Qed.

Lemma read_file_entries ls k e :
  In e (pack_get (read_file ls) k) <-> exists l, In l ls /\ parse_modulus l = Some (k, e).
Proof.
  unfold read_file. destruct (read_inv ls []) as (I1 & _ & _). rewrite I1. cbn. intuition.
Qed.

Lemma read_file_sizes ls k :
  In k (pack_sizes (read_file ls)) <-> exists l e, In l ls /\ parse_modulus l = Some (k, e).
Proof.
  unfold read_file. destruct (read_inv ls []) as (_ & I2 & _). rewrite I2. cbn. intuition.
Qed.

Lemma read_file_wf ls : pack_wf (read_file ls).
Proof.
  unfold read_file. destruct (read_inv ls []) as (_ & _ & I3). apply I3. intros k [].
Qed.

(* what a stored line satisfied *)
Lemma parse_modulus_accepts l bl g m :
  parse_modulus l = Some (bl, (g, m)) ->
  exists mod_type tests tries size generator,
    l = Line mod_type tests tries size generator m /\
    2 <= mod_type /\ 4 <= tests /\
    ~ (Z.land tests 4 <> 0 /\ tests < 8 /\ tries < 100) /\
    bl = bit_length m /\ (bl = size \/ bl = size + 1) /\
    g = (if generator =? 0 then 2 else generator).
Proof.
  destruct l as [|mod_type tests tries size generator modulus]; cbn; [discriminate|].
  destruct (weak mod_type tests tries) eqn:Ew; [discriminate|].
  destruct (wrong_length size (bit_length modulus)) eqn:El; [discriminate|].
  intros H. injection H as <- <- <-.
  exists mod_type, tests, tries, size, generator.
  unfold weak, wrong_length, min_type, min_tests, mr_bit, mr_tests_below, mr_min_tries, len_slack,
    default_generator in *.
  repeat split; try lia.
Qed.

Lemma pack_sizes_nonneg ls s : In s (pack_sizes (read_file ls)) -> 0 <= s.
Proof.
  intros H. apply read_file_sizes in H as (l & [g m] & _ & Hp).
  apply parse_modulus_accepts in Hp as (? & ? & ? & ? & ? & _ & _ & _ & _ & -> & _).
  apply bit_length_nonneg.
Qed.

Lemma pack_sizes_char ls k :
  (In k (pack_sizes (read_file ls)) <-> exists l e, In l ls /\ parse_modulus l = Some (k, e))
  /\ (In k (pack_sizes (read_file ls)) -> 0 <= k).
Proof. split; [exact (read_file_sizes ls k) | exact (pack_sizes_nonneg ls k)]. Qed.

(* get_modulus returns an entry stored under the chosen size *)
Lemma get_modulus_entry hm p mn prefer mx r e :
  get_modulus_gen hm p mn prefer mx r = Ok e ->
  In e (pack_get p (get_modulus_size_gen hm (pack_sizes p) mn prefer mx)).
Proof.
  unfold get_modulus_gen. destruct (pack_sizes p) eqn:Es; [discriminate|]. rewrite <- Es.
  destruct (nth_error _ _) eqn:En; [|discriminate].
  intros H. injection H as <-. eapply nth_error_In, En.
Qed.

Lemma never_offers_rejected ls mn prefer mx r e :
  get_modulus (read_file ls) mn prefer mx r = Ok e ->
  exists l, In l ls /\
    parse_modulus l = Some (get_modulus_size (pack_sizes (read_file ls)) mn prefer mx, e).
Proof.
  intros H. apply get_modulus_entry in H. now apply read_file_entries in H.
Qed.

(* something is always offered when the file has an accepted line *)
Lemma offers_something ls mn prefer mx r :
  (exists l, In l ls /\ parse_modulus l <> None) ->
  exists e, get_modulus (read_file ls) mn prefer mx r = Ok e.
Proof.
  intros (l & Hl & Hp). destruct (parse_modulus l) as [[k e0]|] eqn:E; [|congruence].
  assert (Hk : In k (pack_sizes (read_file ls))) by (apply read_file_sizes; eauto).
  unfold get_modulus, get_modulus_gen.
  destruct (pack_sizes (read_file ls)) eqn:Es; [destruct Hk|]. rewrite <- Es.
  assert (Hne : pack_sizes (read_file ls) <> []) by (rewrite Es; discriminate).
  pose proof (size_in_sizes true (pack_sizes (read_file ls)) mn prefer mx
                (pack_sizes_nonneg ls) Hne) as Hin.
  pose proof (read_file_wf ls _ Hin) as Hnn.
  set (es := pack_get (read_file ls) (get_modulus_size_gen true (pack_sizes (read_file ls)) mn prefer mx)) in *.
  destruct (nth_error es (Z.to_nat (r mod Z.of_nat (length es)))) eqn:En; [eauto|].
  exfalso. apply nth_error_None in En.
  assert (0 < Z.of_nat (length es)) by (destruct es; [congruence | cbn [length]; lia]).
  pose proof (Z.mod_pos_bound r (Z.of_nat (length es)) ltac:(lia)). lia.
Qed.

(* ---- request normalisation ----------------------------------------------- *)
Lemma normalise_consistent smin smax mn prefer mx :
  smin <= smax ->
  let '(a, b, c) := normalise_request smin smax mn prefer mx in
  a <= b <= c /\ smin <= b <= smax /\ a <= mn /\ mx <= c.
Proof.
  intros H. unfold normalise_request, clamp_pref.
  destruct (smax <? prefer) eqn:E1;
    repeat match goal with |- context [if ?c then _ else _] => destruct c eqn:? end; lia.
Qed.

Lemma normalise_identity smin smax mn prefer mx :
  mn <= prefer <= mx -> smin <= prefer <= smax ->
  normalise_request smin smax mn prefer mx = (mn, prefer, mx).
Proof.
  intros H1 H2. unfold normalise_request, clamp_pref. cbv zeta.
  assert (E1 : (smax <? prefer) = false) by lia. rewrite E1.
  assert (E2 : (prefer <? smin) = false) by lia. rewrite E2.
  assert (E3 : (prefer <? mn) = false) by lia. rewrite E3.
  assert (E4 : (mx <? prefer) = false) by lia. rewrite E4. reflexivity.
Qed.

Lemma gex_consistent_request smin smax p mn prefer mx r :
  mn <= prefer <= mx -> smin <= prefer <= smax ->
  gex_serve p smin smax mn prefer mx r = get_modulus p mn prefer mx r.
Proof.
  intros H1 H2. unfold gex_serve. now rewrite normalise_identity.
Qed.

(* get_modulus's first scan never leaves the range it is given by KexGex *)
Lemma gex_first_scan_in_range smin smax sizes mn prefer mx :
  smin <= smax ->
  let '(a, b, c) := normalise_request smin smax mn prefer mx in
  get_modulus_size_v0 sizes a b c = get_modulus_size sizes a b c.
Proof.
  intros H. pose proof (normalise_consistent smin smax mn prefer mx H) as Hn.
  destruct (normalise_request smin smax mn prefer mx) as [[a b] c].
  destruct Hn as ((Hab & Hbc) & _).
  unfold get_modulus_size_v0, get_modulus_size, get_modulus_size_gen, choose_size.
  assert (E : scan1 false a b c (sort sizes) = scan1 true a b c (sort sizes)).
  { unfold scan1. generalize (-1). induction (sort sizes) as [|x t IH]; intros g; cbn [fold_left]; [reflexivity|].
    rewrite IH. f_equal. unfold scan1_step. cbn [negb orb].
    destruct (b <=? x) eqn:E1; [|reflexivity]. assert (E2 : (a <=? x) = true) by lia. now rewrite E2. }
  now rewrite E.
Qed.

(* the class attributes read from the source are sane limits *)
Lemma gex_limits : 1024 <= gex_min_bits <= gex_preferred_bits /\ gex_preferred_bits <= gex_max_bits.
Proof. unfold gex_min_bits, gex_preferred_bits, gex_max_bits. lia. Qed.

Lemma gex_live_consistent mn prefer mx :
  let '(a, b, c) := normalise_request gex_min_bits gex_max_bits mn prefer mx in
  a <= b <= c /\ gex_min_bits <= b <= gex_max_bits /\ a <= mn /\ mx <= c.
Proof. apply normalise_consistent. pose proof gex_limits. lia. Qed.

Lemma gex_live_honours p mn prefer mx r :
  mn <= prefer <= mx -> gex_min_bits <= prefer <= gex_max_bits ->
  gex_serve_live p mn prefer mx r = get_modulus p mn prefer mx r.
Proof. apply gex_consistent_request. Qed.
